"""Shared machinery of the thread life-cycle checks C05 / C06.

probe (probe/threads, no-libc, built from /repo's working tree)  --events-->  normalise()
  --abstract per-thread traces-->  TLC (specs/ThreadLifeTrace.tla, property level)  --> verdicts

The algorithm-level model (specs/ThreadLife.tla), the transition tour and the point-scheduler
replay live in thr_model.py.
"""
import json
import os
import re
import signal
import subprocess
import time

from vlib import core

STACK_SZ = 8192 * 16 * 16

C05_RULES = {
    "closure_ran_twice", "closure_never_ran", "closure_ran_but_spawn_failed",
    "join_returned_before_closure_finished", "join_none_but_closure_returned",
    "join_some_but_closure_panicked", "join_wrong_value", "effects_not_visible_after_join",
    "no_happens_before_exit_to_join", "hang_in_join", "hang_in_spawn", "slot_read_before_thread_exit",
    "handle_operation_never_returned_join", "crash", "closure_capture_misplaced_or_corrupted",
}
# everything else belongs to C06


def rule_property(rule):
    return "C05" if rule in C05_RULES else "C06"


class HangBudget(Exception):
    """Raised by run_probe when enough runs of this check already ended in a hang of the code under
    test: every further run would cost a full time-out again.  The check judges what it has."""


MAX_HANGS = 3


class Run:
    """One execution of the probe."""

    def __init__(self, name):
        self.name = name
        self.events = []
        self.strace = None      # list of parsed strace records or None
        self.rc = None
        self.killed = False
        self.script = []
        self.inject = None
        self.wall = 0.0
        self.release = False


BASE_FLAGS = "-C panic=abort -C link-arg=-nostartfiles --cfg tiny_std_verif --check-cfg cfg(tiny_std_verif)"
LINK_MODES = {
    # the three ways the repository's own runners link (test-runners, .local/x86_64-test-runners.sh)
    "dyn": "",                                                                  # dynamic PIE (default)
    "static": " -C target-feature=+crt-static -C relocation-model=static",      # static, non-PIE
    "static-pie": " -C target-feature=+crt-static -C relocation-model=pie",     # static PIE
}


def build(release=False, mode="dyn"):
    if mode == "dyn":
        return core.cargo_build(template="probe/threads", bins=["thrprobe"], release=release)
    # same steps as core.cargo_build (instantiate the template, flock, offline build), with the link
    # mode's RUSTFLAGS and its own target directory so the modes do not evict each other's caches
    import fcntl
    tdir = "target-" + mode
    inst = os.path.join(core.WORK, "probe_threads-%s" % core.repo_tag())
    os.makedirs(core.WORK, exist_ok=True)
    lock = open(os.path.join(core.WORK, ".cargo-%s.lock" % core.repo_tag()), "w")
    fcntl.flock(lock, fcntl.LOCK_EX)
    try:
        core._instantiate(os.path.join(core.VERIF, "probe/threads"), inst)
        e = dict(os.environ)
        e["CARGO_NET_OFFLINE"] = "true"
        e["RUSTFLAGS"] = BASE_FLAGS + LINK_MODES[mode]
        e["CARGO_TARGET_DIR"] = tdir
        cmd = ["cargo", "build", "--offline", "--bin", "thrprobe"] + (["--release"] if release else [])
        t0 = time.time()
        p = subprocess.run(cmd, cwd=inst, env=e, stdout=subprocess.PIPE, stderr=subprocess.STDOUT, text=True, timeout=1800)
        if p.returncode != 0:
            raise core.ToolError("cargo build (%s) failed:\n%s" % (mode, "\n".join(p.stdout.splitlines()[-40:])))
        core.log("cargo build probe/threads (%s, %s) %.1fs" % (mode, "release" if release else "debug", time.time() - t0))
    finally:
        fcntl.flock(lock, fcntl.LOCK_UN)
        lock.close()
    d = os.path.join(inst, tdir, "x86_64-unknown-linux-gnu", "release" if release else "debug")
    if not os.path.exists(os.path.join(d, "thrprobe")):
        raise core.ToolError("no thrprobe binary in " + d)
    return d


STRACE_SYSCALLS = "mmap,munmap,clone,clone3,set_tid_address,exit,exit_group"


def run_probe(chk, bindir, name, script, strace=False, inject=None, timeout=120, cpus=None, trace=None,
              launcher=None, rlimits=None, force=False):
    """Run the probe on `script` (list of lines).  A hang of the probe process itself (beyond its
    own watchdog) is data too: the process is killed and the run is marked `killed`."""
    d = os.path.join(chk.work, "runs")
    os.makedirs(d, exist_ok=True)
    sp = os.path.join(d, name + ".script")
    op = os.path.join(d, name + ".ndjson")
    tp = os.path.join(d, name + ".strace")
    with open(sp, "w") as f:
        f.write("\n".join(script) + "\n")
    for p in (op, tp):
        if os.path.exists(p):
            os.unlink(p)
    cmd = [os.path.join(bindir, "thrprobe"), sp, op]
    if strace:
        # trace="all": every system call, with enough of write()'s buffer to recognise the probe's events
        pre = ["strace", "-f", "-o", tp, "-e", "trace=" + (trace or STRACE_SYSCALLS)] + (["-s", "160"] if trace else [])
        if inject:
            pre += ["-e", "inject=" + inject]
        cmd = pre + cmd
    if launcher:
        # e.g. ["chrt", "-f", "10"]: process-wide scheduling policy, inherited by every thread
        cmd = list(launcher) + cmd
    if cpus:
        # confine the whole process (and the tracer) to a CPU set: preemption-driven interleavings
        cmd = ["taskset", "-c", cpus] + cmd
    if getattr(chk, "hangs", 0) >= MAX_HANGS and not force:
        raise HangBudget("%d runs ended in a hang" % chk.hangs)
    r = Run(name)
    r.script = script
    r.inject = inject
    r.cpus = cpus
    r.launcher = launcher
    r.rlimits = rlimits
    r.bindir, r.trace, r.timeout, r.used_strace = bindir, trace, timeout, strace
    t0 = time.time()
    # own session: a hung probe (threads possibly in uninterruptible waits) is killed as a whole
    # process group, and never waited for without a deadline
    def pre():
        import resource
        for res_name, val in (rlimits or {}).items():
            resource.setrlimit(getattr(resource, res_name), (val, val))
    p = subprocess.Popen(cmd, stdout=subprocess.DEVNULL, stderr=subprocess.DEVNULL, start_new_session=True,
                         preexec_fn=pre if rlimits else None)
    try:
        r.rc = p.wait(timeout=timeout)
    except subprocess.TimeoutExpired:
        r.killed = True
        r.rc = -9
        try:
            os.killpg(p.pid, signal.SIGKILL)
        except OSError:
            pass
        try:
            p.wait(timeout=5)
        except subprocess.TimeoutExpired:
            core.log("probe %s (pid %d) cannot be reaped after SIGKILL: abandoned" % (name, p.pid))
    r.wall = time.time() - t0
    if not os.path.exists(op):
        raise core.ToolError("probe produced no output file for run %s (rc=%s)" % (name, r.rc))
    evs = []
    lines = [l.strip() for l in open(op, errors="replace")]
    lines = [l for l in lines if l]
    for i, line in enumerate(lines):
        try:
            evs.append(json.loads(line))
        except ValueError:
            # a torn line can only be the last one of a killed / crashed process
            if i != len(lines) - 1:
                raise core.ToolError("probe run %s: event line %d is not valid JSON: %s" % (name, i + 1, line[:200]))
    evs.sort(key=lambda e: e["seq"])
    r.events = evs
    if strace:
        if not os.path.exists(tp):
            raise core.ToolError("strace produced no log for run " + name)
        r.strace = parse_strace(tp)
    stuck = sum(1 for e in evs if e["ev"] == "diverge" and "in time" in e.get("why", ""))
    if r.killed or r.rc in (-14, 142) or any(e["ev"] == "timeout" for e in evs) or stuck >= 2:
        chk.hangs = getattr(chk, "hangs", 0) + 1
    return r


# ------------------------------------------------------------------------------------------------
# strace
# ------------------------------------------------------------------------------------------------
_RE_LINE = re.compile(r"^(\d+)\s+(.*)$")
_RE_CALL = re.compile(r"^(\w+)\((.*)\)\s+=\s+(\S+)(.*)$")
_RE_UNFIN = re.compile(r"^(\w+)\((.*) <unfinished \.\.\.>$")
_RE_RESUMED = re.compile(r"^<\.\.\. (\w+) resumed>(.*)\)\s+=\s+(\S+)(.*)$")


def parse_strace(path):
    """-> list of dicts {pos, pid, call, args, ret, note}; pos = line index of the call's FIRST
    appearance (entry), rpos = line index of its completion."""
    out = []
    pending = {}
    for pos, line in enumerate(open(path, errors="replace")):
        m = _RE_LINE.match(line.rstrip("\n"))
        if not m:
            continue
        pid = int(m.group(1))
        rest = m.group(2)
        if rest.startswith("+++ exited") or rest.startswith("+++ killed"):
            out.append({"pos": pos, "rpos": pos, "pid": pid, "call": "+exited", "args": "", "ret": "", "note": rest})
            continue
        if rest.startswith("---"):
            out.append({"pos": pos, "rpos": pos, "pid": pid, "call": "+signal", "args": rest, "ret": "", "note": rest})
            continue
        mu = _RE_UNFIN.match(rest)
        if mu:
            rec = {"pos": pos, "rpos": None, "pid": pid, "call": mu.group(1), "args": mu.group(2), "ret": None, "note": ""}
            pending[pid] = rec
            out.append(rec)
            continue
        mr = _RE_RESUMED.match(rest)
        if mr and pid in pending:
            rec = pending.pop(pid)
            rec["args"] += mr.group(2)
            rec["ret"] = mr.group(3)
            rec["note"] = mr.group(4).strip()
            rec["rpos"] = pos
            continue
        mc = _RE_CALL.match(rest)
        if mc:
            out.append({"pos": pos, "rpos": pos, "pid": pid, "call": mc.group(1), "args": mc.group(2),
                        "ret": mc.group(3), "note": mc.group(4).strip()})
    return out


def _hex(s):
    s = s.strip()
    if s in ("NULL", "0"):
        return 0
    try:
        return int(s, 16) if s.startswith("0x") else int(s)
    except ValueError:
        return None


def detect_stack_size(recs, h_pid, stack_addrs):
    """The size spawn maps for a stack: the size of the owner's mmaps that returned the addresses the
    probe saw at protocol point 3 (so a different stack size in the code is not a surprise)."""
    sizes = {}
    for r in recs:
        if r["pid"] == h_pid and r["call"] == "mmap" and r["ret"] and r["ret"].startswith("0x") and _hex(r["ret"]) in stack_addrs:
            a = [x.strip() for x in r["args"].split(",")]
            if len(a) >= 2 and a[1].isdigit():
                sizes[int(a[1])] = sizes.get(int(a[1]), 0) + 1
    if not sizes:
        return STACK_SZ
    return max(sizes.items(), key=lambda kv: kv[1])[0]


def strace_threads(recs, main_pid, h_pid, stack_sz):
    """The owner's stack-sized anonymous mmaps and its clone attempts, in its program order."""
    stack_maps = []
    clones = []
    by_pid = {}
    for r in recs:
        by_pid.setdefault(r["pid"], []).append(r)
        if r["pid"] != h_pid:
            continue
        if r["call"] == "mmap":
            a = [x.strip() for x in r["args"].split(",")]
            if len(a) >= 2 and a[0] == "NULL" and a[1] == str(stack_sz):
                stack_maps.append(r)
        elif r["call"] in ("clone", "clone3"):
            # a clone that was interrupted by a signal (e.g. SIGCHLD of a child a closure forked) is
            # restarted by the kernel: strace shows `= ? ERESTARTNOINTR (To be restarted)` and then the
            # real attempt - only the latter is an attempt of spawn
            if r["ret"] == "?" or "ERESTART" in (r.get("note") or ""):
                continue
            clones.append(r)
    return stack_maps, clones, by_pid


def thread_summary(recs, by_pid, clone_rec, base, size):
    """What the child of `clone_rec` did with its own stack [base, base+size)."""
    ret = clone_rec["ret"]
    if ret is None or not ret.lstrip("-").isdigit() or int(ret) <= 0:
        return None
    child = int(ret)
    mine = [r for r in by_pid.get(child, []) if r["pos"] > clone_rec["pos"]]
    # this instance ends at the first "+exited" of that pid
    inst = []
    for r in mine:
        inst.append(r)
        if r["call"] == "+exited":
            break
    calls = [r for r in inst if not r["call"].startswith("+")]
    mm = [r for r in calls if r["call"] == "munmap" and _overlaps(r, base, size)]
    # a munmap that an injected fault made fail releases nothing: the stack stays mapped as the planned
    # consequence of that fault
    planned = [r for r in mm if "INJECTED" in (r.get("note") or "")]
    own = [r for r in mm if r not in planned]
    whole = bool(own) and _hex(own[0]["args"].split(",")[0]) == base and int(own[0]["args"].split(",")[1]) == size
    last = False
    if own:
        k = calls.index(own[0])
        last = (k == len(calls) - 2 and calls[-1]["call"] == "exit") or (k == len(calls) - 1)
    disarmed = any(r["call"] == "set_tid_address" and _hex(r["args"]) == 0 for r in calls)
    end_pos = own[0]["pos"] if own else (inst[-1]["pos"] if inst else clone_rec["pos"])
    foreign = 0
    for r in recs:
        if r["pid"] != child and r["call"] == "munmap" and clone_rec["rpos"] < r["pos"] < end_pos and _overlaps(r, base, size):
            foreign += 1
    exited = any(r["call"] == "+exited" for r in inst)
    return {"child": child, "own": len(own), "whole": whole, "last": last, "disarmed": disarmed,
            "foreign": foreign, "exited": exited, "ncalls": len(calls), "planned_leak": len(planned)}


def _overlaps(r, base, size):
    a = r["args"].split(",")
    addr = _hex(a[0])
    try:
        ln = int(a[1])
    except (ValueError, IndexError):
        return False
    if addr is None:
        return False
    return addr < base + size and base < addr + ln


# ------------------------------------------------------------------------------------------------
# normalisation: raw events (+ strace) -> abstract per-thread traces
# ------------------------------------------------------------------------------------------------
T_TOUCH = {10: "write_slot", 11: "cas", 21: "cas", 14: "free", 24: "free"}
H_TOUCH = {31: "read_slot", 32: "free", 43: "free", 40: "cas"}


class Thread:
    def __init__(self, k, ev):
        self.k = k
        self.ty = ev.get("ty")
        self.fin_plan = ev.get("fin")
        self.party = ev.get("party", 0)
        self.tid = None
        self.ev = []          # abstract events
        self.raw = []         # raw events that belong to this thread (for replay files)
        self.addr = {}
        self.pending = []     # allocs by H inside the spawn window not yet given a role
        self.spawn_ok = None
        self.op = None
        self.wake = False
        self.timeout = False
        self.ended = False
        self.sys = None
        self.kept = False
        self.stack_known = False
        self.h_unmaps = []
        self.arr_h = []       # (model pc, seq) arrivals of the handle owner that concern this thread
        self.arr_t = []       # arrivals of the thread itself
        self.pk = None        # how a panicking closure panicked
        self.mmap_rec = None


def executor_thread(threads, order):
    """the executor thread of the probe as a thread under test (k = 0): spawned by the first
    thread::spawn of the process, its closure never returns, its handle is kept"""
    t = Thread(0, {"ty": "unit", "fin": "ret", "party": 0})
    t.spawn_ok = True
    t.ev = [{"e": "spawn", "ok": True}, {"e": "run"}]
    threads[0] = t
    order.insert(0, t)
    return t


def normalise(run):
    """-> (threads: list[Thread] in spawn order, batches: list[dict], info: dict)"""
    evs = run.events
    hello = next((e for e in evs if e["ev"] == "hello"), None)
    if hello is None:
        boot = next((e for e in evs if e["ev"] == "boot"), None)
        if boot is None:
            # the script interpreter never got to its first spawn call: the probe itself is broken
            raise core.ToolError("probe run %s wrote no boot event (rc=%s): the probe did not reach the code under test" % (run.name, run.rc))
        # The process died (or hung) inside / right after the first thread::spawn it made - the one
        # that creates the executor thread, a closure that returns () and whose handle is kept.
        # That is an execution of the code under test: a thread whose closure never got to run.
        t = Thread(0, {"ty": "unit", "fin": "ret", "party": 0})
        t.op = None
        hung = run.killed or run.rc in (-14, 142)     # SIGALRM: the probe's own start-up alarm
        t.ev = [{"e": "timeout", "op": "spawn"} if hung else {"e": "crash"},
                {"e": "end", "kept": True, "sys": False, "dv": False, "quiet": False}]
        t.raw = list(evs)
        info = {"main": boot["main"], "h": 0, "diverged": False, "steps": [], "stray": 0, "abort": False,
                "timeout": None, "unattributed_badfree": 0, "debug": None, "crash": True, "early_crash": True,
                "blocks_live": {}, "logalloc": True}
        return [t], [], info
    main_tid, h_tid = hello["main"], hello["h"]
    threads = {}
    order = []
    blocks = {}        # live attributed heap blocks: ptr -> (k, role)
    recent = {}        # ptr -> (k, role) of the last attributed owner (for bad frees)
    tid_owner = {}
    cur_spawn = None
    h_cur = None
    last_h = None
    pending9 = {}
    batches = []
    info = {"main": main_tid, "h": h_tid, "diverged": False, "steps": [], "stray": 0, "abort": False,
            "timeout": None, "unattributed_badfree": 0, "debug": hello.get("debug")}
    baseline = None
    last_q = None
    batch_threads = 0
    batch_panicked = 0
    panicked_since_base = 0
    logalloc_now = not any(l.startswith("set") and "logalloc=0" in l for l in run.script)

    def emit(t, rec, raw=None):
        t.ev.append(rec)
        if raw is not None:
            t.raw.append(raw)

    for e in evs:
        ev = e["ev"]
        tid = e["tid"]
        if ev == "spawn_call":
            t = Thread(e["k"], e)
            threads[e["k"]] = t
            order.append(t)
            cur_spawn = t
            batch_threads += 1
            t.raw.append(e)
            if e.get("ck") == 1:
                # the closure owns a token whose destructor reports itself
                emit(t, {"e": "tok"})
            t.arr_h.append(("60", e["seq"]))
        elif ev == "spawn_ret":
            t = threads.get(e["k"])
            if t:
                t.arr_h.append(("60", e["seq"]))
                t.spawn_ok = e["ok"]
                emit(t, {"e": "spawn", "ok": e["ok"]}, e)
                for (p, sz) in t.pending:
                    # allocated inside spawn, still live when spawn returned, no role announced
                    blocks[p] = (t.k, "other")
                    emit(t, {"e": "acq", "r": "other"})
                t.pending = []
            cur_spawn = None
        elif ev == "alloc":
            if cur_spawn is not None and tid == h_tid:
                cur_spawn.pending.append((e["p"], e["sz"]))
                cur_spawn.raw.append(e)
            elif tid in tid_owner:
                t = threads[tid_owner[tid]]
                role = "val" if t.fin_plan == "ret" else "cdata"
                blocks[e["p"]] = (t.k, role)
                emit(t, {"e": "acq", "r": role}, e)
        elif ev == "dealloc":
            p = e["p"]
            if p in blocks:
                k, role = blocks.pop(p)
                recent[p] = (k, role)
                t = threads[k]
                by = "H" if tid == h_tid else ("T" if tid == t.tid else ("H" if tid == main_tid else "X"))
                if role in ("val", "cdata", "other"):
                    by = "H" if by == "X" else by
                emit(t, {"e": "rel", "r": role, "by": by}, e)
            elif cur_spawn is not None and tid == h_tid:
                # freed again inside spawn (error path): was it one of the pending blocks?
                for j, (pp, sz) in enumerate(cur_spawn.pending):
                    if pp == p:
                        cur_spawn.pending.pop(j)
                        cur_spawn.raw.append(e)
                        break
        elif ev == "badfree":
            p = e["p"]
            if p in recent:
                k, role = recent[p]
                emit(threads[k], {"e": "badfree", "r": role, "kind": e.get("kind", "")}, e)
            elif p in blocks:
                k, role = blocks[p]
                emit(threads[k], {"e": "badfree", "r": role, "kind": e.get("kind", "")}, e)
            else:
                info["unattributed_badfree"] += 1
        elif ev == "pt":
            pid_ = e["id"]
            if tid == h_tid and cur_spawn is not None and pid_ in (1, 2, 3, 4, 5, 6):
                t = cur_spawn
                t.raw.append(e)
                if pid_ != 5:
                    t.arr_h.append((str(pid_), e["seq"]))
                if pid_ == 5:
                    t.addr["futex"] = e["arg"]
                role = {1: "tsm", 2: "closure", 3: "stack", 4: "tls"}.get(pid_)
                if role:
                    t.addr[role] = e["arg"]
                    if role != "stack":
                        for j, (pp, sz) in enumerate(t.pending):
                            if pp == e["arg"]:
                                t.pending.pop(j)
                                break
                        blocks[e["arg"]] = (t.k, role)
                    emit(t, {"e": "acq", "r": role})
            elif tid == h_tid and h_cur is not None:
                t = threads[h_cur]
                if pid_ == 50:
                    t.arr_h.append(("50a" if e.get("ord") in ("Acquire", "SeqCst", "AcqRel") else "50r", e["seq"]))
                elif pid_ in (31, 32, 40, 43):
                    t.arr_h.append((str(pid_), e["seq"]))
                if pid_ in H_TOUCH:
                    emit(t, {"e": "touch", "by": "H", "what": H_TOUCH[pid_], "word": e.get("word", 0)}, e)
                else:
                    t.raw.append(e)
            elif tid in tid_owner:
                t = threads[tid_owner[tid]]
                if pid_ in (10, 11, 13, 14, 15, 16, 20, 21, 23, 24, 25):
                    t.arr_t.append((str(pid_), e["seq"]))
                if pid_ in T_TOUCH and e["arg"] == t.addr.get("tsm", e["arg"]):
                    # (identity, not only the task: the point names the join block it is about)
                    emit(t, {"e": "touch", "by": "T", "what": T_TOUCH[pid_], "word": 0}, e)
                else:
                    t.raw.append(e)
                if pid_ in (16, 25):
                    # the thread is about to leave: this task number says nothing about it any more
                    # (it may be reused, e.g. by a thread that a closure spawns and that reports no `run`)
                    del tid_owner[tid]
            if pid_ == 9:
                # a new thread starts on this task number: whose it is only its `run` event says
                tid_owner.pop(tid, None)
                pending9[tid] = e["seq"]
        elif ev == "run":
            t = threads.get(e["k"])
            if t:
                t.tid = tid
                tid_owner[tid] = t.k
                if tid in pending9:
                    t.arr_t.append(("9", pending9.pop(tid)))
                emit(t, {"e": "run"}, e)
        elif ev in ("cend", "cpanic"):
            t = threads.get(e["k"])
            if t:
                emit(t, {"e": "fin", "how": "ret" if ev == "cend" else "panic"}, e)
                t.pk = e.get("pk")
                if ev == "cpanic":
                    batch_panicked += 1
                    panicked_since_base += 1
        elif ev in ("join_call", "drop_call"):
            t = threads.get(e["k"])
            if t:
                h_cur = t.k
                last_h = t.k
                t.op = "join" if ev == "join_call" else "drop"
                emit(t, {"e": "call", "op": t.op}, e)
        elif ev == "join_ret":
            t = threads.get(e["k"])
            if t:
                t.arr_h.append(("done", e["seq"]))
                emit(t, {"e": "ret", "op": "join", "res": e["res"], "val_ok": e["val_ok"], "eff_ok": e["eff_ok"], "hb": True}, e)
            h_cur = None
        elif ev == "drop_ret":
            t = threads.get(e["k"])
            if t:
                t.arr_h.append(("done", e["seq"]))
                emit(t, {"e": "ret", "op": "drop", "res": "-", "val_ok": True, "eff_ok": True, "hb": False}, e)
            h_cur = None
        elif ev == "tokdrop":
            t = threads.get(e["k"])
            if t:
                emit(t, {"e": "tokdrop"}, e)
        elif ev == "cap":
            t = threads.get(e["k"])
            if t:
                t.caps = getattr(t, "caps", 0) + 1
                if not e["ok"]:
                    emit(t, {"e": "capbad"}, e)
                else:
                    t.raw.append(e)
        elif ev == "vpanic":
            # the destructor of the return value panics while the runtime drops it on the thread: from
            # here on this is a panicking thread (its closure box stays, like after any panic)
            t = threads.get(e["k"])
            if t:
                emit(t, {"e": "fin", "how": "panic"}, e)
                batch_panicked += 1
                panicked_since_base += 1
        elif ev == "vdrop":
            if e.get("zst"):
                # a zero-sized value cannot say whose it is: the task that runs the destructor does -
                # the thread itself, or the handle owner (during / right after its operation on it)
                kk = tid_owner.get(tid) if tid != h_tid else (h_cur if h_cur is not None else last_h)
                t = threads.get(kk)
            else:
                t = threads.get(e["k"])
            if t:
                emit(t, {"e": "vdrop"}, e)
        elif ev == "xload":
            if h_cur is not None and tid == h_tid:
                t = threads[h_cur]
                emit(t, {"e": "touch", "by": "H", "what": "load", "word": 0})
                emit(t, {"e": "xload", "val": e["val"], "acq": e["ord"] in ("Acquire", "SeqCst", "AcqRel")}, e)
        elif ev == "xwait":
            if h_cur is not None and tid == h_tid:
                threads[h_cur].arr_h.append(("51", e["seq"]))
                emit(threads[h_cur], {"e": "touch", "by": "H", "what": "wait", "word": 0}, e)
        elif ev == "stray_wake":
            info["stray"] += 1 if e.get("woken", 0) > 0 else 0
            if h_cur is not None:
                threads[h_cur].wake = True
                threads[h_cur].raw.append(e)
        elif ev == "abort":
            info["abort"] = True
        elif ev == "timeout":
            info["timeout"] = e
            k = e.get("k")
            t = threads.get(h_cur if h_cur is not None else k) or threads.get(k)
            if t is None and cur_spawn is not None:
                t = cur_spawn
            if t is not None:
                t.timeout = True
                op = t.op or ("spawn" if t.spawn_ok is None else "keep")
                emit(t, {"e": "timeout", "op": op}, e)
        elif ev == "race_done":
            batch_threads += e["n"]
            if e.get("bad", 0) > 0:
                info["race_bad"] = e["bad"]
        elif ev == "set":
            pass
        elif ev == "baseline":
            baseline = e
            last_q = None
            batch_threads = 0
            batch_panicked = 0
            panicked_since_base = 0
        elif ev == "quiesce":
            left_unattr = 0
            attributed = 0
            for p in e.get("left_p", []):
                if p in blocks:
                    attributed += 1
                else:
                    left_unattr += 1
            more = e["left_n"] - len(e.get("left_p", []))
            n_attr_live = len(blocks)
            if not logalloc_now:
                # no allocator log in this run (huge batches): the only admitted leftovers are the
                # closure boxes of the threads that panicked since the baseline, one each
                left_unattr = max(0, e["left_n"] - panicked_since_base)
            elif more > 0:
                # list truncated: everything beyond the attributed live blocks is unexplained
                left_unattr = max(0, e["left_n"] - n_attr_live)
            growth = 0
            if last_q is not None:
                growth = max(0, e["vm_pages"] - last_q["vm_pages"])
            batches.append({"e": "batch", "badfree": info["unattributed_badfree"], "left": left_unattr,
                            "left_n": e["left_n"], "threads": e["threads"],
                            "threads0": baseline["threads"] if baseline else 2, "growth": growth,
                            "n": batch_threads, "stacks": 0, "panicked": batch_panicked, "badjoin": info.get("race_bad", 0),
                            "vm_pages": e["vm_pages"], "maps": e["maps"], "raw": e})
            last_q = e
            batch_threads = 0
            batch_panicked = 0
        elif ev == "step":
            info["steps"].append(e)
        elif ev == "diverge":
            info["diverged"] = True
            info["diverge"] = e
        elif ev == "sched_end":
            info["sched_end"] = e
    info["crash"] = False
    if not run.killed and info["timeout"] is None and not info["abort"] and not any(e["ev"] == "bye" for e in evs):
        # the probe process died (signal / abort inside the code under test): data, not a tool error
        info["crash"] = True
        t = threads.get(h_cur) if h_cur is not None else (cur_spawn or (order[-1] if order else None))
        if t is None:
            # No scenario thread yet, but the process got past `boot`/`hello`: it died while the
            # executor thread - itself created by the thread::spawn under test (closure returns (),
            # handle kept) - was running the script.  The crash belongs to that thread's life.
            t = executor_thread(threads, order)
        emit(t, {"e": "crash"})
    if run.killed and info["timeout"] is None:
        # the probe process itself had to be killed: a hang beyond its own watchdog
        t = threads.get(h_cur) if h_cur is not None else (cur_spawn or (order[-1] if order else None))
        if t is None:
            t = executor_thread(threads, order)
        t.timeout = True
        emit(t, {"e": "timeout", "op": t.op or ("spawn" if t.spawn_ok is None else "keep")})
    info["blocks_live"] = dict(blocks)
    info["logalloc"] = not any(l.startswith("set") and "logalloc=0" in l for l in run.script)
    # ---- strace: per-thread summaries, stack accounting
    if run.strace is not None:
        attach_strace(run, order, info, batches)
    # ---- end events
    quiet = not (info["abort"] or info["timeout"] or run.killed or info["crash"])
    for t in order:
        if t.stack_known and "stack" not in t.addr:
            # the spawner mapped a stack (strace) but left spawn before announcing it
            emit(t, {"e": "acq", "r": "stack"})
        if t.sys is not None and t.sys.get("planned_leak"):
            # injected failure of the thread's own stack munmap: the mapping stays, by plan of the fault
            info["planned_stack_leaks"] = info.get("planned_stack_leaks", 0) + 1
            emit(t, {"e": "texit", "flag": False})
            t.stack_known = False
        elif t.sys is not None and (t.sys["exited"] or quiet):
            # (a thread that was still alive when the run was cut short has no complete record)
            s = t.sys
            if s["own"] >= 1:
                emit(t, {"e": "rel", "r": "stack", "by": "T"})
            emit(t, {"e": "texit", "flag": True, "own": s["own"], "foreign": s["foreign"], "last": s["last"],
                     "whole": s["whole"], "disarmed": s["disarmed"]})
        for r in t.h_unmaps:
            emit(t, {"e": "rel", "r": "stack", "by": "H"})
        emit(t, {"e": "end", "kept": t.spawn_ok is True and t.op is None, "sys": t.stack_known, "dv": t.ty in ("dv", "zd", "a64d", "arrd", "pd"),
                 "quiet": quiet})
    return order, batches, info


def _restarted(r):
    """a call the kernel restarts transparently (strace: `= ? ERESTARTNOINTR (To be restarted)`):
    not an attempt of the program"""
    return r["ret"] is None or (r["ret"] == "?" and r["call"] not in ("exit", "exit_group")) or "ERESTART" in (r.get("note") or "")


def _clone_arg(r, name):
    m = re.search(name + r"=(0x[0-9a-f]+|NULL|0)", r["args"])
    return _hex(m.group(1)) if m else None


def attach_strace(run, order, info, batches):
    """Attach to every thread what strace saw of it.  Records are attributed by identity, never by
    counting: a spawn's stack mmap is the owner's stack-sized mmap that returned the address the probe
    saw at point SPAWN_STACK (or, for a spawn that returned Err before that point, the failed one),
    found in the owner's program order after the previous spawn's; its clone is the owner's clone
    between that mmap and the next spawn's whose child_stack lies in that mapping (and whose
    child_tidptr is the address seen at SPAWN_BEFORE_CLONE), and whose result is the tid the closure
    reported.  Restarted calls (`= ? ERESTART...`) are not attempts.  Anything that cannot be
    attributed this way is listed in info["unattributed"] and the thread gets NO system-call facts
    (no verdict can come from it)."""
    recs = run.strace
    h = info["h"]
    ssz = detect_stack_size(recs, h, {t.addr["stack"] for t in order if "stack" in t.addr})
    info["stack_sz"] = ssz
    by_pid = {}
    hrecs = []
    for r in recs:
        by_pid.setdefault(r["pid"], []).append(r)
        if r["pid"] != h:
            continue
        if r["call"] == "mmap":
            a = [x.strip() for x in r["args"].split(",")]
            if len(a) >= 2 and a[0] == "NULL" and a[1] == str(ssz) and not _restarted(r):
                hrecs.append(("mmap", r))
        elif r["call"] in ("clone", "clone3") and not _restarted(r):
            hrecs.append(("clone", r))
    info["strace_stack_maps"] = sum(1 for k, _ in hrecs if k == "mmap")
    info["strace_clones"] = sum(1 for k, _ in hrecs if k == "clone")
    info["injected"] = [r for r in recs if "INJECTED" in (r.get("note") or "")]
    unattributed = info.setdefault("unattributed", [])
    mmap_idx = [i for i, (k, _) in enumerate(hrecs) if k == "mmap"]
    cur = 0          # index into mmap_idx: the owner's stack mmaps are consumed in program order
    live_stacks = 0
    for t in order:
        t.mmap_rec = None
        t.clone_rec = None
        if t.k == 0 and t.ty == "unit":
            continue                      # the executor thread itself (created by main)
        want = t.addr.get("stack")
        reached = want is not None or t.spawn_ok is not None or t.timeout
        if not reached:
            continue
        # ---- the stack mmap of this spawn
        j = cur
        found = None
        while j < len(mmap_idx):
            m = hrecs[mmap_idx[j]][1]
            base = _hex(m["ret"]) if (m["ret"] or "").startswith("0x") else None
            if want is not None:
                if base == want:
                    found = j
                    break
            else:
                # no address announced: the spawn ended before SPAWN_STACK - its mmap failed (or the
                # announcement is missing): the next record in program order is this spawn's
                found = j
                break
            j += 1
        if found is None:
            if want is not None:
                unattributed.append({"k": t.k, "what": "no stack mmap of the owner returned %#x" % want})
            continue
        if found != cur:
            unattributed.append({"k": t.k, "what": "%d stack mmap record(s) of the owner skipped before this spawn's" % (found - cur)})
        m = hrecs[mmap_idx[found]][1]
        cur = found + 1
        t.mmap_rec = m
        base = _hex(m["ret"]) if (m["ret"] or "").startswith("0x") else None
        if base is None:
            continue                      # the mmap failed: no stack, no thread
        t.stack_known = True
        live_stacks += 1
        lo = mmap_idx[found]
        hi = mmap_idx[found + 1] if found + 1 < len(mmap_idx) else len(hrecs)
        cands = [r for (k, r) in hrecs[lo + 1:hi] if k == "clone"]
        good = []
        for c in cands:
            cs = _clone_arg(c, "child_stack") or _clone_arg(c, "stack")
            ct = _clone_arg(c, "child_tidptr") or _clone_arg(c, "child_tid")
            if cs is not None and not (base <= cs <= base + ssz):
                continue
            if "futex" in t.addr and ct is not None and ct != t.addr["futex"]:
                continue
            good.append(c)
        ok = [c for c in good if (c["ret"] or "").isdigit() and int(c["ret"]) > 0]
        s = None
        if t.tid is not None:
            mine = [c for c in ok if int(c["ret"]) == t.tid]
            if len(mine) == 1:
                t.clone_rec = mine[0]
            else:
                unattributed.append({"k": t.k, "what": "no clone of the owner returned the tid %d the closure reported (%d candidate(s))" % (t.tid, len(ok))})
                t.stack_known = False
                live_stacks -= 1
                continue
        elif len(ok) == 1:
            t.clone_rec = ok[0]          # a thread whose closure never reported (never ran / died first)
        elif len(ok) > 1:
            unattributed.append({"k": t.k, "what": "%d successful clones for one spawn" % len(ok)})
            t.stack_known = False
            live_stacks -= 1
            continue
        elif good:
            t.clone_rec = good[-1]       # every attempt failed
        if t.clone_rec is not None:
            s = thread_summary(recs, by_pid, t.clone_rec, base, ssz)
            if s is not None:
                t.sys = s
                if (s["own"] >= 1 and s["whole"]) or s.get("planned_leak"):
                    live_stacks -= 1
        if s is None:
            # no thread came out of this spawn: did the spawner itself unmap the stack again?
            nxt = hrecs[hi][1]["pos"] if hi < len(hrecs) else 10**12
            hm_all = [r for r in recs if r["pid"] == h and r["call"] == "munmap" and m["rpos"] < r["pos"] < nxt
                      and _overlaps(r, base, ssz)]
            t.h_unmaps = [r for r in hm_all if "INJECTED" not in (r.get("note") or "")]
            whole = [r for r in t.h_unmaps if _hex(r["args"].split(",")[0]) == base and int(r["args"].split(",")[1]) == ssz]
            if whole:
                live_stacks -= 1
            elif len(hm_all) > len(t.h_unmaps):
                # the spawner's own clean-up munmap was made to fail: the mapping stays by plan of the fault
                info["planned_stack_leaks"] = info.get("planned_stack_leaks", 0) + 1
                live_stacks -= 1
                t.stack_known = False
    if cur < len(mmap_idx) and not (run.killed or info.get("timeout") or info.get("crash") or info.get("abort")):
        unattributed.append({"k": None, "what": "%d stack mmap record(s) of the owner belong to no spawn" % (len(mmap_idx) - cur)})
    for b in batches[-1:]:
        # the mapping balance is only a fact when every record found its thread
        b["stacks"] = live_stacks if not (run.killed or unattributed) else 0


# ------------------------------------------------------------------------------------------------
# judging by TLC
# ------------------------------------------------------------------------------------------------
DEFAULTS = {"r": "-", "by": "-", "ok": True, "how": "-", "op": "-", "res": "-", "val_ok": True, "eff_ok": True,
            "hb": False, "val": 1, "acq": False, "word": 0, "what": "-", "flag": False, "own": 0, "foreign": 0,
            "last": True, "whole": True, "disarmed": False, "kept": False, "sys": False, "dv": False, "kind": "-",
            "quiet": True,
            "badfree": 0, "badjoin": 0, "left": 0, "threads": 0, "threads0": 0, "growth": 0, "n": 0, "stacks": 0, "run": 0}


def _full(rec):
    d = dict(DEFAULTS)
    for k, v in rec.items():
        if k in DEFAULTS or k == "e":
            d[k] = v
    return d


def judge(chk, name, items):
    """items: list of (label, [abstract events]).  One TLC run (ThreadLifeTrace.tla) over the
    concatenation.  Returns dict label_index -> list of (rule, event index within the item)."""
    lines = []
    starts = []
    for idx, (label, evs) in enumerate(items):
        lines.append(_full({"e": "reset", "run": idx + 1}))
        starts.append(len(lines))
        for e in evs:
            lines.append(_full(e))
    d = os.path.join(chk.work, "judge")
    os.makedirs(d, exist_ok=True)
    path = os.path.join(d, name + ".ndjson")
    core.write_ndjson(path, lines)
    res = core.run_tlc("ThreadLifeTrace", "ThreadLifeTrace.cfg", workers=1, env={"TRACE": path}, deque=True,
                       xss="512m", timeout=1200, xmx="6g")
    core.tlc_must_pass(res, "ThreadLifeTrace on " + name)
    chk.add_tlc(res)
    out = res.printed("TLVERDICT")
    if len(out) != 1:
        raise core.ToolError("ThreadLifeTrace printed %d verdicts for %s:\n%s" % (len(out), name, res.out[-2000:]))
    v = out[0]
    if v["events"] != len(lines) or v["runs"] != len(items):
        raise core.ToolError("ThreadLifeTrace consumed %s events / %s runs, expected %d / %d" % (
            v["events"], v["runs"], len(lines), len(items)))
    verdicts = {}
    for x in v["viol"]:
        ridx = x["run"] - 1
        at = x["at"] - starts[ridx] - 1
        for rule in x["rules"]:
            verdicts.setdefault(ridx, []).append((rule, at))
    return verdicts, len(lines)
