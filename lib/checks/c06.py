"""C06 - threads: stack, TLS and join state released exactly once in every exit/drop order."""
from checks import thr_main


def run(tier):
    return thr_main.run("C06", tier)


def replay(path):
    return thr_main.replay("C06", path)


def selftest():
    return thr_main.selftest("C06")
