"""Driver shared by the C05 and C06 checks: same probe runs, same model, each property reports the
rules that belong to it."""
import json

from vlib import core
from checks import thr_common as T
from checks import thr_scen as S


class _Timed:
    """wraps a module: every call of one of its functions is timed into chk.extra["phase_seconds"]"""

    def __init__(self, mod, chk):
        self._mod, self._chk = mod, chk

    def __getattr__(self, name):
        f = getattr(self._mod, name)
        if not callable(f):
            return f

        def g(*a, **k):
            import time
            t0 = time.time()
            try:
                return f(*a, **k)
            finally:
                d = self._chk.extra.setdefault("phase_seconds", {})
                key = name + (k.get("tag") or "")
                d[key] = round(d.get(key, 0) + time.time() - t0, 1)
        return g


def run(pid, tier):
    from checks import thr_model
    chk = core.Check(pid, tier, "model_checking")
    M = _Timed(thr_model, chk)
    global S
    S_timed = _Timed(S, chk)
    bindir = T.build()
    col = S.Collector(chk)
    return _run(pid, tier, chk, M, S_timed, bindir, col)


def _run(pid, tier, chk, M, S, bindir, col):
    # --- the model: exhaustive exploration of every interleaving of owner, thread and kernel
    M.model_check(chk, tier)
    if tier != "quick":
        M.defect_variants(chk)
        # the two specification levels agree: model behaviours rendered as abstract events are
        # accepted by the property-level monitor, the defect variants' bad paths are rejected
        M.spec_crosscheck(chk)
    try:
        # first of all: can a closure wait for its spawner?  (cheap, and a runtime in which spawn waits
        # for the closure would make every scheduled scenario below run into its time-out)
        S.spawner_releases(chk, col, bindir, tier)
        # --- B1: transition tour of the replay configurations driven through the real code
        M.replay_tours(chk, col, bindir, tier)
        # --- free-running / stray wake / fault injection / large histories, all judged by TLC (B2)
        S.free_running(chk, col, bindir, tier)
        S.stray_wake(chk, col, bindir, tier)
        S.directed_stray(chk, col, bindir, tier)
        S.panic_kinds(chk, col, bindir, tier)
        S.closure_work(chk, col, bindir, tier)
        S.captures_and_drop_panics(chk, col, bindir, tier)
        S.process_state(chk, col, bindir, tier)
        S.explore_handshake(chk, col, bindir, tier)
        S.drop_race(chk, col, bindir, tier)
        S.faults(chk, col, bindir, tier)
        S.discovered_faults(chk, col, bindir, tier)
        S.perturbed(chk, col, bindir, tier)
        S.big_batches(chk, col, bindir, tier)
        if tier == "quick":
            # the optimised build in the quick tier too: what only shows with optimisation / without
            # debug assertions (aligned moves of owned captures, code inside debug_assert!) - the
            # capture checks and every fault family, judged by the same rules
            rbq = T.build(release=True)
            S.captures_and_drop_panics(chk, col, rbq, tier, release=True, tag="-release")
            S.faults(chk, col, rbq, tier, release=True, tag="-release")
            S.discovered_faults(chk, col, rbq, tier, release=True, tag="-release")
        # --- B2 at algorithm level: the free-running thread lives are behaviours of the model
        M.alg_validate(chk, col, cap=250 if tier == "quick" else 3000)
        if tier != "quick":
            rb = T.build(release=True)
            M.replay_tours(chk, col, rb, "quick", tag="-release")
            S.free_running(chk, col, rb, "quick", release=True, tag="-release")
            S.stray_wake(chk, col, rb, "quick", release=True, tag="-release")
            S.directed_stray(chk, col, rb, "quick", release=True, tag="-release")
            S.panic_kinds(chk, col, rb, "quick", release=True, tag="-release")
            S.closure_work(chk, col, rb, "quick", release=True, tag="-release")
            S.captures_and_drop_panics(chk, col, rb, "quick", release=True, tag="-release")
            S.explore_handshake(chk, col, rb, "quick", release=True, tag="-release")
            S.drop_race(chk, col, rb, tier, release=True, tag="-release")
            S.faults(chk, col, rb, "quick", release=True, tag="-release")
            S.discovered_faults(chk, col, rb, "quick", release=True, tag="-release")
            S.big_batches(chk, col, rb, tier, release=True, tag="-release")
            # the other two link modes of the repository's runners (static, static PIE), release
            for mode in ("static", "static-pie"):
                mb = T.build(release=True, mode=mode)
                M.replay_tours(chk, col, mb, "quick", tag="-" + mode)
                S.free_running(chk, col, mb, "quick", release=True, tag="-" + mode)
                S.stray_wake(chk, col, mb, "quick", release=True, tag="-" + mode)
                S.directed_stray(chk, col, mb, "quick", release=True, tag="-" + mode)
                S.faults(chk, col, mb, "quick", release=True, tag="-" + mode)
            chk.extra["link_modes"] = ["dynamic PIE debug", "dynamic PIE release", "static release", "static-pie release"]
    except T.HangBudget as e:
        # every further run would cost a full time-out: judge what was recorded so far
        col.flush("partial")
        chk.extra["stopped_after_hangs"] = str(e)
        chk.assumptions.append("run stopped early: %s; the remaining scenarios were not executed" % e)
    return finish(chk, col, pid)


WALL_CLOCK_RULES = ("hang_in_", "handle_operation_never_returned", "threads_left_behind")


def _scaled_script(script, factor):
    import re as _re
    out, seen = [], False
    for l in script:
        m = _re.search(r"watchdog=(\d+)", l)
        if m:
            seen = True
            l = l.replace(m.group(0), "watchdog=%d" % int(int(m.group(1)) * factor))
        out.append(l)
    if not seen:
        out.insert(0, "set watchdog=%d" % int(4000 * factor))
    out.insert(0, "set alarm=%d" % int(8 * factor))
    return out


def reconfirm_wall_clock(chk, col):
    """Every verdict that rests on a wall-clock limit (watchdog time-out, start-up alarm, killed probe,
    quiescence wait) is re-confirmed before it counts: the run is repeated ALONE, twice, with every
    limit at least 5 times the original (more when the machine is overloaded).  Only a non-return
    seen in both repetitions stays a violation; otherwise it becomes an evidence note."""
    import os
    hangy = [f for f in col.findings if f.rule.startswith(WALL_CLOCK_RULES)]
    if not hangy:
        return
    runs = []
    for f in hangy:
        if f.run not in runs:
            runs.append(f.run)
    notes = chk.extra.setdefault("wall_clock_trips_not_reproduced", [])
    confirmed = chk.extra.setdefault("wall_clock_trips_reproduced", [])
    for run in runs[:2]:
        # (capped: a tree that really hangs must not cost minutes per re-run on an overloaded machine)
        factor = min(10.0, 5.0 * max(1.0, os.getloadavg()[0] / float(os.cpu_count() or 1)))
        rules = sorted({f.rule for f in hangy if f.run is run})
        seen = []
        for i in range(2):
            c2 = S.Collector(chk)
            r2 = T.run_probe(chk, run.bindir, "%s-reconfirm%d" % (run.name, i), _scaled_script(run.script, factor),
                             strace=run.used_strace, inject=run.inject, timeout=run.timeout * factor, cpus=run.cpus,
                             trace=run.trace, launcher=run.launcher, rlimits=run.rlimits, force=True)
            r2.release = run.release
            c2.add(r2, run.mode)
            c2.flush("reconfirm")
            seen.append({f.rule for f in c2.findings if f.rule.startswith(WALL_CLOCK_RULES)})
        if all(s2 & set(rules) for s2 in seen):
            confirmed.append({"run": run.name, "rules": rules})
        else:
            notes.append({"run": run.name, "rules": rules, "count": sum(1 for f in hangy if f.run is run), "limit_factor": round(factor, 1)})
            col.findings = [f for f in col.findings if not (f.run is run and f.rule.startswith(WALL_CLOCK_RULES))]
    # runs beyond the first two with wall-clock findings (a tree that hangs everywhere) keep theirs
    # only if one run was confirmed
    rest = runs[2:]
    if rest and not confirmed:
        col.findings = [f for f in col.findings if not (f.run in rest and f.rule.startswith(WALL_CLOCK_RULES))]


def finish(chk, col, pid):
    reconfirm_wall_clock(chk, col)
    mine = [f for f in col.findings if pid in f.props()]
    other = [f for f in col.findings if pid not in f.props()]
    for f in mine:
        chk.violate(f.signature(), f.what(), f.replay())
    chk.traces = col.accepted
    chk.nontrivial = len(col.classes)
    chk.rule = ("distinct (result layout, closure returns/panics, join/drop/keep, closure finished before/during/after the "
                "handle operation, who released the join block, stray wake, injected fault, mode) combinations observed")
    chk.extra["threads_judged"] = col.threads
    chk.extra["probe_runs"] = col.runs
    chk.extra["stray_wakes_delivered"] = col.stray_delivered
    chk.extra["faults_injected"] = col.injected
    chk.extra["runs"] = sorted(col.summaries, key=lambda r: r["run"].startswith("tour-"))[:40]
    chk.extra["runs_total"] = len(col.summaries)
    chk.assumptions = [
        "x86_64 only (the aarch64 trampoline is not executed)",
        "at most 2 (quick) / 3 (thorough) concurrently live threads in the exhaustive model configurations and the replayed tours; thousands only in free-running batches",
        "kernel steps after a thread's last user-space point (munmap of its own stack, exit, clear-tid store, futex wake) are separate steps in the exhaustive model but one step in the replay (a user-space scheduler cannot interleave them)",
        "happens-before is judged from the memory-ordering argument of the loads of the exit futex word as reported by the tiny_std::verif shim; atomic accesses are sequentially consistent in the model; hardware reorderings are not observed",
        "use after release is judged from the order of announced accesses (protocol points) and logged frees; unannounced accesses are only seen through their consequences (freed blocks are filled with 0xDE)",
        "the probe's global allocator is its counting wrapper around Mutex<Dlmalloc>, the same composition as tiny-std's global-allocator feature, not that feature's private static itself",
        "spurious futex returns are produced by a real process-shared FUTEX_WAKE from another thread; EINTR (signal delivery during the wait) is not produced",
        "fault injection covers the two system calls spawn performs (stack mmap, clone); allocation failure inside spawn is not injected",
    ]
    if other:
        chk.extra["rules_broken_belonging_to_other_property"] = sorted({f.rule for f in other})
    for c in sorted(col.classes, key=str)[:6]:
        chk.sample(list(c))
    return chk.finish()


def replay(pid, path):
    """Re-run the scenario recorded in a replay file against the current tree and judge it again."""
    rp = json.load(open(path))["replay"]
    chk = core.Check(pid, "quick", "model_checking")
    bindir = T.build(release=rp.get("release", False))
    col = S.Collector(chk)
    if rp.get("kind") == "probe-run":
        r = T.run_probe(chk, bindir, "replay", rp["script"], strace=rp.get("strace", False), inject=rp.get("inject"), timeout=300)
        col.add(r, rp.get("mode", "free"))
        col.flush("replay")
    else:
        from checks import thr_model as M
        M.replay_schedule(chk, col, bindir, rp)
    hits = [f for f in col.findings if pid in f.props()]
    for f in hits:
        print("replayed:", f.what())
    print("replay of %s: %d rule(s) of %s broken (recorded: %s)" % (path, len(hits), pid, rp.get("rule")))
    return 1 if hits else 0


def selftest(pid="C05"):
    """Anti-vacuity of the trace judge: a recorded good run is accepted; the same run with one event
    dropped / one field corrupted is rejected with the expected rule."""
    import copy
    chk = core.Check(pid, "quick", "model_checking")
    bindir = T.build()
    script = ["baseline", "one ty=vec fin=ret op=join", "one ty=dv fin=ret op=drop hdelay=3000", "one ty=u8 fin=panic op=join", "quiesce"]
    r = T.run_probe(chk, bindir, "selftest", script, strace=True, timeout=60)
    order, batches, info = T.normalise(r)
    good = [t.ev for t in order]
    cases = [("unchanged", good[0], None)]

    def without(evs, pred):
        out, done = [], False
        for e in evs:
            if not done and pred(e):
                done = True
                continue
            out.append(e)
        return out

    def changed(evs, pred, **kw):
        out, done = [], False
        for e in evs:
            if not done and pred(e):
                e = dict(e, **kw)
                done = True
            out.append(e)
        return out

    cases.append(("drop rel tls", without(good[0], lambda e: e["e"] == "rel" and e.get("r") == "tls"), "leak_tls"))
    cases.append(("dup rel tsm", good[0][:-1] + [{"e": "rel", "r": "tsm", "by": "H"}] + good[0][-1:], "released_twice_tsm"))
    cases.append(("res some->none", changed(good[0], lambda e: e["e"] == "ret", res="none"), "join_none_but_closure_returned"))
    cases.append(("run twice", good[0][:5] + [{"e": "run"}] + good[0][5:], "closure_ran_twice"))
    cases.append(("acquire->relaxed", [dict(e, acq=False) if e["e"] == "xload" else e for e in good[0]], "no_happens_before_exit_to_join"))
    cases.append(("word 1 at free", changed(good[0], lambda e: e["e"] == "touch" and e.get("what") == "free", word=1), "tsm_released_before_thread_exit"))
    cases.append(("no vdrop", without(good[1], lambda e: e["e"] == "vdrop"), "result_not_dropped"))
    cases.append(("no fin before ret", without(good[0], lambda e: e["e"] == "fin"), "join_returned_before_closure_finished"))
    cases.append(("panic + some", changed(good[2], lambda e: e["e"] == "ret", res="some"), "join_some_but_closure_panicked"))
    cases.append(("timeout", good[0][:8] + [{"e": "timeout", "op": "join"}], "hang_in_join"))
    # algorithm-level judge: the recorded arrivals are accepted, a permuted record is not
    from checks import thr_model as M
    import types
    good_t = order[0]
    bad_t = copy.copy(good_t)
    bad_t.arr_t = list(good_t.arr_t)
    i10 = [i for i, (p_, _) in enumerate(bad_t.arr_t) if p_ == "10"][0]
    bad_t.arr_t[i10], bad_t.arr_t[i10 + 1] = (bad_t.arr_t[i10 + 1][0], bad_t.arr_t[i10][1]), (bad_t.arr_t[i10][0], bad_t.arr_t[i10 + 1][1])
    fake = types.SimpleNamespace(alg=[(r, good_t), (r, bad_t)])
    r.info = info
    tot, acc = M.alg_validate(chk, fake, tag="-selftest")
    alg_ok = (tot == 2 and acc == 1)
    print("selftest %-22s expected %-40s got %s %s" % ("alg good+permuted", "1 of 2 accepted", "%d of %d" % (acc, tot), "ok" if alg_ok else "WRONG"))
    # strace attribution: a restarted clone record, a missing clone record and a missing munmap record
    # must never become verdicts about OTHER threads; the first two must not become verdicts at all
    import copy as _copy

    def rejudge(strace_recs, label):
        r2 = T.Run("selftest-" + label)
        r2.events, r2.script, r2.rc, r2.release, r2.strace = r.events, r.script, 0, False, strace_recs
        c2 = S.Collector(chk)
        o2, b2, i2 = c2.add(r2, "free")
        c2.flush("selftest-" + label)
        return c2.findings, i2.get("unattributed") or []

    recs = r.strace
    hclones = [x for x in recs if x["pid"] == info["h"] and x["call"] == "clone"]
    fake = dict(hclones[1], ret="?", note="ERESTARTNOINTR (To be restarted)", pos=hclones[1]["pos"] - 0.5, rpos=hclones[1]["rpos"] - 0.5)
    with_restart = sorted(recs + [fake], key=lambda x: x["pos"])
    f1, u1 = rejudge(with_restart, "restart")
    f2, u2 = rejudge([x for x in recs if x is not hclones[1]], "noclone")
    strace_ok = (not f1 and not u1) and (not f2 and len(u2) >= 1)
    print("selftest %-22s expected %-40s got %s %s" % ("strace restart/missing", "no verdict; 1 unattributed", "%d/%d findings, %d/%d unattributed" % (len(f1), len(f2), len(u1), len(u2)), "ok" if strace_ok else "WRONG"))
    verdicts, n = T.judge(chk, "selftest", [(c[0], c[1]) for c in cases])
    bad = 0
    for i, (name, evs, want) in enumerate(cases):
        got = sorted({r for (r, _) in verdicts.get(i, [])})
        ok = (want is None and not got) or (want is not None and want in got)
        print("selftest %-22s expected %-40s got %s %s" % (name, want, got, "ok" if ok else "WRONG"))
        bad += 0 if ok else 1
    bad += 0 if alg_ok else 1
    bad += 0 if strace_ok else 1
    print("selftest: %d case(s), %d wrong" % (len(cases) + 2, bad))
    return 0 if bad == 0 else 2
