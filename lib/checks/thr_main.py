"""Driver shared by the C05 and C06 checks: same probe runs, same model, each property reports the
rules that belong to it."""
import json

from vlib import core
from checks import thr_common as T
from checks import thr_scen as S


def run(pid, tier):
    from checks import thr_model as M
    chk = core.Check(pid, tier, "model_checking")
    bindir = T.build()
    col = S.Collector(chk)
    # --- the model: exhaustive exploration of every interleaving of owner, thread and kernel
    M.model_check(chk, tier)
    if tier != "quick":
        M.defect_variants(chk)
    # --- B1: transition tour of the replay configurations driven through the real code
    M.replay_tours(chk, col, bindir, tier)
    # --- free-running / stray wake / fault injection / large histories, all judged by TLC (B2)
    S.free_running(chk, col, bindir, tier)
    S.stray_wake(chk, col, bindir, tier)
    S.faults(chk, col, bindir, tier)
    S.big_batches(chk, col, bindir, tier)
    if tier != "quick":
        rb = T.build(release=True)
        M.replay_tours(chk, col, rb, "quick", tag="-release")
        S.free_running(chk, col, rb, "quick", release=True, tag="-release")
        S.stray_wake(chk, col, rb, "quick", release=True, tag="-release")
        S.faults(chk, col, rb, "quick", release=True, tag="-release")
        S.big_batches(chk, col, rb, tier, release=True, tag="-release")
    return finish(chk, col, pid)


def finish(chk, col, pid):
    mine = [f for f in col.findings if f.prop() == pid]
    other = [f for f in col.findings if f.prop() != pid]
    for f in mine:
        chk.violate(f.signature(), f.what(), f.replay())
    chk.traces = col.accepted
    chk.nontrivial = len(col.classes)
    chk.rule = ("distinct (result layout, closure returns/panics, join/drop/keep, closure finished before/during/after the "
                "handle operation, who released the join block, stray wake, injected fault, mode) combinations observed")
    chk.extra["threads_judged"] = col.threads
    chk.extra["probe_runs"] = col.runs
    chk.extra["stray_wakes_delivered"] = col.stray_delivered
    chk.extra["faults_injected"] = col.injected
    chk.extra["runs"] = col.summaries
    if other:
        chk.extra["rules_broken_belonging_to_other_property"] = sorted({f.rule for f in other})
    for c in sorted(col.classes, key=str)[:6]:
        chk.sample(list(c))
    return chk.finish()


def replay(pid, path):
    """Re-run the scenario recorded in a replay file against the current tree and judge it again."""
    rp = json.load(open(path))["replay"]
    chk = core.Check(pid, "quick", "model_checking")
    bindir = T.build(release=rp.get("release", False))
    col = S.Collector(chk)
    if rp.get("kind") == "probe-run":
        r = T.run_probe(chk, bindir, "replay", rp["script"], strace=rp.get("strace", False), inject=rp.get("inject"), timeout=300)
        col.add(r, rp.get("mode", "free"))
        col.flush("replay")
    else:
        from checks import thr_model as M
        M.replay_schedule(chk, col, bindir, rp)
    hits = [f for f in col.findings if f.prop() == pid]
    for f in hits:
        print("replayed:", f.what())
    print("replay of %s: %d rule(s) of %s broken (recorded: %s)" % (path, len(hits), pid, rp.get("rule")))
    return 1 if hits else 0
