"""C18 - io_uring operations complete exactly once with the direct system call's result and side
effects; dropping the ring releases its descriptor and mappings exactly once and nothing else.

1. TLC: UringOps.tla protocol model (submit / execute in any admissible order / post / reap, link
   chains, every success-failure pattern) checked against the property-level judge; UringRes.tla
   (set-up and Drop as coded, with and without IORING_FEAT_SINGLE_MMAP, a second thread mapping
   memory) checked against the Resources monitor; expected-failure runs for every clause.
2. TLC generates batches (UringOpsGen.tla: every single operation, every pair - thorough -, long
   `-simulate` walks of batches of 1..ring-size operations grouped into link chains).
3. harness/uring_ops runs them through the wrapper on the REAL kernel (world A) and as direct libc
   system calls on a twin world B, for ring sizes 1,2,8,32 and the set-up flag combinations the kernel
   accepts; TLC judges every batch record (UringOpsTrace.tla).
4. set-up + drop runs under strace for every accepted flag combination; TLC judges the system-call
   log with the Resources monitor (UringResTrace.tla).
"""
import concurrent.futures as cf
import json
import os
import re
import shutil
import time

from vlib import core
from checks import ring_common as R

SQPOLL, SUBMIT_ALL, COOP, SQE128, CQE32, SINGLE_ISSUER, DEFER = 1 << 1, 1 << 7, 1 << 8, 1 << 10, 1 << 11, 1 << 12, 1 << 13
IOPOLL, CLAMP, R_DISABLED, TASKRUN_FLAG = 1 << 0, 1 << 4, 1 << 6, 1 << 9
OPS_FLAGS = [0, SQE128, CQE32, SQE128 | CQE32, COOP, COOP | TASKRUN_FLAG, SINGLE_ISSUER | DEFER, SUBMIT_ALL, CLAMP, SQPOLL,
             SINGLE_ISSUER | DEFER | SQE128 | CQE32]
# the model of Drop as it is NOW (after the fix recorded in known_findings.d/C18.json)
DROP_GUARDS_SINGLE_MMAP = "TRUE"


# verdicts that rest on a wall-clock limit of the driver (how long it waits for a completion / for the ring to drain)
TIME_CLAUSES = {"missing_completion", "completion_with_unknown_user_data", "slot_refused_on_drained_ring"}


def wait_scale():
    """factor for every wall-clock limit of a re-run: at least 5, more when the machine is oversubscribed"""
    try:
        load = os.getloadavg()[0]
    except OSError:
        load = 0.0
    return round(5 * max(1.0, load / (os.cpu_count() or 1)), 1)


def tlc_cfg(path, consts, init, nxt, invariants=(), properties=()):
    with open(path, "w") as f:
        f.write("CONSTANTS\n" + "".join("  %s = %s\n" % kv for kv in consts.items()))
        f.write("INIT %s\nNEXT %s\n" % (init, nxt))
        if invariants:
            f.write("INVARIANTS %s\n" % " ".join(invariants))
        if properties:
            f.write("PROPERTIES %s\n" % " ".join(properties))
        f.write("CHECK_DEADLOCK FALSE\n")
    return path


def model_runs(work):
    """exhaustive model runs + expected failures -> (list of TlcResult, facts)"""
    jobs = []
    for n in (2, 3, 4):
        jobs.append(("UringOps.tla", tlc_cfg(os.path.join(work, "ops_mc_%d.cfg" % n), {"N": n, "Fault": '""'}, "PInit", "PNext",
                                            ("JudgeAcceptsProtocol",)), None, "protocol N=%d" % n))
    for fault in ("lose_last_submission", "spurious_cancel", "post_twice"):
        jobs.append(("UringOps.tla", tlc_cfg(os.path.join(work, "ops_x_%s.cfg" % fault), {"N": 3, "Fault": '"%s"' % fault}, "PInit", "PNext",
                                            ("JudgeAcceptsProtocol",)), "JudgeAcceptsProtocol", "seeded protocol fault " + fault))
    for probe in ("ProbeCancel", "ProbeReorder"):
        jobs.append(("UringOps.tla", tlc_cfg(os.path.join(work, "ops_p_%s.cfg" % probe), {"N": 3, "Fault": '""'}, "PInit", "PNext",
                                            (probe,)), probe, "reachability " + probe))
    for single in ("TRUE", "FALSE"):
        jobs.append(("UringRes.tla", tlc_cfg(os.path.join(work, "res_mc_%s.cfg" % single), {"SingleMmap": single, "GuardSingle": DROP_GUARDS_SINGLE_MMAP},
                                            "AInit", "ANext", ("TeardownExact",), ("NothingElse",)), None, "teardown single_mmap=%s" % single))
    jobs.append(("UringRes.tla", tlc_cfg(os.path.join(work, "res_x_double.cfg"), {"SingleMmap": "TRUE", "GuardSingle": "FALSE"}, "AInit", "ANext",
                                        ("TeardownExact",)), "TeardownExact", "Drop as found: the shared ring mapping is unmapped twice"))
    jobs.append(("UringRes.tla", tlc_cfg(os.path.join(work, "res_x_other.cfg"), {"SingleMmap": "TRUE", "GuardSingle": "FALSE"}, "AInit", "ANext",
                                        (), ("NothingElse",)), "NothingElse", "Drop as found: the second munmap removes another thread's mapping"))
    jobs.append(("UringRes.tla", tlc_cfg(os.path.join(work, "res_p_done.cfg"), {"SingleMmap": "TRUE", "GuardSingle": DROP_GUARDS_SINGLE_MMAP}, "AInit", "ANext",
                                        ("ProbeDone",)), "ProbeDone", "reachability of the end of the drop"))

    def one(job):
        mod, cfg, expect, what = job
        res = core.run_tlc(mod, cfg, workers=2, timeout=900, metadir=os.path.join(core.WORK, "tlc-meta", "c18-%d-%s" % (os.getpid(), os.path.basename(cfg))))
        if expect is None:
            core.tlc_must_pass(res, what)
            return res, None
        hit = expect in res.invariant_violated or re.search(r"(Temporal|Action) propert(y|ies).*violated|Action property .* is violated", res.out)
        if not hit:
            raise core.ToolError("expected TLC to violate %s (%s):\n%s" % (expect, what, res.out[-1200:]))
        return res, {"violates": expect, "shows": what}

    with cf.ThreadPoolExecutor(max_workers=3) as pool:
        return list(pool.map(one, jobs))


def generate(work, mode, maxbatch, depth_batches, num, seed):
    cfg = tlc_cfg(os.path.join(work, "gen_%s_%d.cfg" % (mode, maxbatch)), {"Mode": '"%s"' % mode, "MaxBatch": maxbatch, "D": depth_batches},
                  "Init", "Next", ("EmitPairs",) if mode != "walk" else ("EmitWalk",))
    if mode == "walk":
        res = core.run_tlc("UringOpsGen.tla", cfg, workers=1, simulate=num, depth=depth_batches * (maxbatch + 2) * 3, seed=seed, timeout=900,
                           metadir=os.path.join(core.WORK, "tlc-meta", "c18-%d-gen-%s-%d" % (os.getpid(), mode, maxbatch)))
        core.tlc_must_pass(res, "UringOpsGen walk")
        walks, seen = [], set()
        for w in res.printed("WALK"):
            key = json.dumps(w[:8])
            if key not in seen:      # siblings of the same simulated behaviour differ in the last step only
                seen.add(key)
                walks.append(w)
        m = re.search(r"The number of states generated: (\d+)", res.out)
        return res, int(m.group(1)) if m else 0, walks
    res = core.run_tlc("UringOpsGen.tla", cfg, workers=2, timeout=1500, xmx="6g",
                       metadir=os.path.join(core.WORK, "tlc-meta", "c18-%d-gen-%s-%d" % (os.getpid(), mode, maxbatch)))
    core.tlc_must_pass(res, "UringOpsGen " + mode)
    batches = res.printed("BATCH")
    if len(batches) != res.distinct:
        raise core.ToolError("generator printed %d batches for %d states" % (len(batches), res.distinct))
    return res, res.generated, batches


def uapi_constants(path="/usr/include/linux/io_uring.h"):
    """name -> value from the kernel's uapi header: enums (sequential, with explicit values) and #define NAME (1U << X) / number"""
    if not os.path.exists(path):
        return {}
    txt = re.sub(r"/\*.*?\*/", "", open(path).read(), flags=re.S)
    vals = {}

    def ev(expr):
        expr = re.sub(r"(\d+)[uU][lL]*", r"\1", expr.strip())
        expr = re.sub(r"[A-Za-z_]\w*", lambda m: str(vals[m.group(0)]), expr)
        return int(eval(expr, {"__builtins__": {}}))

    for m in re.finditer(r"enum\s*\w*\s*\{(.*?)\}", txt, flags=re.S):
        nxt = 0
        for item in m.group(1).split(","):
            item = item.strip()
            if not item:
                continue
            if "=" in item:
                name, e = [x.strip() for x in item.split("=", 1)]
                try:
                    nxt = ev(e)
                except Exception:
                    continue
            else:
                name = item
            if re.fullmatch(r"\w+", name):
                vals[name] = nxt
                nxt += 1
    for m in re.finditer(r"^#define\s+(\w+)\s+(.+)$", txt, flags=re.M):
        try:
            vals[m.group(1)] = ev(m.group(2))
        except Exception:
            pass
    return vals


def library_constant_names():
    """the io_uring constants the library defines, from its source"""
    src = open(os.path.join(core.REPO, "rusl/src/platform/compat/io_uring.rs")).read()
    names = set(re.findall(r"const\s+((?:IOSQE|IORING)_\w+)\s*=", src))
    names |= {"IORING_POLL_" + n for n in re.findall(r"const\s+(ADD_MULTI|UPDATE_EVENTS|UPDATE_USER_DATA)\s*=", src)}
    return names


def sock_scripts(work, maxq):
    """UringSock.tla: exhaustive run + dump -> transition tour -> scripts, with the model's result per step"""
    cfg = tlc_cfg(os.path.join(work, "sock_mc.cfg"), {"MaxQ": maxq}, "SInit", "SNext", ("QueueBounded",))
    dot = os.path.join(work, "sock.dot")
    res = core.run_tlc("UringSock.tla", cfg, workers=2, timeout=600, dump=dot,
                       metadir=os.path.join(core.WORK, "tlc-meta", "c18-%d-sock" % os.getpid()))
    core.tlc_must_pass(res, "UringSock")
    g = R.Graph(dot)
    os.unlink(dot)
    if len(g.nodes) != res.distinct:
        raise core.ToolError("sock dump has %d nodes for %d states" % (len(g.nodes), res.distinct))
    scripts = []
    for k, (init, steps) in enumerate(g.tour(maxlen=40, radius=6)):
        cur = g.nodes[init]
        out, model = [], []
        for (lab, arg, v) in steps:
            a = arg if isinstance(arg, tuple) else ((arg,) if arg is not None else ())
            if lab == "Connect":
                out.append(["connect", a[0], a[1]])
                model.append(0 if cur["cs"][a[0] - 1] == "new" else -106)
            elif lab == "Accept":
                out.append(["accept", a[0]])
                model.append("fd")
            elif lab == "Send":
                out.append(["send", a[0], a[1]])
                model.append(a[1] if cur["cs"][a[0] - 1] != "new" else -107)
            elif lab == "SendFd":
                out.append(["sendfd", a[0]])
                model.append(1)
            elif lab in ("Recv", "Peek"):
                out.append(["recv" if lab == "Recv" else "peek", a[0], a[1]])
                model.append(min(a[1], cur["q"][a[0] - 1]))
            cur = g.nodes[v]
        scripts.append({"run": k, "steps": out, "model": model})
    # one fixed script on top of the toured ones: fourteen MSG_DONTWAIT datagrams to a receiver nobody reads - the
    # queue (net.unix.max_dgram_qlen) fills up and the send flag decides between -EAGAIN and blocking for ever
    scripts.append({"run": len(scripts), "steps": [["dsend"]] * 14, "model": [None] * 14})
    # and one for accept on a TCP listener (loopback), every combination of SOCK_CLOEXEC / SOCK_NONBLOCK, three rounds
    # (the caller's address length cycles through too short / ample): the clients connect directly
    isteps = [s for _ in range(3) for combo in range(4) for s in (["iconnect"], ["iaccept", combo])]
    scripts.append({"run": len(scripts), "steps": isteps, "model": [None] * len(isteps)})
    return res, g.nedges, scripts


def run_driver(bindir, batches_path, root, entries, flags, timeout=900, mode="run", prefix=(), extra=(), env=None):
    shutil.rmtree(root, ignore_errors=True)
    os.makedirs(root)
    p = core.run_cmd(list(prefix) + [os.path.join(bindir, "uring_ops"), mode, batches_path, root, str(entries), str(flags)] + [str(x) for x in extra], timeout=timeout, check=False, env=env)
    recs = [json.loads(l) for l in p.stdout.splitlines() if l.startswith("{") and l.endswith("}")]
    if p.returncode != 0:
        # a crash of the driver process is data if the run was rejected before (decided by the caller)
        recs.append({"ev": "aborted", "why": "driver process ended with status %s" % p.returncode})
    shutil.rmtree(root, ignore_errors=True)
    return recs


def judge_batches(chk, recs, tag):
    path = os.path.join(chk.work, "ops_trace_%s.ndjson" % tag)
    slim = [r if r["ev"] in ("geometry", "lap", "constant") else {"ev": "batch", "panic": r["panic"], "enter": r["enter"], "side_same": r["side_same"], "payload_same": r["payload_same"],
             "subs": [{"u": s["u"], "op": s["op"], "link": s["link"], "hard": bool(s.get("hard")), "req": s["req"], "got_slot": s["got_slot"]} for s in r["subs"]],
             "cqes": [{"u": c["u"], "res": c["res"]} for c in r["cqes"]],
             "direct": [{"u": d["u"], "res": d["res"], "ran": d["ran"], "revents": d.get("revents") or 0,
                         "count_reached": bool(d.get("count_reached"))} for d in r["direct"]]}
            for r in recs]
    core.write_ndjson(path, slim)
    res = core.run_tlc("UringOpsTrace.tla", "UringOpsTrace.cfg", workers=1, env={"TRACE": path}, timeout=3000, xmx="6g", xss="512m",
                       metadir=os.path.join(core.WORK, "tlc-meta", "c18-%d-judge-%s" % (os.getpid(), tag)))
    core.tlc_must_pass(res, "UringOpsTrace " + tag)
    j = res.printed("OPSJUDGE")
    if len(j) != 1 or j[0]["n"] != len(recs):
        raise core.ToolError("UringOpsTrace did not report on all %d records: %s" % (len(recs), res.out[-1500:]))
    os.unlink(path)
    bad = j[0]["bad"]
    # ToJson of a function with a sparse integer domain -> object {"3": "clause"}; of 1..n -> array
    if isinstance(bad, list):
        bad = {str(i + 1): v for i, v in enumerate(bad)}
    return res, {int(k) - 1: v for k, v in bad.items()}


def culprit(rec, clause):
    """operation kind the rejection is about (for the signature)"""
    subs, cq, dr = rec["subs"], rec["cqes"], rec["direct"]
    if clause == "result_differs_from_direct_call":
        for k, s in enumerate(subs):
            c = [x for x in cq if x["u"] == s["u"]]
            if c and c[0]["res"] != dr[k]["res"] and not (s["op"] in ("openat", "socket") and c[0]["res"] >= 0 and dr[k]["res"] >= 0):
                if s["op"] == "timeout" and c[0]["res"] == -62 and dr[k]["res"] == 0:
                    continue
                if s["op"] == "poll" and dr[k].get("revents") == c[0]["res"]:
                    continue
                return s["op"], "ring %d direct %d" % (c[0]["res"], dr[k]["res"])
    if clause == "data_differs_from_direct_call":
        for k, s in enumerate(subs):
            if not rec["payload_same"][k]:
                pl = rec.get("payload", {})
                return s["op"], "ring %s direct %s" % (json.dumps(pl.get("a", [None] * (k + 1))[k]), json.dumps(pl.get("b", [None] * (k + 1))[k]))
    if clause == "missing_completion":
        for s in subs:
            if not any(x["u"] == s["u"] for x in cq):
                return s["op"], "no completion for user_data %d (to_submit %s, enter %s)" % (s["u"], rec["to_submit"], rec["enter"])
    if clause == "side_effects_differ_from_direct_calls":
        return "batch", json.dumps(rec.get("side", {}))[:400]
    return "batch", ""


# ------------------------------------------------------------------------------------------------
# teardown
# ------------------------------------------------------------------------------------------------
LINE = re.compile(r"^(\d+)\s+(\w+)\((.*)\)\s+= (0x[0-9a-f]+|-?\d+)")


def strace_teardown(chk, bindir, entries, flags, with_op, run_id, env=None):
    """set-up (+ one op / one lap over the whole ring) + drop in a child process under strace.  with_op: False, True or "lap".
    -> (events for UringResTrace or None if the kernel refused the set-up, records printed by the child).
    A child killed by a signal is data: a `crashed` event."""
    log = os.path.join(chk.work, "strace_%d.txt" % run_id)
    mode = "2" if with_op == "lap" else ("1" if with_op else "0")
    p = core.run_cmd(["strace", "-f", "-e", "trace=io_uring_setup,mmap,munmap,close,write", "-o", log,
                      os.path.join(bindir, "uring_ops"), "teardown", str(entries), str(flags), mode], timeout=900, check=False, env=env)
    out = [json.loads(l) for l in p.stdout.splitlines() if l.startswith("{") and l.endswith("}")]
    logtxt = open(log).read()
    killed = re.search(r"\+\+\+ killed by (\w+)", logtxt)
    if p.returncode != 0 and not killed:
        raise core.ToolError("strace/uring_ops teardown failed rc=%s: %s" % (p.returncode, p.stderr[-1500:]))
    if not killed and not any(o["ev"] == "teardown" for o in out):
        return None, out
    evs = [{"ev": "reset", "run": run_id, "entries": entries, "flags": flags, "with_op": with_op}]
    phase = None
    single = None
    for line in logtxt.splitlines():
        m = LINE.match(line)
        if not m:
            continue
        _, name, args, rv = m.groups()
        if name == "write":
            mm = re.search(r'"MARK:(\w+):(\w+)"', args)
            if mm:
                phase = mm.group(1) + ":" + mm.group(2)
                if phase == "drop:begin":
                    evs.append({"ev": "drop_begin"})
                if phase == "drop:end":
                    evs.append({"ev": "drop_end"})
            continue
        if phase is None or phase in ("drop:end", "geom:begin"):
            continue
        if name == "io_uring_setup":
            single = "IORING_FEAT_SINGLE_MMAP" in args
            g = lambda k: int(re.search(r"\b%s=(\d+)" % k, args).group(1)) if re.search(r"\b%s=(\d+)" % k, args) else 0
            sqe_sz = 128 if flags & SQE128 else 64
            cqe_sz = 32 if flags & CQE32 else 16
            need = {"sq": g("array") + g("sq_entries") * 4, "cq": g("cqes") + g("cq_entries") * cqe_sz, "sqes": g("sq_entries") * sqe_sz, "single": bool(single)}
            evs.append({"ev": "setup", "fd": int(rv), "need": need if int(rv) >= 0 else {"sq": 0, "cq": 0, "sqes": 0, "single": False}})
        elif name == "mmap":
            a = [x.strip() for x in args.split(",")]
            fd = int(a[4]) if re.fullmatch(r"-?\d+", a[4]) else -1
            off = {"0": "sq", "0x8000000": "cq", "0x10000000": "sqes"}.get(a[5], a[5])
            evs.append({"ev": "mmap", "fd": fd, "addr": rv, "len": int(a[1]), "off": off})
        elif name == "munmap":
            a = [x.strip() for x in args.split(",")]
            evs.append({"ev": "munmap", "addr": a[0], "len": int(a[1]), "ret": int(rv)})
        elif name == "close":
            evs.append({"ev": "close", "fd": int(args.strip()), "ret": int(rv)})
    if killed:
        evs.append({"ev": "crashed", "where": "setup" if phase == "setup:begin" else "later", "signal": killed.group(1)})
    os.unlink(log)
    evs[0]["single_mmap"] = single
    return evs, out


def judge_teardown(chk, runs):
    lines = [e for r in runs for e in r]
    path = os.path.join(chk.work, "res_trace.ndjson")
    core.write_ndjson(path, lines)
    res = core.run_tlc("UringResTrace.tla", "UringResTrace.cfg", workers=1, env={"TRACE": path}, timeout=900, xss="512m")
    core.tlc_must_pass(res, "UringResTrace")
    j = res.printed("RESJUDGE")
    bl = res.printed("RESBAD")
    if len(j) != 1 or j[0]["n"] != len(lines) or j[0]["nbad"] != len(bl):
        raise core.ToolError("UringResTrace did not report on all events: %s" % res.out[-1500:])
    chk.add_tlc(res)
    return {b["run"]: (b["why"], lines[b["line"] - 1]) for b in bl}


def run(tier):
    chk = core.Check("C18", tier, "model_checking")
    quick = tier == "quick"
    t0 = time.time()
    bindir = core.cargo_build(bins=["uring_ops"])
    # ---- TLC: models and generators (in parallel; at most 8 TLC worker threads at a time)
    # requested sizes: powers of two and sizes the kernel rounds up (3->4, 5,6,7->8, 12->16, 33->64); every walk laps
    # its ring many times
    sizes = ((1, 100), (2, 100), (3, 100), (5, 100), (6, 80), (7, 80), (8, 200), (12, 80), (33, 80)) if quick else \
        ((1, 300), (2, 300), (3, 300), (5, 300), (6, 300), (7, 300), (8, 1200), (12, 300), (32, 400), (33, 300))
    with cf.ThreadPoolExecutor(max_workers=3) as pool:
        f_models = pool.submit(model_runs, chk.work)
        f_singles = pool.submit(generate, chk.work, "singles", 1, 0, 0, chk.seed)
        f_walks = {size: pool.submit(generate, chk.work, "walk", size, nb, 2 if quick else 4, chk.seed + size) for size, nb in sizes}
        f_pairs = pool.submit(generate, chk.work, "pairs", 2, 0, 0, chk.seed) if not quick else None
        f_sock = pool.submit(sock_scripts, chk.work, 5 if quick else 8)
        mres = f_models.result()
        gres, _, singles = f_singles.result()
        chk.add_tlc(gres)
        pairs = []
        if f_pairs:
            gres, _, pairs = f_pairs.result()
            chk.add_tlc(gres)
        walks = {}
        for size, f in f_walks.items():
            gres, gen, ws = f.result()
            chk.transitions += gen
            walks[size] = ws
        sres, sock_edges, scripts = f_sock.result()
        chk.add_tlc(sres)
    xf = []
    for res, fact in mres:
        chk.add_tlc(res)
        if fact:
            xf.append(fact)
    core.log("TLC models + generators %.1fs (singles %d, pairs %d, walks %s)" % (time.time() - t0, len(singles), len(pairs),
                                                                                {k: [len(w) for w in v] for k, v in walks.items()}))
    # ---- which set-up flags does this kernel accept
    probe = json.loads(core.run_cmd([os.path.join(bindir, "uring_ops"), "probe"], timeout=120).stdout.splitlines()[0])
    accepted = set(probe["accepted"])
    ops_flags = [f for f in OPS_FLAGS if f in accepted]
    skipped_flags = [f for f in OPS_FLAGS if f not in accepted]
    # ---- the wrapper on the real kernel vs direct calls
    t1 = time.time()
    root = os.path.join("/tmp", "verif-c18-%d" % os.getpid())
    plan = []   # (tag, entries, flags, batches)
    small = [dict(b=i, reset=True, ops=b) for i, b in enumerate(singles)]
    plan.append(("singles", 8, 0, small))
    if pairs:
        plan.append(("pairs", 8, 0, [dict(b=i, reset=True, ops=b) for i, b in enumerate(pairs)]))
    k = 0
    for size, ws in walks.items():
        for w in ws:
            fl = ops_flags[k % len(ops_flags)]
            k += 1
            plan.append(("walk%d" % size, size, fl, [dict(b=i, reset=(i == 0), ops=b) for i, b in enumerate(w)]))
    # the completion count of a timeout: fires early (result 0) once another completion of the batch was posted, else -ETIME
    cnt_batches = [[{"op": "timeout", "abs": a, "cnt": 1, "link": False}, {"op": "statx", "dir": 0, "name": 0, "link": False}] for a in (4, 5)] + \
                  [[{"op": "timeout", "abs": a, "cnt": 1, "link": False}] for a in (3, 2, 1)]
    plan.append(("timeout_count", 8, 0, [dict(b=i, reset=(i == 0), ops=b) for i, b in enumerate(cnt_batches)]))
    # a polling thread that has gone idle (sq_thread_idle = 50 ms): the caller follows the wake-up protocol (enter with
    # IORING_ENTER_SQ_WAKEUP only when needs_wakeup() says so); every batch after a sleep must still complete
    if SQPOLL in accepted:
        idle = [[{"op": "statx", "dir": 0, "name": 0, "link": False}], [{"op": "mkdirat", "dir": 0, "name": 2, "mode": 0, "link": False}],
                [{"op": "statx", "dir": 0, "name": 2, "link": True}, {"op": "unlinkat", "dir": 0, "name": 2, "rmdir": 1, "link": False}],
                [{"op": "readv", "h": 0, "len": 1, "link": False}]]
        plan.append(("sqpoll_idle", 8, SQPOLL, [dict(b=i, reset=(i == 0), sleep_ms=(0 if i == 0 else 300), ops=b) for i, b in enumerate(idle)]))
    # io_uring_enter fails once without taking anything; the caller flushes again (which must report everything still
    # unconsumed) and retries: (1) a ring created disabled (IORING_SETUP_R_DISABLED: -EBADFD until enabled),
    # (2) errors injected into io_uring_enter by strace (EINTR, EAGAIN, EBUSY: every 5th call from the 3rd on)
    retry_batches = [dict(b=i, reset=(i == 0), ops=b) for i, b in enumerate(walks[8][0][:40])]
    if R_DISABLED in accepted:
        plan.append(("enter_fails_ring_disabled", 8, R_DISABLED, retry_batches))
    for err in (("EINTR", "EAGAIN", "EBUSY") if shutil.which("strace") else ()):
        plan.append(("enter_fails_" + err, 8, 0, retry_batches, ("strace", "-f", "-o", "/dev/null", "-e", "trace=io_uring_enter", "-e", "inject=io_uring_enter:error=%s:when=3+5" % err)))
    # world A's directory open AS descriptor 0 (stdin closed first) and as descriptor 2: every path-taking entry carries
    # that number as its dir_fd (descriptor 1 is the driver's output channel)
    for low in (0, 2):
        plan.append(("dirfd_is_%d" % low, 8, 0, [dict(b=i, reset=(i == 0), ops=b) for i, b in enumerate(walks[8][-1][:80])], (), (low,)))
    if not quick:       # every flag combination on the main ring size as well
        for fl in ops_flags:
            for w in walks[8][:1]:
                plan.append(("walk8f%d" % fl, 8, fl, [dict(b=i, reset=(i == 0), ops=b) for i, b in enumerate(w)]))
    stats = {}
    nontrivial = set()
    allrecs, meta = [], []
    aborted = {}
    for item in plan:
        (tag, entries, flags, batches), prefix, extra = item[:4], (item[4] if len(item) > 4 else ()), (item[5] if len(item) > 5 else ())
        bpath = os.path.join(chk.work, "batches_%s.ndjson" % tag)
        core.write_ndjson(bpath, batches)
        recs = run_driver(bindir, bpath, root, entries, flags, prefix=prefix, extra=extra)
        os.unlink(bpath)
        if recs and recs[0]["ev"] == "setup_failed":
            raise core.ToolError("set-up of an accepted flag combination failed: %s" % recs[0])
        for r in recs:
            if r["ev"] in ("batch", "geometry"):
                allrecs.append(r)
                meta.append((tag, entries, flags))
            if r["ev"] == "aborted":
                aborted[tag] = r["why"]
        st = stats.setdefault(tag, {"entries": entries, "flags": flags, "batches": 0, "operations": 0, "linked": 0, "cancelled": 0, "failed_results": 0})
        for r in recs:
            if r["ev"] == "geometry":
                st["ring"] = {k: r[k] for k in ("requested", "w_sq_entries", "w_sq_mask", "w_cq_entries", "w_cq_mask")}
            if r["ev"] != "batch":
                continue
            st["batches"] += 1
            st["operations"] += r["n"]
            st["enter_retries"] = st.get("enter_retries", 0) + max(0, len(r.get("enter_attempts", [])) - 1)
            st["linked"] += sum(1 for s in r["subs"] if s["link"])
            st["cancelled"] += sum(1 for c in r["cqes"] if c["res"] == -125)
            st["failed_results"] += sum(1 for c in r["cqes"] if c["res"] < 0)
            for kx, s in enumerate(r["subs"]):
                c = [x for x in r["cqes"] if x["u"] == s["u"]]
                nontrivial.add((s["op"], json.dumps(r["ops"][kx], sort_keys=True), c[0]["res"] if c and c[0]["res"] < 0 else 0))
    # socket scripts: every step is a batch of one operation
    spath = os.path.join(chk.work, "sock_scripts.ndjson")
    core.write_ndjson(spath, scripts)
    sock_stats = {"model_states": sres.distinct, "model_edges": sock_edges, "scripts": len(scripts), "steps_run": 0, "scripts_cut_short": 0,
                  "steps_where_direct_call_differs_from_model": 0}
    for fl in ([0] if quick else [f for f in (0, SQE128 | CQE32, SINGLE_ISSUER | DEFER) if f in accepted]):
        recs = run_driver(bindir, spath, root, 8, fl, mode="sock")
        per_run = {}
        for r in recs:
            if r["ev"] == "batch":
                allrecs.append(r)
                meta.append(("sock", 8, fl))
                per_run.setdefault(r["run"], []).append(r)
                sock_stats["steps_run"] += 1
                want = scripts[r["run"]]["model"][r["b"]]
                got = r["direct"][0]["res"]
                if want is not None and ((want == "fd" and got < 0) or (want != "fd" and got != want)):
                    sock_stats["steps_where_direct_call_differs_from_model"] += 1
                nontrivial.add((r["subs"][0]["op"], json.dumps(r["step"]), got if got < 0 else 0))
            if r["ev"] == "aborted":
                aborted["sock"] = r["why"]
        sock_stats["scripts_cut_short"] += sum(1 for k, sc in enumerate(scripts) if len(per_run.get(k, [])) < sum(1 for st in sc["steps"] if st[0] != "iconnect"))
        if any(r["ev"] == "no_loopback" for r in recs):
            sock_stats["inet_accept"] = "not exercised: no TCP loopback in this sandbox"
    os.unlink(spath)
    # every flag / opcode constant of the library against the kernel's uapi header
    uapi = uapi_constants()
    lib = json.loads(core.run_cmd([os.path.join(bindir, "uring_ops"), "constants"], timeout=60).stdout.splitlines()[0])["lib"]
    for name, val in sorted(lib.items()):
        allrecs.append({"ev": "constant", "name": name, "lib": val, "uapi": uapi.get(name, -1)})
        meta.append(("constants", 0, 0))
    chk.extra["constants"] = {"compared_with_uapi_header": sum(1 for n in lib if n in uapi), "not_in_header": sorted(n for n in lib if n not in uapi),
                              "defined_by_library_but_not_compared": sorted(library_constant_names() - set(lib))}
    # SQPOLL + completion-ring overflow + idle thread: one more entry by the wake-up protocol
    if SQPOLL in accepted:
        p = core.run_cmd([os.path.join(bindir, "uring_ops"), "overflow"], timeout=60, check=False)
        for l in p.stdout.splitlines():
            if l.startswith("{") and json.loads(l)["ev"] == "lap":
                allrecs.append(json.loads(l))
                meta.append(("sqpoll_cq_overflow_idle", 1, SQPOLL))
    core.log("driver: %d batches %.1fs" % (len(allrecs), time.time() - t1))
    t2 = time.time()
    B = 4000
    chunks = [allrecs[i:i + B] for i in range(0, len(allrecs), B)]
    with cf.ThreadPoolExecutor(max_workers=4) as pool:
        results = list(pool.map(lambda ic: judge_batches(chk, ic[1], "c%d" % ic[0]), enumerate(chunks)))
    nbad = 0
    deferred = {}       # tag -> violations that rest on a wall-clock limit, to be re-confirmed in isolation
    real_violate = chk.violate

    def violate_or_defer(sig, what, replay, _tag=[None]):
        if sig.get("clause") in TIME_CLAUSES:
            deferred.setdefault(_tag[0], []).append((sig, what, replay))
        else:
            real_violate(sig, what, replay)
    chk.violate = violate_or_defer
    for ci, (res, bad) in enumerate(results):
        chk.add_tlc(res)
        for i, clause in bad.items():
            rec = allrecs[ci * B + i]
            tag, entries, flags = meta[ci * B + i]
            violate_or_defer.__defaults__[0][0] = tag
            if rec["ev"] == "constant":
                nbad += 1
                chk.violate({"part": "constants", "clause": clause, "name": rec["name"]}, "%s: %s is %d in the library, %d in the kernel's uapi header" % (clause, rec["name"], rec["lib"], rec["uapi"]),
                            {"part": "constants", "record": rec, "clause": clause})
                continue
            if rec["ev"] == "lap":
                nbad += 1
                chk.violate({"part": "lap", "clause": clause, "scenario": rec.get("scenario")}, "%s: %s" % (clause, rec), {"part": "lap", "record": rec, "clause": clause})
                continue
            if rec["ev"] == "geometry":
                nbad += 1
                chk.violate({"part": "setup", "clause": clause}, "%s: set-up of a ring of %d requested entries (flags %d): wrapper %s, kernel sq_entries %d cq_entries %d" % (
                    clause, rec["requested"], flags, {k: rec[k] for k in ("w_sq_entries", "w_sq_mask", "w_cq_entries", "w_cq_mask")}, rec["k_sq_entries"], rec["k_cq_entries"]),
                    {"part": "setup", "entries": entries, "flags": flags, "record": rec, "clause": clause})
                continue
            op, detail = culprit(rec, clause)
            nbad += 1
            chk.violate({"part": "ops", "clause": clause, "op": op},
                        "%s on %s: %s (ring %d entries, flags %d, batch %s of %s; %s)" % (clause, op, detail, entries, flags, rec["b"], tag,
                                                                                         json.dumps(rec["ops"])[:300]),
                        {"part": "ops", "entries": entries, "flags": flags, "record": rec, "clause": clause,
                         "script": scripts[rec["run"]]["steps"][:rec["b"] + 1] if tag == "sock" else None,
                         "note": "batches of one ring share an evolving world; replay re-runs this batch on a freshly reset world"})
    chk.violate = real_violate
    # ---- a wall-clock limit that tripped is no verdict yet: the scenario is re-run ALONE (nothing else of this check runs
    # now), twice, with every limit of the driver multiplied by >= 5 (more on an oversubscribed machine); only a trip
    # reproduced in both re-runs is reported
    plan_by_tag = {item[0]: item for item in plan}
    not_reproduced = []

    def trips_again(tag):
        env = {"VERIF_WAIT_SCALE": str(wait_scale())}
        if tag in plan_by_tag:
            item = plan_by_tag[tag]
            bp = os.path.join(chk.work, "batches_rerun.ndjson")
            core.write_ndjson(bp, item[3])
            recs = run_driver(bindir, bp, root, item[1], item[2], prefix=(item[4] if len(item) > 4 else ()), extra=(item[5] if len(item) > 5 else ()), env=env, timeout=3000)
        elif tag == "sock":
            sp = os.path.join(chk.work, "sock_rerun.ndjson")
            core.write_ndjson(sp, scripts)
            recs = run_driver(bindir, sp, root, 8, 0, mode="sock", env=env, timeout=3000)
        elif tag == "sqpoll_cq_overflow_idle":
            pr = core.run_cmd([os.path.join(bindir, "uring_ops"), "overflow"], timeout=600, check=False, env=env)
            recs = [json.loads(l) for l in pr.stdout.splitlines() if l.startswith("{")]
        else:
            return True
        recs = [r for r in recs if r["ev"] in ("batch", "lap")]
        if not recs:
            return True
        gres, gb = judge_batches(chk, recs, "rerun")
        chk.add_tlc(gres)
        return any(c in TIME_CLAUSES for c in gb.values())

    for tag, vs in deferred.items():
        if trips_again(tag) and trips_again(tag):
            for v in vs:
                chk.violate(*v)
        else:
            nbad -= len(vs)
            not_reproduced.append({"scenario": tag, "clauses": sorted({v[0]["clause"] for v in vs}), "occurrences": len(vs), "first": vs[0][1][:300]})
    chk.extra["wall_clock_trips_not_reproduced"] = not_reproduced
    for tag, why in aborted.items():
        if tag in {n["scenario"] for n in not_reproduced}:
            continue
        if not any(meta[ci * B + i][0] == tag for ci, (_, bad) in enumerate(results) for i in bad):
            raise core.ToolError("uring_ops gave up on %s (%s) although no batch of that run was rejected" % (tag, why))
    chk.extra["driver_runs_aborted_after_rejections"] = aborted
    chk.traces += len(allrecs) - nbad
    chk.evaluations += sum(r.get("n", 1) for r in allrecs)
    core.log("judge: %d records, %d rejected %.1fs" % (len(allrecs), nbad, time.time() - t2))
    # ---- teardown under strace
    t3 = time.time()
    tflags = sorted(accepted) if not quick else [f for f in sorted(accepted) if bin(f).count("1") <= 1] + [SQE128 | CQE32, SINGLE_ISSUER | DEFER]
    truns, tmeta, skipped, tgeo = [], [], [], []
    rid = 0
    for fl in tflags:
        for entries in ((8, 6) if quick else (1, 3, 8, 12, 33)):
            for with_op in ((False, True) if not (fl & R_DISABLED or fl & IOPOLL) else (False,)):
                evs, out = strace_teardown(chk, bindir, entries, fl, with_op, rid)
                if evs is None:
                    skipped.append({"flags": fl, "entries": entries, "why": out})
                    continue
                truns.append(evs)
                tmeta.append((entries, fl, with_op, evs[0]["single_mmap"]))
                tgeo += [o for o in out if o["ev"] == "geometry"]
                rid += 1
    # the whole legal range of ring sizes: set-up, geometry, ONE lap over every slot (the last entries of the submission
    # index array and the last completion slots included), drop - each in its own process
    for (entries, fl) in ([(1024, 0), (4096, 0), (32768, 0)] if quick else
                          [(512, 0), (1024, 0), (1024, SQE128 | CQE32), (2048, 0), (4096, 0), (4096, CQE32), (16384, 0), (32768, 0), (32768, SQE128)]):
        if fl not in accepted:
            continue
        evs, out = strace_teardown(chk, bindir, entries, fl, "lap", rid)
        if evs is None:
            skipped.append({"flags": fl, "entries": entries, "why": out})
            continue
        truns.append(evs)
        tmeta.append((entries, fl, "lap", evs[0]["single_mmap"]))
        tgeo += [o for o in out if o["ev"] in ("geometry", "lap")]
        rid += 1
    if tgeo:
        gres, gbad = judge_batches(chk, tgeo, "tgeo")
        chk.add_tlc(gres)
        for i, clause in gbad.items():
            rec = tgeo[i]
            if rec["ev"] == "lap":
                if clause in TIME_CLAUSES:
                    again = 0
                    for _ in range(2):
                        _, o2 = strace_teardown(chk, bindir, rec["n"], 0, "lap", 9000, env={"VERIF_WAIT_SCALE": str(wait_scale())})
                        l2 = [o for o in o2 if o["ev"] == "lap"]
                        if l2 and any(c in TIME_CLAUSES for c in judge_batches(chk, l2, "laprerun")[1].values()):
                            again += 1
                    if again < 2:
                        chk.extra.setdefault("wall_clock_trips_not_reproduced", []).append({"scenario": "lap over %d entries" % rec["n"], "clauses": [clause], "occurrences": 1})
                        continue
                chk.violate({"part": "lap", "clause": clause}, "%s: one lap over a ring of %d entries: %s" % (clause, rec["n"], rec),
                            {"part": "teardown", "entries": rec["n"], "flags": 0, "with_op": "lap", "record": rec, "clause": clause})
                continue
            chk.violate({"part": "setup", "clause": clause}, "%s: set-up of a ring of %d requested entries (flags %d): %s" % (clause, rec["requested"], rec["flags"], rec),
                        {"part": "setup", "entries": rec["requested"], "flags": rec["flags"], "record": rec, "clause": clause})
    tbad = judge_teardown(chk, truns)
    for run_id, (why, ev) in tbad.items():
        entries, fl, with_op, single = tmeta[run_id]
        chk.violate({"part": "teardown", "clause": why, "single_mmap": single},
                    "drop of a ring (entries %d, flags %d, IORING_FEAT_SINGLE_MMAP %s): %s at %s" % (entries, fl, single, why, json.dumps(ev)),
                    {"part": "teardown", "entries": entries, "flags": fl, "with_op": with_op, "events": truns[run_id], "clause": why})
    chk.traces += len(truns) - len(tbad)
    chk.evaluations += len(truns)
    core.log("teardown: %d strace runs, %d rejected %.1fs" % (len(truns), len(tbad), time.time() - t3))
    # ---- evidence
    chk.nontrivial = len(nontrivial)
    chk.rule = ("distinct (operation with its arguments, outcome class) pairs executed through the wrapper and directly, outcome class = "
                "success or the specific errno / -ECANCELED; plus %d traced set-up/drop runs" % len(truns))
    chk.exhaustive = False
    chk.extra["ops_runs"] = stats
    chk.extra["socket_scripts"] = sock_stats
    chk.extra["tlc_generated"] = {"singles": len(singles), "pairs": len(pairs), "walk_batches": {str(k): [len(w) for w in v] for k, v in walks.items()}}
    chk.extra["setup_flags_accepted_by_kernel"] = sorted(accepted)
    chk.extra["setup_flags_refused_by_kernel"] = probe["refused"][:40]
    chk.extra["ops_flag_sets_used"] = ops_flags
    chk.extra["ops_flag_sets_skipped"] = skipped_flags
    chk.extra["sqpoll_idle_wakeup_scenario"] = "exercised" if SQPOLL in accepted else "not exercised: the kernel refuses IORING_SETUP_SQPOLL here; the set-up pointer clause stands alone"
    chk.extra["teardown_runs"] = {"traced": len(truns), "rejected": len(tbad), "skipped": skipped[:10],
                                  "single_mmap_runs": sum(1 for m in tmeta if m[3])}
    chk.extra["expected_failures_confirmed"] = xf
    for (tag, entries, flags, batches) in [p[:4] for p in plan[:3]]:
        chk.sample({"run": tag, "entries": entries, "flags": flags, "first_batches": [b["ops"] for b in batches[:2]]})
    chk.assumptions = [
        "the oracle for results and side effects is the equivalent direct system call (libc) on a twin directory/handle table, not a model of the file system",
        "equivalences used: readv/writev entries carry file offset 0 (preadv/pwritev at 0); timeout <-> nanosleep (0 <-> -ETIME); poll_add <-> poll with zero timeout (POLLNVAL <-> -EBADF); descriptor-valued results are compared as 'a descriptor'",
        "unlinked operations of one batch are generated independent (no shared name or handle) because the kernel may run them in any order; inside IOSQE_IO_LINK chains operations may depend on each other",
        "socket operations (connect/accept/sendmsg/recvmsg on unix stream sockets, SCM_RIGHTS) follow scripts toured from UringSock.tla in which no step can block; a script is cut at the first step where ring and direct call disagree",
        "not covered: readv/writev fixed, inet accept, multishot poll, SQPOLL idle/wakeup races, IOPOLL rings for operations (set-up/teardown only)",
        "verdicts that rest on a wall-clock limit of the driver (missing / late completion, ring not drained) are reported only if the scenario trips again in two re-runs done alone with every limit multiplied by at least 5 (more on an oversubscribed machine); otherwise they are listed under wall_clock_trips_not_reproduced; lower bounds on timeouts are the only timing facts compared",
        "teardown is observed with strace on single-threaded runs; what a second munmap of the same range can hit in a threaded program is shown on the model (UringRes.tla, NothingElse)",
    ]
    return chk.finish()


def replay(path):
    rp = json.load(open(path))["replay"]
    chk = core.Check("C18", "quick", "model_checking")
    bindir = core.cargo_build(bins=["uring_ops"])
    if rp["part"] == "teardown":
        evs, out = strace_teardown(chk, bindir, rp["entries"], rp["flags"], rp["with_op"], 0)
        for e in evs:
            print(json.dumps(e))
        bad = judge_teardown(chk, [evs])
        print("verdict:", bad if bad else "accepted by UringResTrace")
        return 1 if bad else 0
    if "step" in rp["record"]:
        print("socket script step; the script up to the rejected step:")
        print(json.dumps(rp.get("script")))
        bpath = os.path.join(chk.work, "replay_sock.ndjson")
        core.write_ndjson(bpath, [{"run": 0, "steps": rp["script"]}])
        recs = [r for r in run_driver(bindir, bpath, "/tmp/verif-c18-replay", rp["entries"], rp["flags"], mode="sock") if r["ev"] == "batch"]
        for r in recs:
            print(json.dumps({k: r[k] for k in ("step", "cqes", "direct", "payload")}))
        _, bad = judge_batches(chk, recs, "replay")
        print("verdict:", bad if bad else "accepted by UringOpsTrace")
        return 1 if bad else 0
    bpath = os.path.join(chk.work, "replay_batches.ndjson")
    core.write_ndjson(bpath, [dict(b=0, reset=True, ops=rp["record"]["ops"])])
    recs = [r for r in run_driver(bindir, bpath, "/tmp/verif-c18-replay", rp["entries"], rp["flags"]) if r["ev"] == "batch"]
    print(json.dumps(recs[0])[:3000])
    _, bad = judge_batches(chk, recs, "replay")
    print("verdict:", bad if bad else "accepted by UringOpsTrace")
    return 1 if bad else 0


def selftest():
    """a recorded batch is accepted; with one completion dropped / duplicated / its result changed it is rejected;
    a stored negative patch makes the check fail"""
    import copy
    import subprocess
    chk = core.Check("C18", "quick", "model_checking")
    bindir = core.cargo_build(bins=["uring_ops"])
    bpath = os.path.join(chk.work, "selftest_batches.ndjson")
    core.write_ndjson(bpath, [dict(b=0, reset=True, ops=[{"op": "statx", "name": 0, "link": True}, {"op": "readv", "h": 0, "len": 0, "link": False},
                                                        {"op": "mkdirat", "name": 2, "link": False}])])
    rec = [r for r in run_driver(bindir, bpath, "/tmp/verif-c18-selftest", 8, 0) if r["ev"] == "batch"][0]
    variants = {"recorded": rec}
    v = copy.deepcopy(rec); v["cqes"].pop(); variants["completion dropped"] = v
    v = copy.deepcopy(rec); v["cqes"].append(dict(v["cqes"][0])); variants["completion duplicated"] = v
    v = copy.deepcopy(rec); v["cqes"][1]["res"] -= 1; variants["result changed"] = v
    v = copy.deepcopy(rec); v["cqes"][0], v["cqes"][1] = v["cqes"][1], v["cqes"][0]; variants["linked pair reordered"] = v
    v = copy.deepcopy(rec); v["cqes"][2]["u"] += 77; variants["foreign user_data"] = v
    v = copy.deepcopy(rec); v["side_same"] = False; variants["worlds differ"] = v
    ok = True
    for name, r in variants.items():
        _, bad = judge_batches(chk, [r], "selftest")
        print("selftest record '%s': %s" % (name, "rejected (%s)" % bad[0] if bad else "accepted"))
        ok = ok and (bool(bad) == (name != "recorded"))
    evs, _ = strace_teardown(chk, bindir, 8, 0, False, 0)
    for name, ev in {"recorded": evs, "munmap dropped": [e for i, e in enumerate(evs) if not (e["ev"] == "munmap" and i == max(j for j, x in enumerate(evs) if x["ev"] == "munmap"))],
                     "close doubled": evs[:-1] + [e for e in evs if e["ev"] == "close"] + evs[-1:]}.items():
        bad = judge_teardown(chk, [ev])
        print("selftest teardown '%s': %s" % (name, "rejected (%s)" % list(bad.values())[0][0] if bad else "accepted"))
        ok = ok and (bool(bad) == (name != "recorded"))
    patch = os.path.join(core.VERIF, "seeded", "C18-drop-closes-twice", "patch.diff")
    p = subprocess.run([os.path.join(core.VERIF, "bin", "mutant-test"), patch, "C18"], stdout=subprocess.PIPE, stderr=subprocess.STDOUT, text=True)
    print("selftest negative patch drop-closes-twice: %s" % ("detected" if p.returncode == 0 else "NOT detected"))
    ok = ok and p.returncode == 0
    print("C18 selftest", "OK" if ok else "FAILED")
    return 0 if ok else 1
