"""Algorithm-level model of the thread life cycle (specs/ThreadLife.tla): exhaustive model
checking of the scenario configurations, anti-vacuity runs on the defect variants, transition
tours of the replay configurations and their replay into the real code through the probe's
point scheduler (B1), each replayed run judged at property level like every other run (B2)."""
import os
import re
from concurrent.futures import ThreadPoolExecutor

from vlib import core
from checks import thr_common as T

INVARIANTS = ["TypeOK", "RunsOnce", "JoinAfterExit", "JoinValue", "ResultVisible", "SpawnFailsCleanly",
              "ReleasedExactlyOnce", "NoUseAfterRelease", "ClosureFreedUnlessPanic", "ResultDropped",
              "BaselineRestored"]
FIXED = {"RecheckWord": True, "RecheckDrop": True, "CheckClone": True, "RetryClone": False, "MmapFirst": True, "DropResult": True,
         "PanicTakesLock": False}

H_ACTIONS = {"HStartSpawn", "AllocTsm", "BoxClosure", "AfterClosure", "AllocTlsPinned", "Clone", "ReturnHandle",
             "HSkipOp", "JoinStart", "LoadAcquire", "LoadRelaxed", "FutexWait", "JoinReadSlot", "JoinFreeTsm",
             "DropStart", "DropFlagCas", "DropFreeTsm"}

PROG_OPS = {"ProgJ": ["s1", "j1"], "ProgD": ["s1", "d1"], "ProgK": ["s1"],
            "ProgJJ": ["s1", "s2", "j1", "j2"], "ProgJJr": ["s1", "s2", "j2", "j1"],
            "ProgJD": ["s1", "s2", "j1", "d2"], "ProgDJ": ["s1", "s2", "d1", "j2"],
            "ProgDD": ["s1", "s2", "d1", "d2"], "ProgSJSJ": ["s1", "j1", "s2", "j2"],
            "ProgJJJ": ["s1", "s2", "s3", "j1", "j2", "j3"], "ProgJDJ": ["s1", "s2", "s3", "j3", "d2", "j1"]}
FINS = {"FinR": ["ret"], "FinP": ["panic"], "FinRR": ["ret", "ret"], "FinRP": ["ret", "panic"],
        "FinPR": ["panic", "ret"], "FinPP": ["panic", "panic"], "FinRPR": ["ret", "panic", "ret"]}


def tla_bool(b):
    return "TRUE" if b else "FALSE"


def write_cfg(path, prog, fin, spurious=1, failm="NoThread", failc="NoThread", variant=None, katomic=False,
              liveness=True, invariants=True):
    v = dict(FIXED)
    if variant:
        v.update(variant)
    nt = len(FINS[fin])
    lines = ["SPECIFICATION Spec", "CONSTANTS", " NT = %d" % nt, " Prog <- %s" % prog, " Fin <- %s" % fin,
             " Spurious = %d" % spurious, " FailMmap <- %s" % failm, " FailClone <- %s" % failc]
    lines.append(" PanicHoldsLock <- AllThreads")
    for k in ("RecheckWord", "RecheckDrop", "CheckClone", "RetryClone", "MmapFirst", "DropResult", "PanicTakesLock"):
        lines.append(" %s = %s" % (k, tla_bool(v[k])))
    lines.append(" KernelAtomic = %s" % tla_bool(katomic))
    if invariants:
        lines.append("INVARIANTS " + " ".join(INVARIANTS))
    if liveness:
        lines.append("PROPERTY JoinTerminates")
    with open(path, "w") as f:
        f.write("\n".join(lines) + "\n")


def scenarios(tier):
    """(name, prog, fin, failm, failc) of the exhaustive configurations"""
    out = []
    for prog in ("ProgJ", "ProgD", "ProgK"):
        for fin in ("FinR", "FinP"):
            out.append((prog + fin, prog, fin, "NoThread", "NoThread"))
    for prog in ("ProgJ", "ProgD"):
        out.append((prog + "FinR-mmapfail", prog, "FinR", "Only1", "NoThread"))
        out.append((prog + "FinR-clonefail", prog, "FinR", "NoThread", "Only1"))
    two = [("ProgJJ", "FinRR"), ("ProgJJr", "FinRP"), ("ProgJD", "FinRR"), ("ProgDJ", "FinPR")]
    if tier != "quick":
        two += [("ProgJJ", "FinPP"), ("ProgJJ", "FinRP"), ("ProgJJr", "FinRR"), ("ProgJD", "FinPR"), ("ProgJD", "FinRP"),
                ("ProgDJ", "FinRR"), ("ProgDD", "FinRR"), ("ProgDD", "FinRP"), ("ProgDD", "FinPP"), ("ProgSJSJ", "FinRP")]
    for prog, fin in two:
        out.append((prog + fin, prog, fin, "NoThread", "NoThread"))
    out.append(("ProgJJFinRR-clonefail2", "ProgJJ", "FinRR", "NoThread", "Only2"))
    if tier != "quick":
        # three concurrently live threads (model only, not replayed)
        out.append(("ProgJJJFinRPR", "ProgJJJ", "FinRPR", "NoThread", "NoThread"))
        out.append(("ProgJDJFinRPR", "ProgJDJ", "FinRPR", "NoThread", "NoThread"))
    return out


def model_check(chk, tier):
    """Exhaustive TLC runs of the fixed-tree model: every interleaving of H, T, K with one spurious
    wake-up; all C05/C06 invariants, deadlock freedom and JoinTerminates."""
    d = os.path.join(chk.work, "mc")
    os.makedirs(d, exist_ok=True)
    summary = []

    def one(sc):
        name, prog, fin, fm, fc = sc
        cfg = os.path.join(d, name + ".cfg")
        write_cfg(cfg, prog, fin, 1, fm, fc)
        return name, core.run_tlc("ThreadLife_MC", cfg, workers=1, timeout=900, xmx="1g",
                                  metadir=os.path.join(d, "md-" + name))

    # small state spaces: the JVM start dominates, so run 6 single-worker TLCs side by side
    with ThreadPoolExecutor(max_workers=6) as ex:
        results = list(ex.map(one, scenarios(tier)))
    for name, res in results:
        core.tlc_must_pass(res, "ThreadLife " + name)
        chk.add_tlc(res)
        summary.append({"config": name, "states": res.distinct, "depth": res.depth})
    chk.extra["model_configs"] = summary
    return summary


DEFECT_VARIANTS = [
    # (name, prog, fin, failm, failc, variant, invariants of which at least one must be violated / "deadlock")
    ("pinned-single-wait-join", "ProgJ", "FinR", "NoThread", "NoThread", {"RecheckWord": False, "RecheckDrop": False},
     {"JoinAfterExit", "ResultVisible", "NoUseAfterRelease", "JoinValue"}),
    ("pinned-single-wait-drop", "ProgD", "FinR", "NoThread", "NoThread", {"RecheckWord": False, "RecheckDrop": False},
     {"NoUseAfterRelease"}),
    # drop waits once while join keeps its loop (independent mutant ind-c06m3)
    ("drop-single-wait-join-loops", "ProgD", "FinR", "NoThread", "NoThread", {"RecheckDrop": False},
     {"NoUseAfterRelease"}),
    ("drop-single-wait-join-loops-panic", "ProgD", "FinP", "NoThread", "NoThread", {"RecheckDrop": False},
     {"NoUseAfterRelease"}),
    ("pinned-clone-unchecked", "ProgJ", "FinR", "NoThread", "Only1", {"CheckClone": False},
     {"SpawnFailsCleanly", "deadlock"}),
    # unbounded retry while clone fails: with a persistent failure spawn never returns (liveness)
    ("retry-clone-on-eagain", "ProgJ", "FinR", "NoThread", "Only1", {"RetryClone": True},
     {"liveness"}),
    # the panic handler takes a lock the panicking closure may hold (eprintln! in the handler)
    ("panic-handler-takes-print-lock", "ProgJ", "FinP", "NoThread", "NoThread", {"PanicTakesLock": True},
     {"deadlock"}),
    ("pinned-mmap-late", "ProgJ", "FinR", "Only1", "NoThread", {"MmapFirst": False},
     {"SpawnFailsCleanly", "BaselineRestored"}),
    ("pinned-result-forgotten", "ProgD", "FinR", "NoThread", "NoThread", {"DropResult": False},
     {"ResultDropped"}),
]


def defect_variants(chk):
    """Anti-vacuity: each defect the pinned tree had is a variant of the model; TLC must find the
    corresponding counterexample there (so the invariants are not vacuous)."""
    d = os.path.join(chk.work, "mc")
    os.makedirs(d, exist_ok=True)
    out = []
    for name, prog, fin, fm, fc, var, expect in DEFECT_VARIANTS:
        cfg = os.path.join(d, name + ".cfg")
        write_cfg(cfg, prog, fin, 1, fm, fc, variant=var, liveness=("liveness" in expect))
        res = core.run_tlc("ThreadLife_MC", cfg, workers=1, timeout=300, extra=["-continue"])
        chk.add_tlc(res)
        found = set(res.invariant_violated)
        if re.search(r"Temporal propert(y|ies) .*violated", res.out):
            found.add("liveness")
        if "Deadlock reached" in res.out:
            found.add("deadlock")
        if not (found & expect):
            raise core.ToolError("defect variant %s: TLC found %s, expected one of %s" % (name, found, expect))
        out.append({"variant": name, "violated": sorted(found)})
    chk.extra["model_defect_variants"] = out
    return out


# ------------------------------------------------------------------------------------------------
# state graph, transition tour
# ------------------------------------------------------------------------------------------------
_RE_NODE = re.compile(r'^(-?\d+) \[label="((?:[^"\\]|\\.)*)"')
_RE_EDGE = re.compile(r'^(-?\d+) -> (-?\d+) \[label="((?:[^"\\]|\\.)*)"')


def parse_dot(path):
    nodes = {}
    edges = []
    init = None
    for line in open(path):
        m = _RE_EDGE.match(line)
        if m:
            edges.append((m.group(1), m.group(2), m.group(3).replace("\\", "")))
            continue
        m = _RE_NODE.match(line)
        if m:
            nid = m.group(1)
            if nid not in nodes:
                nodes[nid] = parse_state(m.group(2))
                if "style = filled" in line and init is None:
                    init = nid
    return nodes, edges, init


def parse_state(label):
    st = {}
    for part in label.split("\\n"):
        part = part.replace('\\"', '"').replace("\\\\", "\\")
        m = re.match(r"^/\\ (\w+) = (.*)$", part)
        if m:
            st[m.group(1)] = m.group(2)
    hpc = st["hpc"].strip('"')
    tpc = re.findall(r'"([^"]*)"', st["tpc"])
    return {"hpc": hpc, "tpc": tpc, "raw": st}


def pcnum(pc):
    return {"50a": 50, "50r": 50}.get(pc) or int(pc)


def codes(state):
    h = state["hpc"]
    out = [1000 if h == "parked" else 1002 if h == "done" else pcnum(h)]
    for t in state["tpc"]:
        out.append(0 if t == "none" else 1001 if t == "gone" else int(t))
    while len(out) < 4:
        out.append(0)
    return out


def token(nodes, src, label):
    name = label.split("(")[0]
    if name == "Next":
        return None
    if name == "SpuriousWake":
        return "w"
    if name in H_ACTIONS:
        return "h%d" % pcnum(nodes[src]["hpc"])
    m = re.match(r"^\w+\((\d+)", label)
    if not m:
        raise core.ToolError("cannot map model action %r to a scheduler step" % label)
    p = int(m.group(1))
    return "t%d.%s" % (p, nodes[src]["tpc"][p - 1])


def tour(nodes, edges, init, max_len=400):
    """Initial-state-rooted paths that together cover every (non-stuttering) edge."""
    adj = {}
    real = []
    for (u, v, l) in edges:
        if l.split("(")[0] == "Next":
            continue
        e = (u, v, l)
        real.append(e)
        adj.setdefault(u, []).append(e)
    # BFS tree
    parent = {init: None}
    order = [init]
    for u in order:
        for e in adj.get(u, []):
            if e[1] not in parent:
                parent[e[1]] = e
                order.append(e[1])
    depth = {n: i for i, n in enumerate(order)}
    uncovered = set(real)
    paths = []
    for e0 in sorted(real, key=lambda e: depth.get(e[0], 10**9)):
        if e0 not in uncovered:
            continue
        # prefix
        pre = []
        n = e0[0]
        while parent[n] is not None:
            pre.append(parent[n])
            n = parent[n][0]
        pre.reverse()
        path = pre + [e0]
        uncovered.discard(e0)
        for e in pre:
            uncovered.discard(e)
        cur = e0[1]
        while len(path) < max_len:
            nxt = [e for e in adj.get(cur, []) if e in uncovered]
            if not nxt:
                break
            e = nxt[0]
            path.append(e)
            uncovered.discard(e)
            cur = e[1]
        paths.append(path)
    return paths, len(real)


# ------------------------------------------------------------------------------------------------
# B1: replay of the tour through the point scheduler
# ------------------------------------------------------------------------------------------------
RESULT_TYPES = ["u8", "vec", "dv", "zd", "z", "a64d", "u128", "arr", "arrd", "a64"]


def ops_string(prog, fin, ty):
    out = []
    fl = FINS[fin]
    for o in PROG_OPS[prog]:
        p = int(o[1])
        if o[0] == "s":
            out.append("s%d:%s:%s" % (p, ty, "r" if fl[p - 1] == "ret" else "p"))
        else:
            out.append(o)
    return ";".join(out)


def replay_configs(tier):
    one = [(p, f) for p in ("ProgJ", "ProgD", "ProgK") for f in ("FinR", "FinP")]
    two = [("ProgJJ", "FinRP")] if tier == "quick" else [("ProgJJ", "FinRP"), ("ProgJD", "FinRR"), ("ProgDJ", "FinPR"), ("ProgJJr", "FinRR"), ("ProgDD", "FinRP"),
                                                         ("ProgJDJ", "FinRPR")]
    return one, two


def build_tour(chk, name, prog, fin, spurious):
    d = os.path.join(chk.work, "tour")
    os.makedirs(d, exist_ok=True)
    cfg = os.path.join(d, name + ".cfg")
    dot = os.path.join(d, name + ".dot")
    write_cfg(cfg, prog, fin, spurious, katomic=True, liveness=False)
    res = core.run_tlc("ThreadLife_MC", cfg, workers=1, timeout=600, dump=dot, xmx="1g",
                       metadir=os.path.join(d, "md-" + name))
    core.tlc_must_pass(res, "ThreadLife replay config " + name)
    nodes, edges, init = parse_dot(dot)
    if init is None or len(nodes) != res.distinct:
        raise core.ToolError("state graph dump of %s: %d nodes parsed, TLC reports %d" % (name, len(nodes), res.distinct))
    paths, nreal = tour(nodes, edges, init)
    return nodes, paths, nreal, res


def sched_line(nodes, path, prog, fin, ty):
    toks = []
    exp = []
    for (u, v, l) in path:
        t = token(nodes, u, l)
        toks.append(t)
        exp.append(codes(nodes[v]))
    return "sched ops=%s steps=%s" % (ops_string(prog, fin, ty), ",".join(toks)), toks, exp


def replay_tours(chk, col, bindir, tier, max_paths_two=None, tag=""):
    """Every edge of the replay configurations' state graphs is driven through the real code."""
    one, two = replay_configs(tier)
    stats = {"configs": [], "paths": 0, "steps": 0, "steps_matched": 0, "diverged_paths": 0, "edges": 0, "edges_covered": 0}
    drift = []
    jobs = []
    with ThreadPoolExecutor(max_workers=6) as ex:
        tours = list(ex.map(lambda pf: build_tour(chk, "%s%s%s" % (pf[0], pf[1], tag), pf[0], pf[1], 1), one + two))
    for (prog, fin), (nodes, paths, nreal, res) in zip(one + two, tours):
        name = "%s%s" % (prog, fin)
        chk.add_tlc(res)
        is_two = (prog, fin) in two
        if is_two and max_paths_two is not None and len(paths) > max_paths_two:
            # bounded sample of the tour (reported): longest paths first, they cover most edges
            paths = sorted(paths, key=len, reverse=True)[:max_paths_two]
        jobs.append((name, prog, fin, nodes, paths, nreal))
    for (name, prog, fin, nodes, paths, nreal) in jobs:
        covered = set()
        ndiv = 0
        chunk = 40
        for c0 in range(0, len(paths), chunk):
            script = ["set watchdog=4000"]
            plan = []
            for j, path in enumerate(paths[c0:c0 + chunk]):
                ty = RESULT_TYPES[(c0 + j) % len(RESULT_TYPES)]
                line, toks, exp = sched_line(nodes, path, prog, fin, ty)
                script += ["baseline", line, "quiesce"]
                plan.append((path, toks, exp))
            r = T.run_probe(chk, bindir, "tour-%s-%d%s" % (name, c0 // chunk, tag), script, strace=False, timeout=300)
            r.plan = [{"tokens": t, "expected": e} for (_, t, e) in plan]
            col.add(r, "replay")
            # compare step by step
            runs = split_sched(r.events)
            if len(runs) != len(plan) and not r.info.get("timeout") and not r.killed and not r.info.get("crash"):
                raise core.ToolError("replay run %s: %d sched blocks for %d paths" % (r.name, len(runs), len(plan)))
            for (path, toks, exp), evs in zip(plan, runs):
                stats["paths"] += 1
                steps = [e for e in evs if e["ev"] == "step"]
                div = next((e for e in evs if e["ev"] == "diverge"), None)
                ok_prefix = 0
                for i, s in enumerate(steps):
                    if i >= len(toks) or s["tok"] != toks[i]:
                        break
                    if div is not None and div["i"] == s["i"]:
                        break
                    if s["st"] != exp[i]:
                        div = div or {"i": s["i"], "tok": s["tok"], "why": "state after the step differs from the model",
                                      "have": s["st"], "want": exp[i]}
                        break
                    ok_prefix += 1
                    covered.add(path[i])
                stats["steps"] += len(toks)
                stats["steps_matched"] += ok_prefix
                if div is not None or ok_prefix < len(toks):
                    ndiv += 1
                    if len(drift) < 5:
                        drift.append({"config": name, "tokens": toks, "diverged_at": ok_prefix,
                                      "detail": {k: div.get(k) for k in ("tok", "why", "have", "want")} if div else "run ended early"})
        stats["diverged_paths"] += ndiv
        stats["edges"] += nreal
        stats["edges_covered"] += len(covered)
        stats["configs"].append({"config": name, "states": len(nodes), "edges": nreal, "paths": len(paths),
                                 "edges_covered": len(covered), "diverged_paths": ndiv})
    col.flush("replay" + tag)
    chk.extra["replay" + tag] = stats
    chk.extra["model_conformance" + tag] = (stats["diverged_paths"] == 0)
    if drift:
        chk.extra["model_drift_examples" + tag] = drift
    return stats


def split_sched(events):
    runs = []
    cur = None
    for e in events:
        if e["ev"] == "sched_begin":
            cur = []
            runs.append(cur)
        elif cur is not None:
            cur.append(e)
            if e["ev"] == "sched_end":
                cur = None
    return runs


def replay_schedule(chk, col, bindir, rp):
    r = T.run_probe(chk, bindir, "replay", rp["script"], strace=False, timeout=300)
    col.add(r, "replay")
    col.flush("replay")


# ------------------------------------------------------------------------------------------------
# B2 at algorithm level: free-running executions must be behaviours of ThreadLife
# ------------------------------------------------------------------------------------------------
def alg_class(run, t):
    prog = {"join": "ProgJ", "drop": "ProgD"}.get(t.op, "ProgK")
    fin = "FinP" if t.fin_plan == "panic" else "FinR"
    fm = fc = "NoThread"
    if t.spawn_ok is False:
        prog = "ProgK"
        if run.inject and run.inject.startswith("mmap"):
            fm = "Only1"
        else:
            fc = "Only1"
    return (prog, fin, fm, fc)


def alg_record(t):
    ha = list(t.arr_h)
    # the arrival after spawn returned is "done" when no handle operation follows
    if t.op is None or t.spawn_ok is False:
        ha = ha[:-1] + [("done", ha[-1][1])] if ha and ha[-1][0] == "60" and len(ha) > 1 else ha
    ta = list(t.arr_t)
    hn = [sum(1 for (_, s2) in ta if s2 < s1) for (_, s1) in ha]
    tn = [sum(1 for (_, s2) in ha if s2 < s1) for (_, s1) in ta]
    return {"ha": [p for p, _ in ha], "ta": [p for p, _ in ta], "hn": hn, "tn": tn}


def alg_validate(chk, col, cap=None, tag=""):
    """TLC decides for every recorded free-running thread life whether its sequence of protocol
    points (owner and thread, with only the ordering the log guarantees) is a behaviour of the
    algorithm-level model with separate kernel steps.  Rejections are model drift, not violations."""
    d = os.path.join(chk.work, "alg")
    os.makedirs(d, exist_ok=True)
    classes = {}
    for (run, t) in col.alg:
        if t.timeout or run.info.get("abort") or run.info.get("crash") or run.killed:
            continue
        if t.op is not None and not any(p == "done" for p, _ in t.arr_h):
            continue
        classes.setdefault(alg_class(run, t), []).append((run, t))
    jobs = []
    for cls, lst in sorted(classes.items()):
        if cap is not None and len(lst) > cap:
            step = len(lst) / float(cap)
            lst = [lst[int(i * step)] for i in range(cap)]
        name = "%s%s-%s-%s%s" % (cls[0], cls[1], cls[2], cls[3], tag)
        path = os.path.join(d, name + ".ndjson")
        core.write_ndjson(path, [alg_record(t) for (_, t) in lst])
        cfg = os.path.join(d, name + ".cfg")
        lines = ["INIT AInit", "NEXT ANext", "CONSTANTS", " NT = 1", " Prog <- %s" % cls[0], " Fin <- %s" % cls[1],
                 " Spurious = 1", " FailMmap <- %s" % cls[2], " FailClone <- %s" % cls[3],
                 " RecheckWord = TRUE", " RecheckDrop = TRUE", " CheckClone = TRUE", " RetryClone = FALSE", " PanicHoldsLock <- AllThreads", " PanicTakesLock = FALSE", " MmapFirst = TRUE", " DropResult = TRUE",
                 " KernelAtomic = FALSE", "INVARIANT Report", "CHECK_DEADLOCK FALSE"]
        open(cfg, "w").write("\n".join(lines) + "\n")
        jobs.append((name, cls, lst, path, cfg))

    def one(job):
        name, cls, lst, path, cfg = job
        return core.run_tlc("ThreadLifeAlg_MC", cfg, workers=2, env={"TRACE": path}, timeout=900, xmx="2g",
                            metadir=os.path.join(d, "md-" + name))

    with ThreadPoolExecutor(max_workers=4) as ex:
        results = list(ex.map(one, jobs))
    total = acc = 0
    rejected = []
    per = []
    for (name, cls, lst, path, cfg), res in zip(jobs, results):
        core.tlc_must_pass(res, "ThreadLifeAlg " + name)
        chk.add_tlc(res)
        ok = {int(x) for x in re.findall(r'^<<"ALGACC", (\d+)>>', res.out, re.M)}
        total += len(lst)
        acc += len(ok)
        per.append({"class": list(cls), "traces": len(lst), "accepted": len(ok), "states": res.distinct})
        for i, (run, t) in enumerate(lst):
            if (i + 1) not in ok and len(rejected) < 5:
                rejected.append({"class": list(cls), "run": run.name, "k": t.k, "record": alg_record(t)})
    chk.extra["alg_trace_validation" + tag] = {"traces": total, "accepted": acc, "classes": per}
    if rejected:
        chk.extra["alg_trace_rejected_examples" + tag] = rejected
    return total, acc


# ------------------------------------------------------------------------------------------------
# cross-check of the two specification levels: behaviours of the algorithm-level model, rendered as
# the abstract events the normaliser would produce, must be accepted by the property-level monitor
# (current-tree model), and rejected where the defect variants reach a bad state
# ------------------------------------------------------------------------------------------------
def _tuple(raw, var):
    return re.findall(r'"([^"]*)"|\b(TRUE|FALSE|\d+)\b', raw[var])


def _vals(raw, var):
    return [a or b for (a, b) in _tuple(raw, var)]


def abstract_events(nodes, path, prog, variant):
    """per-thread abstract event lists for one model path (list of edges)"""
    nt = len(nodes[path[0][0]]["tpc"]) if path else 1
    evs = {p: [] for p in range(1, nt + 1)}
    ops = PROG_OPS[prog]
    for (u, v, label) in path:
        a, b = nodes[u], nodes[v]
        ra, rb = a["raw"], b["raw"]
        name = label.split("(")[0]
        hop = int(ra["hop"])
        P = int(ops[hop - 1][1]) if hop <= len(ops) else None
        m = re.match(r"^\w+\((\d+)", label)
        p = int(m.group(1)) if m else P
        if p is None:
            continue
        e = evs[p]
        word = int(_vals(ra, "word")[p - 1])
        slot_a = _vals(ra, "slot")[p - 1]
        slot_b = _vals(rb, "slot")[p - 1]

        def res_changes(var, role, by):
            xa, xb = _vals(ra, var)[p - 1], _vals(rb, var)[p - 1]
            if xa != xb:
                e.append({"e": "acq", "r": role} if xb == "live" else {"e": "rel", "r": role, "by": by})

        if name in ("HStartSpawn", "AllocTsm", "BoxClosure", "AfterClosure", "AllocTlsPinned", "Clone", "ReturnHandle"):
            for var, role in (("tls", "tls"), ("stk", "stack"), ("clo", "closure"), ("tsm", "tsm")):
                res_changes(var, role, "H")
            sa, sb = _vals(ra, "sres")[p - 1], _vals(rb, "sres")[p - 1]
            if sa != sb:
                e.append({"e": "spawn", "ok": sb == "ok"})
        elif name == "JoinStart":
            e.append({"e": "call", "op": "join"})
        elif name == "DropStart":
            e.append({"e": "call", "op": "drop"})
        elif name in ("LoadAcquire", "LoadRelaxed"):
            e.append({"e": "touch", "by": "H", "what": "load", "word": 0})
            e.append({"e": "xload", "val": word, "acq": name == "LoadAcquire"})
        elif name == "FutexWait":
            e.append({"e": "touch", "by": "H", "what": "wait", "word": 0})
        elif name == "JoinReadSlot":
            e.append({"e": "touch", "by": "H", "what": "read_slot", "word": word})
        elif name == "JoinFreeTsm":
            e.append({"e": "touch", "by": "H", "what": "free", "word": word})
            e.append({"e": "rel", "r": "tsm", "by": "H"})
            jres = _vals(rb, "jres")[p - 1]
            e.append({"e": "ret", "op": "join", "res": "some" if jres == "Some" else "none", "val_ok": True, "eff_ok": True, "hb": True})
            if jres == "Some":
                e.append({"e": "vdrop"})        # the joiner drops the value it was given
        elif name == "DropFlagCas":
            e.append({"e": "touch", "by": "H", "what": "cas", "word": 0})
            if _vals(rb, "handle")[p - 1] == "dropped":
                e.append({"e": "ret", "op": "drop"})
        elif name == "DropFreeTsm":
            e.append({"e": "touch", "by": "H", "what": "free", "word": word})
            if slot_a == "Some" and slot_b == "Dropped":
                e.append({"e": "vdrop"})
            e.append({"e": "rel", "r": "tsm", "by": "H"})
            e.append({"e": "ret", "op": "drop"})
        elif name == "RunClosure":
            e.append({"e": "run"})
            e.append({"e": "fin", "how": "ret" if b["tpc"][p - 1] == "10" else "panic"})
        elif name == "WriteSlot":
            e.append({"e": "touch", "by": "T", "what": "write_slot", "word": 0})
        elif name == "FlagCas":
            e.append({"e": "touch", "by": "T", "what": "cas", "word": 0})
        elif name == "ThreadFreeTsm":
            e.append({"e": "touch", "by": "T", "what": "free", "word": 0})
            if slot_a == "Some" and slot_b == "Dropped":
                e.append({"e": "vdrop"})
            e.append({"e": "rel", "r": "tsm", "by": "T"})
        elif name == "FreeTls":
            e.append({"e": "rel", "r": "tls", "by": "T"})
            e.append({"e": "rel", "r": "closure", "by": "T"})
        elif name == "PanicFreeTls":
            e.append({"e": "rel", "r": "tls", "by": "T"})
        elif name == "Epilogue":
            e.append({"e": "rel", "r": "stack", "by": "T"})
            disarmed = _vals(ra, "ctid")[p - 1] == "FALSE"
            e.append({"e": "texit", "flag": True, "own": 1, "foreign": 0, "last": True, "whole": True, "disarmed": disarmed})
    last = nodes[path[-1][1]] if path else None
    if last is not None:
        term = last["hpc"] == "done" and all(t in ("none", "gone") for t in last["tpc"])
        if not term and last["hpc"] != "done":
            # the model is stuck inside an owner operation (deadlock / endless retry): on the real
            # code this is what the watchdog reports as a timeout inside that operation
            hop = int(last["raw"]["hop"])
            if hop <= len(ops):
                o = ops[hop - 1]
                evs[int(o[1])].append({"e": "timeout", "op": {"s": "spawn", "j": "join", "d": "drop"}[o[0]]})
        for p in evs:
            held = _vals(last["raw"], "handle")[p - 1] == "held"
            evs[p].append({"e": "end", "kept": held, "sys": True, "dv": True, "quiet": term})
    return evs


def complete_paths(nodes, edges, init, paths):
    """extend every tour path to a terminal state (shortest continuation)"""
    adj = {}
    for (u, v, l) in edges:
        if l.split("(")[0] != "Next":
            adj.setdefault(u, []).append((u, v, l))

    def terminal(n):
        s = nodes[n]
        return s["hpc"] == "done" and all(t in ("none", "gone") for t in s["tpc"])

    out = []
    for path in paths:
        cur = path[-1][1]
        seen = {cur: None}
        queue = [cur]
        goal = cur if terminal(cur) else None
        while queue and goal is None:
            n = queue.pop(0)
            for e in adj.get(n, []):
                if e[1] not in seen:
                    seen[e[1]] = e
                    if terminal(e[1]):
                        goal = e[1]
                        break
                    queue.append(e[1])
        ext = []
        n = goal
        while n is not None and seen.get(n) is not None:
            ext.append(seen[n])
            n = seen[n][0]
        ext.reverse()
        out.append(path + ext)
    return out


def spec_crosscheck(chk):
    """(1) every path of a transition tour of the current-tree model (kernel steps separate), completed
    to termination, is accepted by ThreadLifeTrace; (2) in the defect variants, every completed tour
    path whose final state violates a model invariant is rejected by ThreadLifeTrace."""
    d = os.path.join(chk.work, "xcheck")
    os.makedirs(d, exist_ok=True)
    jobs = [("fixed-" + p + f, p, f, "NoThread", "NoThread", None) for p in ("ProgJ", "ProgD", "ProgK") for f in ("FinR", "FinP")]
    jobs += [("fixed-ProgJJFinRP", "ProgJJ", "FinRP", "NoThread", "NoThread", None),
             ("fixed-ProgJFinR-mmapfail", "ProgJ", "FinR", "Only1", "NoThread", None),
             ("fixed-ProgJFinR-clonefail", "ProgJ", "FinR", "NoThread", "Only1", None)]
    for name, prog, fin, fm, fc, var, _ in DEFECT_VARIANTS:
        jobs.append((name, prog, fin, fm, fc, var))

    def dump(job):
        name, prog, fin, fm, fc, var = job
        cfg = os.path.join(d, name + ".cfg")
        dot = os.path.join(d, name + ".dot")
        write_cfg(cfg, prog, fin, 1, fm, fc, variant=var, katomic=False, liveness=False, invariants=False)
        res = core.run_tlc("ThreadLife_MC", cfg, workers=1, timeout=600, dump=dot, xmx="1g",
                           metadir=os.path.join(d, "md-" + name), extra=["-deadlock"])
        return res, dot

    with ThreadPoolExecutor(max_workers=6) as ex:
        dumps = list(ex.map(dump, jobs))
    items = []
    meta = []
    for job, (res, dot) in zip(jobs, dumps):
        core.tlc_must_pass(res, "ThreadLife dump " + job[0])
        chk.add_tlc(res)
        nodes, edges, init = parse_dot(dot)
        paths, nreal = tour(nodes, edges, init)
        paths = complete_paths(nodes, edges, init, paths)
        for path in paths:
            if not path:
                continue
            last = nodes[path[-1][1]]
            bad_model = last["raw"]["bad"].strip() != "{}"
            term = last["hpc"] == "done" and all(t in ("none", "gone") for t in last["tpc"])
            for p, evs in abstract_events(nodes, path, job[1], job[5]).items():
                items.append(("x", evs))
                meta.append({"job": job[0], "fixed": job[5] is None, "p": p, "bad_model": bad_model, "term": term,
                             "slot": _vals(last["raw"], "slot")[p - 1], "stuck": not term})
    verdicts, n = T.judge(chk, "xcheck", items)
    chk.evaluations += n
    false_alarms = []
    missed = 0
    caught = 0
    for i, m in enumerate(meta):
        rules = sorted({r for (r, _) in verdicts.get(i, [])})
        if m["fixed"]:
            if rules:
                false_alarms.append({"job": m["job"], "thread": m["p"], "rules": rules, "trace": items[i][1]})
        elif m["bad_model"] or m["stuck"]:
            if rules:
                caught += 1
            else:
                missed += 1
    out = {"paths_rendered": len(items), "fixed_model_paths_rejected": len(false_alarms),
           "defect_paths_with_model_violation_caught": caught, "defect_paths_with_model_violation_not_caught": missed}
    chk.extra["spec_level_crosscheck"] = out
    if false_alarms:
        chk.extra["spec_level_crosscheck_false_alarms"] = false_alarms[:3]
        raise core.ToolError("ThreadLifeTrace rejects behaviours of the verified model: %s" % json_short(false_alarms[0]))
    return out


def json_short(x):
    import json
    return json.dumps(x)[:1500]
