"""Shared plumbing of the checks that use tools/sysinj (C09, C12): build the tracer, run a
driver under it, read its ndjson log."""
import json
import os
import subprocess

from vlib import core

TOOLS = os.path.join(core.VERIF, "tools")
SYSINJ = os.path.join(TOOLS, "bin", "sysinj")


def load_factor():
    """>= 1: by how much wall-clock limits are stretched when the machine is oversubscribed"""
    try:
        return max(1.0, os.getloadavg()[0] / (os.cpu_count() or 1))
    except OSError:
        return 1.0


def build_tracer():
    """Compile tools/sysinj.c into work/tools/sysinj-<hash of the source> (never a stale binary:
    the name is derived from the source text; tools/Makefile builds the same thing for bin/setup)."""
    global SYSINJ
    import hashlib
    src = os.path.join(TOOLS, "sysinj.c")
    h = hashlib.sha1(open(src, "rb").read()).hexdigest()[:12]
    outdir = os.path.join(core.WORK, "tools")
    os.makedirs(outdir, exist_ok=True)
    out = os.path.join(outdir, "sysinj-" + h)
    if not os.path.exists(out):
        hdr = "/usr/include/x86_64-linux-gnu/asm/unistd_64.h"
        names, top = [], 0
        for line in open(hdr):
            parts = line.split()
            if len(parts) == 3 and parts[0] == "#define" and parts[1].startswith("__NR_") and parts[2].isdigit():
                names.append('  [%s] = "%s",' % (parts[2], parts[1][5:]))
                top = max(top, int(parts[2]))
        inc = os.path.join(outdir, "inc-" + h)
        os.makedirs(inc, exist_ok=True)
        with open(os.path.join(inc, "sysnames.h"), "w") as f:
            f.write("static const char *sysnames[] = {\n%s\n};\n#define NSYSNAMES %d\n" % ("\n".join(names), top + 1))
        tmp = "%s.%d.tmp" % (out, os.getpid())
        p = subprocess.run(["gcc", "-O2", "-Wall", "-I" + inc, "-o", tmp, src], stdout=subprocess.PIPE, stderr=subprocess.STDOUT, text=True)
        if p.returncode != 0:
            raise core.ToolError("cannot build tools/sysinj.c:\n" + p.stdout[-2000:])
        os.replace(tmp, out)
    SYSINJ = out
    return SYSINJ


def run_traced(cmd, log, *, rules=(), budget=None, timeout=120, windows_only=True, verbose=False, env=None, cwd=None):
    """Run cmd under sysinj.  Returns (rc, stdout, stderr, events)."""
    a = [SYSINJ, "-o", log, "-t", str(timeout)]
    if budget is not None:
        a += ["-b", str(budget)]
    if windows_only:
        a.append("-w")
    if verbose:
        a.append("-v")
    for r in rules:
        a += ["-r", r]
    a += ["--"] + list(cmd)
    e = dict(os.environ)
    if env:
        e.update({k: str(v) for k, v in env.items()})
    try:
        p = subprocess.run(a, stdout=subprocess.PIPE, stderr=subprocess.PIPE, text=True, errors="replace",
                           timeout=timeout + 30, env=e, cwd=cwd)
    except subprocess.TimeoutExpired:
        raise core.ToolError("sysinj itself timed out: " + " ".join(a))
    if p.returncode == 2 and "sysinj:" in p.stderr:
        raise core.ToolError("sysinj failed: " + p.stderr[-2000:])
    return p.returncode, p.stdout, p.stderr, read_log(log)


def read_log(path):
    ev = []
    if not os.path.exists(path):
        return ev
    with open(path, errors="replace") as f:
        for line in f:
            line = line.strip()
            if not line:
                continue
            try:
                ev.append(json.loads(line))
            except ValueError:
                pass  # a line cut short by a kill
    return ev


def selftest_seeded(pid):
    """./bin/check <ID> --selftest: every stored mutant under seeded/<ID>-* is applied to a scratch
    worktree (bin/mutant-test) and must be detected, the behaviour-preserving ones must not."""
    import glob
    ok = True
    for d in sorted(glob.glob(os.path.join(core.VERIF, "seeded", pid + "-*"))):
        patch = os.path.join(d, "patch.diff")
        if not os.path.exists(patch):
            continue
        benign = "benign" in os.path.basename(d)
        p = subprocess.run([os.path.join(core.VERIF, "bin", "mutant-test"), patch, pid], stdout=subprocess.PIPE,
                           stderr=subprocess.STDOUT, text=True)
        detected = p.returncode == 0
        good = detected != benign
        ok = ok and good
        print("%s %s: %s" % ("ok  " if good else "FAIL", os.path.basename(d),
                             "detected" if detected else "not detected" + (" (as it should be)" if benign else "")), flush=True)
    return 0 if ok else 1
