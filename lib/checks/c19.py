"""C19 - time arithmetic exact or None, never panics; monotonic clock never decreases; sleep(d) >= d.

1. TLC, exhaustive on scaled constants (TimeArithCode.tla/.cfg: NPS=4, i64=-8..7, u64=0..15): the
   transcription of time.rs equals the definition on exact total nanoseconds (TimeArith.tla),
   never panics (also for negative seconds), the algebraic laws hold.
2. TLC self-checks BigNat.tla (base-10^4 limb arithmetic) against native arithmetic.
3. harness/src/bin/timearith.rs runs boundary-biased + random 64-bit cases through the real
   Instant/SystemTime API; every call is one ndjson line judged by TLC (TimeArithJudge.tla =
   TimeArith.tla instantiated with BigNat and the real constants).
4. clock readings of several threads (+ readings ordered by a lock) and sleeps of
   0/1ns/1us/1ms/20ms, with and without signals interrupting the sleep, validated by TLC against
   ClockTrace.tla (Clock.tla model-checked on small bounds).
5. Apalache checks transcription = definition, panic-freedom and the laws symbolically for ALL
   64-bit inputs with the real constants (TimeArithApaReal.tla); TLC ties that flattened module to
   TimeArithCode.tla on the scaled domain (TimeArithTie.tla).
"""
import json
import os
import random
import shutil
import subprocess
import time
from concurrent.futures import ThreadPoolExecutor

from vlib import core
from checks import c19_common as K

NPS = 10 ** 9
SMAX = 2 ** 63 - 1
DMAX = 2 ** 64 - 1


def tlc_model(chk, module, cfg, tag, workers=3, extra_cfg=None):
    cfgp = cfg
    if extra_cfg is not None:
        cfgp = os.path.join(chk.work, "%s.cfg" % tag)
        with open(cfgp, "w") as f:
            f.write(extra_cfg)
    res = core.run_tlc(module, cfgp, workers=workers, timeout=2400, xmx="4g",
                       metadir=os.path.join(chk.work, "md_%s_%d" % (tag, os.getpid())))
    core.tlc_must_pass(res, tag)
    if res.distinct == 0:
        raise core.ToolError("%s explored no state" % tag)
    return res


def judge_lines(chk, jl, tag, batch=5000, par=3):
    bad = []

    def one(k):
        path = os.path.join(chk.work, "judge_%s_%d.ndjson" % (tag, k))
        part = jl[k:k + batch]
        core.write_ndjson(path, part)
        res = core.run_tlc("TimeArithJudge.tla", "TimeArithJudge.cfg", workers=1, env={"TRACE": path},
                           timeout=3000, xmx="3g", xss="256m",
                           metadir=os.path.join(chk.work, "md_j_%s_%d_%d" % (tag, k, os.getpid())))
        core.tlc_must_pass(res, "TimeArithJudge " + tag)
        j = res.printed("JUDGED")
        if len(j) != 1 or j[0]["n"] != len(part):
            raise core.ToolError("TimeArithJudge did not report on all %d lines: %s" % (len(part), res.out[-1500:]))
        return res, [k + i - 1 for i in j[0]["bad"]], len(part)

    with ThreadPoolExecutor(max_workers=par) as ex:
        for res, b, n in ex.map(one, range(0, len(jl), batch)):
            chk.add_tlc(res)
            bad += b
    return sorted(bad)


def expected(l):
    """python reference, used ONLY to label violations and to count non-trivial cases"""
    a = (int(l["a"][0]), int(l["a"][1]))
    b = (int(l["b"][0]), int(l["b"][1]))
    if a[0] < 0 or b[0] < 0 or not (0 <= a[1] < NPS) or not (0 <= b[1] < NPS):
        # outside the statement's quantifier (negative seconds; or a non-normalised value, which only
        # a defective operation can have produced for the driver's result chains): panic-freedom only
        return "nopanic", False
    ta, tb = a[0] * NPS + a[1], b[0] * NPS + b[1]
    op = l["op"]
    carry = (a[1] + b[1] >= NPS) if op == "add" else (a[1] < b[1])
    if op == "add":
        r = ta + tb
        lim = SMAX
    elif op == "sub":
        r = ta - tb
        lim = SMAX
    elif op in ("diff", "since_unix"):
        r = ta - tb
        lim = DMAX
    elif op == "to_timespec":
        if a[0] > SMAX:
            return "nopanic", False      # not representable: the statement does not say what must happen
        return ("some", str(a[0]), a[1]), a[0] >= SMAX - 1
    elif op == "elapsed_sys":
        c = (int(l["c"][0]), int(l["c"][1]))
        tc = c[0] * NPS + c[1]
        return ("elapsed", "none" if ta >= tc + 10 * NPS else ("some" if ta + 10 * NPS <= tb else "either")), False
    elif op == "elapsed":
        c = (int(l["c"][0]), int(l["c"][1]))
        tc = c[0] * NPS + c[1]
        return ("elapsed", "none" if ta > tc else ("some" if ta <= tb else "either")), abs(ta - tb) < 2 * NPS
    else:
        return "cmp", a[0] == b[0]
    if r < 0 or r // NPS > lim:
        return "none", True
    near = r // NPS >= lim - 2 or r // NPS <= 1
    return ("some", str(r // NPS), r % NPS), (carry or near)


def corrupt(rng, l):
    """a recorded line with one field falsified (anti-vacuity of the judge)"""
    c = json.loads(json.dumps(l))
    o = c["out"]
    if o[0] == "some":
        how = rng.randrange(3)
        if how == 0:
            o[2] = (o[2] + 1) % NPS
        elif how == 1:
            o[1] = str(int(o[1]) + 1)
        else:
            c["out"] = ["none"]
    elif o[0] == "none":
        c["out"] = ["some", "0", 0]

    elif o[0] == "cmp":
        o[1] = not o[1]
    return c


def run_arith(chk, bindir, tier, build="debug"):
    nrand = 400 if tier == "quick" else 12000
    if build == "release":
        nrand = 1500
    args = [os.path.join(bindir, "timearith"), "arith", str(nrand), str(chk.seed + (7 if build == "release" else 0))] + (
        ["full"] if tier == "thorough" and build == "debug" else [])
    p = core.run_cmd(args, timeout=1800, check=False)
    lines = []
    for x in p.stdout.splitlines():
        try:
            lines.append(json.loads(x))
        except ValueError:
            pass                 # a line cut off by a crash
    if p.returncode != 0:
        # the code under test brought the driver down (abort, stack overflow, ...): data, not a tool failure
        chk.violate({"op": "arith", "kind": "crash"},
                    "the time-arithmetic driver died with rc=%s after %d recorded calls: %s" % (p.returncode, len(lines), p.stderr[-300:].strip()),
                    {"mode": "crash", "rc": p.returncode})
        if not lines:
            return 0
    elif not lines:
        raise core.ToolError("timearith arith produced no output: " + p.stderr[-500:])
    # judge: the same call is often recorded for both types / both spellings - judge all
    jl = [K.to_judge_line(l) for l in lines]
    # anti-vacuity: falsified copies of recorded lines are appended; those whose original is accepted
    # must all be rejected (checked below)
    rng = random.Random(chk.seed)
    cand = [i for i, l in enumerate(lines) if expected(l)[0] not in ("nopanic",) and l["out"][0] != "panic"
            and not l["op"].startswith("elapsed")]      # elapsed() is only bracketed, a small falsification stays inside the bracket
    pick = [rng.choice(cand) for _ in range(60)] if cand else []
    fals = [corrupt(rng, lines[i]) for i in pick]
    nreal = len(lines)
    bad_all = judge_lines(chk, jl + [K.to_judge_line(l) for l in fals], "arith_" + build,
                          batch=(nreal + len(fals) + 2) // 3 if tier == "quick" else 5000, par=3 if tier == "quick" else 6)
    bad = [i for i in bad_all if i < nreal]
    fbad = {i - nreal for i in bad_all if i >= nreal}
    chk.traces += len(lines)
    chk.evaluations += len(lines)
    nontriv = set()
    indom = 0
    for l in lines:
        e, nt = expected(l)
        if e != "nopanic":
            indom += 1
        if nt:
            nontriv.add((l["op"], l["ty"], tuple(l["a"]), tuple(l["b"])))
    # cross-check of the machinery: TLC's verdict (definition evaluated in limb arithmetic) against a
    # python big-integer evaluation of the same definition; a disagreement is a tool error
    badset0 = set(bad)
    for i, l in enumerate(lines):
        e, _ = expected(l)
        o = l["out"]
        if e == "nopanic":
            want_bad = o[0] == "panic"
        elif isinstance(e, tuple) and e[0] == "elapsed":
            continue
        elif e == "cmp":
            continue
        elif e == "none":
            want_bad = o[0] != "none"
        else:
            want_bad = not (o[0] == "some" and (o[1], o[2]) == (e[1], e[2]))
            if l["op"] == "to_timespec" and o[0] == "panic":
                want_bad = True
        if want_bad != (i in badset0):
            raise core.ToolError("oracle disagreement on %s: TLC %s, python reference %s (expected %s)" % (
                l, "rejects" if i in badset0 else "accepts", "rejects" if want_bad else "accepts", e))
    for i in bad:
        l = lines[i]
        e, _ = expected(l)
        o = l["out"]
        if o[0] == "panic":
            kind = "panic"
        elif e == "none":
            kind = "some_instead_of_none"
        elif o[0] == "none":
            kind = "none_instead_of_some"
        elif o[0] == "cmp":
            kind = "ordering"
        else:
            kind = "wrong_value"
        chk.violate({"op": l["op"], "kind": kind},
                    "%s %s(a=%s, b=%s) returned %s; TimeArith.tla (exact total nanoseconds) gives %s%s" % (
                        l["ty"], l["op"] + ("/" + l["via"] if "via" in l else ""), l["a"], l["b"], o, e,
                        " [release build]" if build == "release" else ""),
                    {"mode": "arith", "line": l, "build": build})
    badset = set(bad)
    missed = [k for k, i in enumerate(pick) if i not in badset and k not in fbad]
    if missed:
        raise core.ToolError("judge self-test: %d falsified records were accepted, e.g. %s" % (len(missed), fals[missed[0]]))
    fals = [f for k, f in enumerate(fals) if pick[k] not in badset]
    sfx = "" if build == "debug" else "_release_build"
    chk.extra["elapsed_calls_near_now" + sfx] = sum(1 for l in lines if l.get("near"))
    chk.extra["elapsed_calls_ahead_within_the_same_second" + sfx] = sum(
        1 for l in lines if l.get("near") and l["a"][0] == l["c"][0] and int(l["a"][1]) > int(l["c"][1]))
    chk.extra["arith_calls_judged" + sfx] = len(lines)
    chk.extra["arith_calls_in_exactness_domain" + sfx] = indom
    chk.extra["arith_calls_negative_seconds_panic_freedom_only" + sfx] = len(lines) - indom
    chk.extra["falsified_records_rejected" + sfx] = len(fals)
    if build == "debug":
        for i in (0, len(lines) // 2, len(lines) - 7):
            chk.sample(lines[i])
    return len(nontriv) if build == "debug" else 0


def run_clock(chk, bindir, tier):
    threads, readings = (4, 2500) if tier == "quick" else (4, 25000)
    p = core.run_cmd([os.path.join(bindir, "timearith"), "clock", str(threads), str(readings)], timeout=600, check=False)
    if p.returncode != 0:
        chk.violate({"op": "clock", "kind": "crash"},
                    "the clock/sleep driver died with rc=%s: %s" % (p.returncode, p.stderr[-300:].strip()), {"mode": "crash", "rc": p.returncode})
        return 0
    evs = [json.loads(x) for x in p.stdout.splitlines() if x.strip()]
    path = os.path.join(chk.work, "clock.ndjson")
    core.write_ndjson(path, evs)
    res = core.run_tlc("ClockTrace.tla", "ClockTrace.cfg", workers=1, env={"TRACE": path}, timeout=3000, xmx="4g",
                       deque=True, xss="512m", metadir=os.path.join(chk.work, "md_clock_%d" % os.getpid()))
    core.tlc_must_pass(res, "ClockTrace")
    chk.add_tlc(res)
    rep = res.printed("CLOCK")
    if not rep:
        raise core.ToolError("ClockTrace printed no report: " + res.out[-1500:])
    rep = max(rep, key=lambda r: r["consumed"])
    if rep["n"] != len(evs):
        raise core.ToolError("ClockTrace read %d of %d events" % (rep["n"], len(evs)))
    chk.evaluations += len(evs)
    if rep["consumed"] < len(evs):
        e = evs[rep["consumed"]]
        if e["ev"] == "read":
            kind = "read_decreased"
        elif e["ev"] == "elapsed":
            kind = "elapsed_outside_bracket"
        elif e["ev"] == "hugesleep":
            kind = "sleep_short"
        elif e.get("res") != "ok":
            kind = "sleep_error"
        else:
            kind = "sleep_short"
        prev = [x for x in evs[:rep["consumed"]] if x["lane"] == e["lane"]][-1:]
        chk.violate({"op": "clock", "kind": kind},
                    "clock trace rejected at event %d: %s (previous event of that lane: %s)" % (rep["consumed"] + 1, e, prev),
                    {"mode": "clock", "event_index": rep["consumed"] + 1, "event": e, "previous_in_lane": prev})
    else:
        chk.traces += 1
    sleeps = [e for e in evs if e["ev"] == "sleep"]
    hs = [e for e in evs if e["ev"] == "hugesleep"]
    chk.extra["huge_sleeps"] = [{"d": e["d"], "signals": e["signals"], "still_asleep_after_ms": e["waited_ms"] if not e["returned"] else None,
                                 "returned": e["res"] if e["returned"] else None} for e in hs]
    chk.extra["clock_events_validated"] = rep["consumed"]
    chk.extra["clock_readings"] = rep["reads"]
    chk.extra["sleeps"] = len(sleeps)
    chk.extra["short_sleeps_bracketed_by_raw_clock_readings"] = sum(1 for e in sleeps if e.get("raw"))
    chk.extra["sleeps_hit_by_signals"] = sum(1 for e in sleeps if e["signals"] > 0)
    chk.extra["sleeps_interrupted_with_whole_seconds_left"] = sum(1 for e in sleeps if e.get("long") and e["signals"] > 0 and e["ds"] >= 1)
    chk.sample(sleeps[-1] if sleeps else evs[-1])
    # distinct non-trivial: sleeps with d > 0, and readings that differ from the lane's previous one
    return len({(e["ds"], e["dns"], e["signals"] > 0) for e in sleeps if (e["ds"], e["dns"]) != (0, 0)})


def run_apalache(chk, tier):
    """the equivalence with the REAL constants on unbounded integers, symbolically (measured: 8-15 s)."""
    exe = shutil.which("apalache-mc")
    if not exe:
        return "not installed"
    out = os.path.join(chk.work, "apalache-out")
    shutil.rmtree(out, ignore_errors=True)
    t0 = time.time()
    limit = 240 if tier == "quick" else 900
    try:
        p = subprocess.run([exe, "check", "--cinit=ConstInit", "--length=0", "--inv=AllInv",
                            "--out-dir=" + out, os.path.join(core.SPECS, "TimeArithApaReal.tla")],
                           stdout=subprocess.PIPE, stderr=subprocess.STDOUT, text=True, timeout=limit, cwd=core.SPECS)
    except subprocess.TimeoutExpired:
        return "stalled: no answer within %d s (skipped, not counted)" % limit
    if "The outcome is: NoError" not in p.stdout:
        raise core.ToolError("Apalache did not confirm TimeArithApaReal (model-level result, not a verdict on the code): " + p.stdout[-2000:])
    return {"outcome": "NoError", "wall_s": round(time.time() - t0, 1), "invariant": "AllInv = Exact /\\ NoPanic /\\ Laws",
            "constants": "NPS=10^9, SMAX=2^63-1, DMAX=2^64-1, U32MAX=2^32-1; all inputs, unbounded integers"}


def run(tier):
    chk = core.Check("C19", tier, "model_checking")
    # a private scratch directory per run (concurrent runs of the same check must not share files)
    chk.work = os.path.join(chk.work, "run-%d" % os.getpid())
    os.makedirs(chk.work, exist_ok=True)
    try:
        return _run(chk, tier)
    except core.ToolError as e:
        if not chk.violations:
            raise
        # the machinery failed AFTER real-code runs had already been rejected (typically a hang or
        # crash provoked by the same defect): report those violations instead of hiding them
        chk.extra["tool_error_after_violations"] = str(e)[:800]
        chk.evaluations = max(chk.evaluations, len(chk.violations))
        chk.nontrivial = max(chk.nontrivial, 2)
        chk.rule = chk.rule or "run aborted by a tool error after violations had been recorded"
        return chk.finish()
    finally:
        shutil.rmtree(chk.work, ignore_errors=True)


def _run(chk, tier):
    bindir = core.cargo_build(bins=["timearith"])
    # 1 + 2 + Clock: model checking
    with ThreadPoolExecutor(max_workers=5) as ex:
        # TimeArithTie.cfg checks TimeArithCode's own invariants (Exact, NoPanic, Laws, Normalised) and
        # the equality with the flattened Apalache module in one run
        f1 = ex.submit(tlc_model, chk, "TimeArithTie.tla", "TimeArithTie.cfg", "TimeArithTie", 3)
        f2 = ex.submit(tlc_model, chk, "BigNat_MC.tla", None, "BigNat_MC", 3,
                       "CONSTANTS\n  XMAX = %d\nINIT Init\nNEXT Next\nINVARIANT Check\nCHECK_DEADLOCK FALSE\n" % (1200 if tier == "quick" else 12000))
        f3 = ex.submit(tlc_model, chk, "Clock.tla", "Clock_MC.cfg", "Clock_MC", 2)
        f5 = ex.submit(run_apalache, chk, tier)
        r1, r2, r3 = f1.result(), f2.result(), f3.result()
        chk.extra["apalache"] = f5.result()
    for r in (r1, r2, r3):
        chk.add_tlc(r)
    chk.extra["scaled_exhaustive_inputs"] = r1.distinct
    chk.extra["bignat_selfcheck_pairs"] = r2.distinct
    chk.extra["clock_model_states"] = r3.distinct
    # 3
    nt = run_arith(chk, bindir, tier)
    if tier == "thorough":
        # the same API compiled without overflow checks (unchecked arithmetic wraps instead of panicking)
        rel = core.cargo_build(bins=["timearith"], release=True)
        run_arith(chk, rel, tier, build="release")
    # 4
    nt += run_clock(chk, bindir, tier)
    chk.nontrivial = nt
    chk.exhaustive = False
    chk.rule = ("TLC enumerates ALL (t,u) and (t,d) over the scaled constants and compares transcription and definition; "
                "the real API is run on a boundary grid (seconds in {0,1,2^32,2^63-2,2^63-1,..} x nanoseconds in {0,1,10^9-1,..} x "
                "durations up to u64::MAX) plus seeded random boundary-biased operands, result chains and SystemTime values with "
                "negative seconds, every call judged by TLC with BigNat arithmetic; clock readings per thread / under a lock and "
                "sleeps validated by ClockTrace. non-trivial = distinct in-domain calls with a nanosecond carry/borrow, a None "
                "result or a result within 2 s of a range limit, plus distinct (duration, interrupted) sleep classes with d > 0")
    chk.assumptions = [
        "exactness is asserted for normalised operands at/after the epoch (the statement's quantifier); for negative seconds only panic-freedom",
        "the driver builds Instants from TimeSpecs by transmute (one-field struct; verified at start-up against as_ref())",
        "sleep: only the lower bound is asserted; readings of different threads are compared only when ordered by a lock",
        "the 64-bit domain is sampled (boundary-biased), the scaled domain is enumerated completely",
        "quick: debug build (unchecked overflow panics); thorough additionally a release build (overflow wraps) on a reduced grid",
    ]
    return chk.finish()


def replay(path):
    rp = json.load(open(path))["replay"]
    chk = core.Check("C19", "quick", "model_checking")
    bindir = core.cargo_build(bins=["timearith"])
    if rp.get("mode") == "arith":
        l = rp["line"]
        dur_op = l["op"] in ("add", "sub")
        a = l["a"]
        b = ["0", 0] if dur_op else l["b"]
        d = l["b"] if dur_op else ["0", 0]
        if rp.get("build") == "release":
            bindir = core.cargo_build(bins=["timearith"], release=True)
        p = core.run_cmd([os.path.join(bindir, "timearith"), "one", a[0], str(a[1]), b[0], str(b[1]), d[0], str(d[1])])
        lines = [json.loads(x) for x in p.stdout.splitlines() if x.strip()]
        lines = [x for x in lines if x["op"] == l["op"] and x["ty"] == l["ty"] and x.get("via") == l.get("via")]
        bad = judge_lines(chk, [K.to_judge_line(x) for x in lines], "replay", par=1)
        print("recorded call:", json.dumps(l))
        for i, x in enumerate(lines):
            print("re-executed:  ", json.dumps(x), "->", "REJECTED by TimeArithJudge" if i in bad else "accepted")
        return 1 if bad else 0
    print("clock traces depend on the scheduler and cannot be replayed deterministically; recorded rejection:")
    print(json.dumps(rp, indent=1))
    return 0


def selftest():
    """anti-vacuity: every stored negative patch (seeded/C19-*/patch.diff) applied to a scratch
    copy of /repo must make the quick check print a VIOLATION (bin/mutant-test exits 0).  The
    falsified-record test of the judge runs inside every normal run."""
    import glob
    import subprocess
    ok = True
    for d in sorted(glob.glob(os.path.join(core.VERIF, "seeded", "C19-*"))):
        patch = os.path.join(d, "patch.diff")
        p = subprocess.run([os.path.join(core.VERIF, "bin", "mutant-test"), patch, "C19"],
                           stdout=subprocess.PIPE, stderr=subprocess.STDOUT, text=True)
        det = p.returncode == 0
        ok = ok and det
        print("%s: %s" % (os.path.basename(d), "detected (VIOLATION)" if det else "NOT DETECTED"))
        for l in p.stdout.splitlines():
            if l.startswith("[verif] violation:"):
                print("    " + l[:240])
                break
    return 0 if ok else 1
