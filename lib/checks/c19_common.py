"""C19 helpers: decimal strings <-> base-10^4 limb arrays (BigNat.tla representation)."""


def limbs(n):
    assert n >= 0
    r = []
    while n:
        r.append(n % 10000)
        n //= 10000
    return r


def val(x):
    s = int(x[0])
    return {"neg": s < 0, "s": limbs(abs(s)), "ns": int(x[1])}


def out(o):
    k = o[0]
    r = {"k": k, "s": [], "ns": 0, "bad": False, "le": False, "lt": False, "eq": False, "c": 0}
    if k == "some":
        s = int(o[1])
        ns = int(o[2])
        if s < 0 or ns < 0 or ns >= 2 ** 31:
            r["bad"] = True
        else:
            r["s"] = limbs(s)
            r["ns"] = ns
    elif k == "cmp":
        r["le"], r["lt"], r["eq"], r["c"] = bool(o[1]), bool(o[2]), bool(o[3]), int(o[4])
    return r


def to_judge_line(l):
    return {"op": l["op"], "a": val(l["a"]), "b": val(l["b"]), "c": val(l.get("c", l["b"])), "out": out(l["out"])}
