"""C13 - Command::spawn returns only in the caller; the child runs exactly what was configured,
or the caller gets the failed step's errno and nothing is left running the caller's code.

Spawn.tla (algorithm level, TLC: exhaustive over configuration x fault plan, with and without the
`start` feature) generates the plans and predicts their outcome; each selected plan is executed by
the real code (harness/src/bin/spawnd.rs, built with and without `start`) under the ptrace tracer
tools/spawntrace.c, which injects the planned failure into the right process; the merged
system-call + marker + helper-dump trace of every run is judged by TLC against the property-level
clauses (SpawnTrace.tla / SpawnAbs.tla).  See notes/C13.md.
"""
import concurrent.futures
import json
import os
import random
import shutil
import subprocess

from vlib import core

NOCODE = -1000000
TOOLS_SRC = os.path.join(core.VERIF, "tools")
ARGS = ["a1", "a2"]
ENVS = ["e1=x", "e2=y"]
# what Command::env is given (one raw "KEY=value" string per call, passed on as it is): ordinary entries,
# a repeated key, an empty value / a value containing '=', an empty key / an entry without '='
ENV_VARIANTS = {1: [["e1=x"], ["e3="], ["e4=a=b"], ["novalue"]],
                2: [["e1=x", "e2=y"], ["e1=x", "e1=z"], ["e3=", "e4=a=b"], ["=v", "novalue"]]}


def env_entries(n, idx):
    return list(ENV_VARIANTS[n][(idx // 2) % 4]) if n else []


def env_alternatives(entries):
    """readings the API text leaves open for a repeated key: both passed on (the entries themselves),
    last wins, first wins"""
    keys = [e.split("=", 1)[0] for e in entries]
    if len(set(keys)) == len(keys):
        return []
    last, first = {}, {}
    for e in entries:
        k = e.split("=", 1)[0]
        last[k] = e
        first.setdefault(k, e)
    return [list(last.values()), list(first.values())]
PENV = {"pe": "1"}
RAWFD = [40, 41, 42]

UNIT_BYTES = {0: 0, 1: 1, 3: 65537}     # SpawnFlow.tla's payload units -> bytes (pipe capacity 2 units = 65536)


def payload(n):
    return bytes((i * 7 + 13) % 251 for i in range(n))


def adler(data):
    a, b = 1, 0
    for c in data:
        a = (a + c) % 65521
        b = (b + a) % 65521
    return a, b


def flow_expect(out):
    """SpawnFlow.tla outcome -> (driver ops, payload bytes, expected io results for the judge, may hang)"""
    nbytes = UNIT_BYTES[out["plan"]["n"]]
    copied = UNIT_BYTES.get(out["cgot"], -1)
    exp = []
    for r in out["res"]:
        op = r["op"]
        if op == "wait":
            continue
        e = {"op": op, "res": r["res"], "n": 0, "a": 0, "b": 0, "head": "*"}
        if op == "W":
            e["n"] = UNIT_BYTES.get(r["n"], -1) if r["res"] == "ok" else (0 if r["res"] == "nopipe" else -1)
        elif op == "RO" and r["res"] == "eof":
            k = UNIT_BYTES.get(r["n"], -1)
            e["n"] = k
            if k >= 0:
                e["a"], e["b"] = adler(payload(nbytes)[:k])
        elif op == "RE" and r["res"] == "eof":
            e["n"] = -1
            if r["n"] == 2 and copied >= 0:
                text = "ERRMARK\nERR:%d\n" % copied
                e["n"] = len(text)
                e["a"], e["b"] = adler(text.encode())
                e["head"] = text
            elif r["n"] == 0:
                e["n"], e["a"], e["b"], e["head"] = 0, 1, 0, ""
        exp.append(e)
    return list(out["plan"]["ops"]), nbytes, exp, bool(out["hung"])


VARIANTS = {
    # name: (cargo template, StartFeature of the model, admissible extra environments for env=default)
    # std-linked + `start`: tiny-std's ENV.env_p is only set by tiny-std's own _start, which a
    # std-linked binary never runs -> Environment::Inherit passes a NULL envp (empty environment).
    "start": ("harness", True, [[]]),
    "nostart": ("harness_nostart", False, []),
    # no-libc executable started by tiny-std's own _start (feature `executable`): real Inherit
    "probe": ("probe/spawnp", True, []),
    # no-libc, no-alloc: the free function tiny_std::process::spawn::<N, _> (Environment::Inherit | None only)
    "noalloc": ("probe/spawnn", True, []),
}
MODEL_OF = {"start": "start", "nostart": "nostart", "probe": "start", "noalloc": "start"}   # which TLC run generates the plans


# ------------------------------------------------------------------------------------------------
# tools
# ------------------------------------------------------------------------------------------------
_STAGE = {"dir": None}


def stage_dir():
    """Everything the spawned child must reach (programs, cwd targets, the missing / busy paths, dumps)
    lives in a fresh directory created at run time that ANY uid can traverse - the check must not depend
    on where /verif is installed (a child that has done setuid(nobody) cannot search a 0700 path) - and is
    removed again at the end."""
    import tempfile
    if _STAGE["dir"] is None:
        for parent in ("/var/tmp", tempfile.gettempdir()):
            try:
                d = tempfile.mkdtemp(prefix="verif-c13-", dir=parent)
                os.chmod(d, 0o755)
                _STAGE["dir"] = d
                break
            except OSError:
                continue
        if _STAGE["dir"] is None:
            raise core.ToolError("cannot create a staging directory")
    return _STAGE["dir"]


def stage_cleanup():
    if _STAGE["dir"]:
        shutil.rmtree(_STAGE["dir"], ignore_errors=True)
        _STAGE["dir"] = None


def staged_helper(tools):
    """one copy of the helper on the staging file system (run directories hard-link it)"""
    dst = os.path.join(stage_dir(), "spawn_helper")
    if not os.path.exists(dst):
        tmp = dst + ".tmp%d" % os.getpid()
        shutil.copy(os.path.join(tools, "spawn_helper"), tmp)
        os.chmod(tmp, 0o755)
        os.replace(tmp, dst)
    return dst


def build_tools():
    out = os.path.join(core.WORK, "C13-tools")
    os.makedirs(out, exist_ok=True)
    for name, flags in (("spawntrace", []), ("spawn_helper", ["-static"])):
        src = os.path.join(TOOLS_SRC, name + ".c")
        dst = os.path.join(out, name)
        if not os.path.exists(dst) or os.path.getmtime(dst) < os.path.getmtime(src):
            tmp = dst + ".tmp%d" % os.getpid()
            core.run_cmd(["gcc", "-O1", "-Wall"] + flags + ["-o", tmp, src], timeout=120)
            os.replace(tmp, dst)
    return out


# ------------------------------------------------------------------------------------------------
# TLC: exhaustive model check + plan generation
# ------------------------------------------------------------------------------------------------
def tlc_plans(chk, tier, start, dev=(), cfgs=None, faults=None, workers=4, emit=True, tag=""):
    cfgs = cfgs or ("CfgsQuick" if tier == "quick" else "CfgsThorough")
    faults = faults or ("FaultsQuick" if tier == "quick" else "FaultsThorough")
    path = os.path.join(chk.work, "Spawn_MC_%s_%s%s.cfg" % (tier, "start" if start else "nostart", tag))
    with open(path, "w") as f:
        f.write("CONSTANTS\n  StartFeature = %s\n  Dev = {%s}\n  Cfgs <- %s\n  Faults <- %s\n" % (
            "TRUE" if start else "FALSE", ", ".join('"%s"' % d for d in dev), cfgs, faults))
        f.write("INIT InitMC\nNEXT Next\nINVARIANTS VectorsTerminated AbsHolds%s\nCHECK_DEADLOCK TRUE\n" % (" Emit" if emit else ""))
    md = os.path.join(core.WORK, "tlc-meta", "Spawn_MC-%d-%s-%s%s" % (os.getpid(), tier, "s" if start else "n", tag))
    return core.run_tlc("Spawn_MC.tla", path, workers=workers, timeout=3000, xmx="6g", metadir=md)


def _selftest_dev(chk, dev, start):
    r = tlc_plans(chk, "quick", start, dev=(dev,), cfgs="CfgsTiny", workers=1, emit=False, tag="_" + dev)
    if dev in ("WaitHoldsPipes", "ExecveRetriesEtxtbsy"):
        # this deviation shows as a deadlock: the caller blocked forever in wait4 inside spawn
        if "Deadlock reached" not in r.out:
            raise core.ToolError("model self-test: deviation %s does not deadlock Spawn.tla:\n%s" % (dev, r.out[-1500:]))
        return True
    if "AbsHolds" not in r.invariant_violated:
        raise core.ToolError("model self-test: deviation %s does not violate AbsHolds in Spawn.tla:\n%s" % (dev, r.out[-1500:]))
    return True


def _selftest_probe(chk, probe):
    path = os.path.join(chk.work, "Spawn_probe_%s.cfg" % probe)
    with open(path, "w") as f:
        f.write("CONSTANTS\n  StartFeature = TRUE\n  Dev = {}\n  Cfgs <- CfgsTiny\n  Faults <- FaultsQuick\n"
                "INIT InitMC\nNEXT Next\nINVARIANTS %s\nCHECK_DEADLOCK FALSE\n" % probe)
    md = os.path.join(core.WORK, "tlc-meta", "Spawn_MC-%d-%s" % (os.getpid(), probe))
    r = core.run_tlc("Spawn_MC.tla", path, workers=1, timeout=600, metadir=md)
    if probe not in r.invariant_violated:
        raise core.ToolError("model self-test: probe %s unreachable (vacuous invariant)" % probe)
    return True


def _action_coverage(chk):
    """tlc -coverage 1 on the tiny configuration: how often each action of Spawn.tla fired"""
    import re
    path = os.path.join(chk.work, "Spawn_cov.cfg")
    with open(path, "w") as f:
        f.write("CONSTANTS\n  StartFeature = TRUE\n  Dev = {}\n  Cfgs <- CfgsTiny\n  Faults <- FaultsQuick\n"
                "INIT InitMC\nNEXT Next\nINVARIANTS VectorsTerminated AbsHolds\nCHECK_DEADLOCK TRUE\n")
    md = os.path.join(core.WORK, "tlc-meta", "Spawn_MC-%d-cov" % os.getpid())
    r = core.run_tlc("Spawn_MC.tla", path, workers=1, timeout=600, metadir=md, coverage=True)
    core.tlc_must_pass(r, "Spawn_MC coverage")
    cov = {}
    for m in re.finditer(r"^<(\w+) line \d+, col \d+ to line \d+, col \d+ of module Spawn(?: \([\d ]+\))?>: (\d+):(\d+)", r.out, re.M):
        cov[m.group(1)] = cov.get(m.group(1), 0) + int(m.group(3))
    return cov


def flow_outcomes(chk, dev=()):
    """SpawnFlow.tla: every caller plan over the Child's pipes -> its outcome (results per op, hang or not)"""
    path = os.path.join(chk.work, "SpawnFlow_%s.cfg" % ("-".join(dev) or "ok"))
    with open(path, "w") as f:
        f.write("CONSTANTS\n  CAP = 2\n  Dev = {%s}\n  Plans <- PlansAll\nINIT Init\nNEXT Next\n"
                "INVARIANTS Delivered SaneNeverHangs%s\nCHECK_DEADLOCK TRUE\n" % (", ".join('"%s"' % d for d in dev), "" if dev else " Emit"))
    md = os.path.join(core.WORK, "tlc-meta", "SpawnFlow-%d-%s" % (os.getpid(), "-".join(dev) or "ok"))
    return core.run_tlc("SpawnFlow_MC.tla", path, workers=2, timeout=1800, metadir=md)


def _selftest_flow(chk, dev):
    r = flow_outcomes(chk, dev=(dev,))
    if "SaneNeverHangs" not in r.invariant_violated:
        raise core.ToolError("flow model self-test: stray end %s does not make a sane plan hang in SpawnFlow.tla:\n%s" % (dev, r.out[-1200:]))
    return True


def select_flows(outs, tier, rng):
    ok = [o for o in outs if not o["hung"]]
    hung = [o for o in outs if o["hung"]]
    key = lambda o: json.dumps(o["plan"], sort_keys=True)
    ok.sort(key=key)
    hung.sort(key=key)
    rng.shuffle(ok)
    rng.shuffle(hung)
    if tier == "quick":
        # every stdio table x payload at least once among the plans that end, a few that block by themselves
        seen, pick = set(), []
        for o in ok:
            k = (tuple(o["plan"]["io"]), o["plan"]["n"])
            if k not in seen or (o["plan"]["io"] == ["pipe", "pipe", "pipe"] and len([1 for x in pick if x["plan"]["io"] == o["plan"]["io"]]) < 14):
                seen.add(k)
                pick.append(o)
        return pick, hung[:5]
    return ok[:1200], hung[:40]


def model_selftest_jobs(chk, ex):
    """The named deviations of the pinned tree must be exhibited by TLC in the model (anti-vacuity
    of the invariants), and every probe state must be reachable."""
    futs = {}
    for dev, start in (("ChildReturnsErr", True), ("ExecveNegErrno", True), ("EnvTestInverted", False), ("WaitHoldsPipes", True),
                       ("TryWaitNoCache", True), ("EintrNotRetried", True),
                       ("EintrReturnsAtOnce", True), ("ExecveRetriesEtxtbsy", True), ("ChildClosesDupSource", True),
                       ("PreExecLastWins", True), ("ChildAllocatesOnFailure", True)):
        futs[dev] = ex.submit(_selftest_dev, chk, dev, start)
    for dev in ("ParentKeepsOutWrite", "ChildKeepsInWrite"):
        futs["flow:" + dev] = ex.submit(_selftest_flow, chk, dev)
    for probe in ("ProbeOk", "ProbeErrParent", "ProbeErrChild", "ProbeWaited", "ProbeWaitedTwice", "ProbeTryNone"):
        futs[probe] = ex.submit(_selftest_probe, chk, probe)
    return futs


# ------------------------------------------------------------------------------------------------
# plan selection
# ------------------------------------------------------------------------------------------------
def plan_key(p):
    return json.dumps([p["cfg"], p["fault"], p.get("round", 1)], sort_keys=True)


def natural_failure(cfg):
    """first configured (not injected) failure on the child side, as (step, errno|0)"""
    if cfg["cwd"] == "missing":
        return ("chdir", 2)
    if cfg["uid"] == "other" and cfg["gid"] == "other":
        return ("setgid", 1)
    for c in cfg["pre"]:
        if c != 0:
            return ("pre_exec", c if c > 0 else 0)
    if cfg["prog"] == "missing":
        return ("execve", 2)
    return None


def outcome_class(p):
    r = p["returns"]
    return json.dumps([[x["proc"], x["res"], x["code"]] for x in r] + [p["execd"], len(p["hist"]["C"]), len(p["hist"]["P"])])


def select_plans(plans, tier, rng):
    nofault = [p for p in plans if p["fault"]["k"] == 0]
    faulty = [p for p in plans if p["fault"]["k"] != 0]
    groups = {}
    for p in faulty:
        f = p["fault"]
        groups.setdefault((f["p"], f["sys"], f["k"], f["err"], outcome_class(p)), []).append(p)
    per = 2 if tier == "quick" else 12
    if tier == "quick":
        # the big family (other dimensions x one stdio table): every second fault-free configuration;
        # the small families (stdio tables, wait sequences, re-used Command) completely
        big = lambda p: p["cfg"]["io"] == ["null", "pipe", "raw"] and p["cfg"].get("wseq", ["wait"]) == ["wait"] \
            and p["cfg"].get("respawn", "none") == "none"
        keep = [p for p in nofault if not big(p)]
        rest = sorted([p for p in nofault if big(p)], key=plan_key)
        rng.shuffle(rest)
        nofault = keep + rest[:len(rest) // 2]
    chosen = list(nofault)
    for k in sorted(groups, key=str):
        g = sorted(groups[k], key=plan_key)
        rng.shuffle(g)
        chosen += g[:per]
    return chosen, len(nofault), len(groups)


# ------------------------------------------------------------------------------------------------
# one real execution
# ------------------------------------------------------------------------------------------------
OTHER_ID = 65534   # nobody / nogroup
# interleaving of caller and forked child, enforced by the tracer (the model allows every interleaving):
SCHEDULES = ["free", "parent-first", "child-first"]


def idval(setting, own):
    return {"unset": None, "own": own, "other": OTHER_ID}[setting]


HELPERS = ["h7", "h7", "h0", "k9", "h7", "h3", "k15"]   # exit(7) / exit(0) / SIGKILL / exit(3) / SIGTERM
# the wait-sequence plans are run with each of: plain exit code, exit code >= 128 (looks like 128+SIGKILL
# to a shell, but is a normal exit: raw status 137<<8), really killed by SIGKILL (raw status 9)
# ...s: the program stops itself (SIGSTOP) after its dump and is continued 150 ms later, then ends as named:
# `wait` must sleep through the stop and report the TERMINATION status, `try_wait` must say "still running"
WAIT_HELPERS = ["h7", "h137", "k9", "h7s", "k9s"]


def helper_status(kind):
    """raw wait status of a helper that ends the way its name says"""
    import re
    m = re.match(r"([hk])(\d+)", kind)
    return int(m.group(2)) << 8 if m.group(1) == "h" else int(m.group(2))


def helper_name(idx, stdin_pipe=False, override=None):
    # ...r: the helper reads its stdin to the end before it dumps and exits
    name = override or HELPERS[idx % len(HELPERS)]
    return name if name.endswith("c") else name + ("r" if stdin_pipe else "")


def pos_want(io):
    """by how much ONE exec'ed program moves the three descriptions the driver started with (inh) and the
    RawFd sources (raw): the helper reads 3 bytes from a regular-file stdin and writes 2 bytes to a
    regular-file stdout / stderr; the driver's stdin file is read-only, its stdout / stderr files write-only"""
    inh = [0, 0, 0]
    raw = [0, 0, 0]
    for s, m in enumerate(io):
        amount = 3 if s == 0 else 2
        if m == "raw":
            raw[s] = amount
            continue
        j = s if m == "inherit" else (int(m[2]) if m in ("fd0", "fd1", "fd2") else None)
        if j is None:
            continue
        if (s == 0) == (j == 0):          # reading needs the read-only file, writing one of the write-only ones
            inh[j] += amount
    return [{"inh": inh[k], "raw": raw[k]} for k in range(3)]


def alias_class(io):
    """Stdio::RawFd(0/1/2) configurations by what makes them special"""
    std = {"fd0": 0, "fd1": 1, "fd2": 2}
    if not any(m in std for m in io):
        return None
    if any(std.get(io[s]) == s for s in range(3)):
        return "identity"
    if any(io[s] in std and std[io[s]] < s and io[std[io[s]]] != "inherit" for s in range(3)):
        return "source-overwritten"
    return "plain"


def concretise(plan, rundir, variant, idx, helper=None):
    cfg = plan["cfg"]
    start, env_alt = VARIANTS[variant][1], VARIANTS[variant][2]
    binp = os.path.join(rundir, helper_name(idx, cfg["io"][0] == "pipe", helper) if cfg["prog"] in ("ok", "busy") else "nobin")
    wseq = list(cfg.get("wseq", ["wait"]))
    if wseq == ["wait"] and idx % 10 == 2:
        wseq = ["poll"]          # same call sequence for the model (the polls collapse), other API
    cwd = {"none": None, "ok": os.path.join(rundir, "dirA"), "missing": os.path.join(rundir, "dirX")}[cfg["cwd"]]
    io = list(cfg["io"])
    names = ["stdin", "stdout", "stderr"]
    envs = env_entries(cfg["nenv"], idx)
    dplan = {"bin": binp, "args": ARGS[:cfg["nargs"]], "env": envs if cfg["nenv"] else None,
             "cwd": cwd, "uid": idval(cfg["uid"], os.getuid()), "gid": idval(cfg["gid"], os.getgid()),
             "pgroup": 0 if cfg["pg"] == "own" else None,
             "pre_exec": list(cfg["pre"]), "open": [], "wait": wseq,
             "bulk": idx % 2 == 1, "feed": ("feed%d" % idx) if cfg["io"][0] == "pipe" else None,
             "payload": 0, "respawn": None}
    if cfg.get("respawn", "none") != "none":
        dplan["respawn"] = {"extra": "a3" if cfg["respawn"] == "arg" else None}
    for s in range(3):
        m = io[s]
        if m == "inherit":
            dplan[names[s]] = None if (idx + s) % 2 == 0 else "inherit"   # unset = default = inherit
        elif m in ("fd0", "fd1", "fd2"):
            dplan[names[s]] = {"fd": int(m[2])}       # Stdio::RawFd naming one of the caller's own standard descriptors
        elif m == "raw":
            dplan[names[s]] = {"fd": RAWFD[s]}
            dplan["open"].append({"fd": RAWFD[s], "path": os.path.join(rundir, "raw%d" % s), "write": s != 0})
        else:
            dplan[names[s]] = m
    c = {"bin": binp, "args": dplan["args"], "envmode": "provided" if cfg["nenv"] else "default",
         "envs": envs, "start": start, "penv": ["%s=%s" % kv for kv in PENV.items()],
         "envAlt": env_alternatives(envs) if cfg["nenv"] else env_alt,
         "cwd": cwd if cwd else "unset", "pcwd": os.path.realpath(rundir),
         "uid": -1 if dplan["uid"] is None else dplan["uid"], "puid": os.getuid(),
         "gid": -1 if dplan["gid"] is None else dplan["gid"], "pgid": os.getgid(),
         "pg": 0 if cfg["pg"] == "own" else -1, "io": io, "pre": list(cfg["pre"]), "feed": dplan["feed"] or "",
         "flow": [], "mayHang": False, "posWant": pos_want(io)}
    if cfg["prog"] == "busy":
        # the program file is open for writing (descriptor 43, not close-on-exec, inherited by the forked
        # child): execve says ETXTBSY without any injection
        dplan["open"].append({"fd": 43, "path": binp, "write": "append"})
    if plan.get("flow"):
        ops, nbytes, exp, hang = flow_expect(plan["flow"])
        dplan.update({"wait": ops, "payload": nbytes, "feed": None})
        c.update({"flow": exp, "mayHang": hang, "feed": ""})
    dplan["envnone"] = False
    if variant == "noalloc" and idx % 2 == 1:
        # Environment::None chosen explicitly: the configured environment is the empty one
        dplan["envnone"] = True
        c["envmode"], c["envs"] = "provided", []
    f = plan["fault"]
    planned = []
    if cfg["cwd"] == "missing":
        planned.append({"proc": "C", "step": "chdir", "errno": 2})
    if cfg["prog"] == "missing":
        planned.append({"proc": "C", "step": "execve", "errno": 2})
    if cfg["prog"] == "busy":
        planned.append({"proc": "C", "step": "execve", "errno": 26})
    for k in range(3):
        if io[k] == "fd%d" % k:
            # identity (e.g. stdout(RawFd(1))): dup2 is done with dup3, which refuses equal descriptors
            planned.append({"proc": "C", "step": "dup3", "errno": 22})
    if cfg["uid"] == "other" and cfg["gid"] == "other":
        # as coded setgid follows setuid: the kernel refuses it once the privileges are gone
        planned.append({"proc": "C", "step": "setgid", "errno": 1})
    for code in cfg["pre"]:
        if code:
            planned.append({"proc": "C", "step": "pre_exec", "errno": code if code > 0 else 0})
    if f["k"]:
        planned.append({"proc": f["p"], "step": f["sys"], "errno": f["err"] if f["err"] > 0 else 0})
    c["planned"] = planned
    inj = None
    if f["k"]:
        inj = "task=%d,nr=%s,k=%d,%s%s" % (1 if f["p"] == "P" else 2, f["sys"], f["k"],
                                           ("err=%d" % f["err"]) if f["err"] > 0 else ("ret=%d" % -f["err"]),
                                           ",persist" if f.get("persist") else "")
    return dplan, c, inj


import threading
HANGS = {"n": 0, "skipped": 0}
HANG_LOCK = threading.Lock()
HANG_CONFIRM = 6     # so many hangs are confirmed with the long watchdog,
HANG_ABORT = 30      # after so many the remaining runs of the check are skipped (a tree that hangs everywhere)


def load_factor():
    """>= 1: how much longer than on an idle machine things may take right now"""
    try:
        return max(1.0, os.getloadavg()[0] / (os.cpu_count() or 1))
    except OSError:
        return 1.0


CONFIRM_BUDGET = {"left": 3}     # configurations per check run that are re-run alone (a real hang costs 2 x the long limit)


def confirm_trips(chk, runs, jobs, verdicts, variant):
    """A timeout is only a violation when it is reproduced in 2 of 2 re-runs of that single configuration
    ALONE (nothing else of the check running), with a limit 5x the original one, scaled further with the
    machine's load.  Returns notes for the evidence."""
    notes = {"confirmed": [], "not_reproduced": [], "not_individually_confirmed": 0}
    cand = [k for k, r in enumerate(runs) if r.get("tripped")]
    seen = set()
    for k in cand:
        r, job = runs[k], jobs[k]
        key = json.dumps([job["plan"]["cfg"], job["plan"]["fault"]], sort_keys=True)
        if key in seen or CONFIRM_BUDGET["left"] == 0:
            # not re-run on its own: no verdict from this run
            notes["not_individually_confirmed"] += 1
            verdicts[r["idx"]] = dict(verdicts[r["idx"]], viol=[], anomalies=[], unconfirmed_trip=True)
            continue
        seen.add(key)
        CONFIRM_BUDGET["left"] -= 1
        limit = int(5 * 4000 * load_factor())
        again = []
        for n in (1, 2):
            j2 = dict(job, isolated=True, noconfirm=True, timeout_ms=limit,
                      rundir=os.path.join(stage_dir(), "confirm-" + variant, "r%05d-%d" % (job["idx"], n)))
            rr = execute(j2)
            if r.get("round") == 2 and rr.get("second") is not None:
                rr = rr["second"]
            again.append(rr)
            if not rr.get("tripped"):
                break
        desc = {"variant": variant, "cfg": job["plan"]["cfg"], "fault": job["plan"]["fault"], "limit_ms": limit}
        if len(again) == 2 and all(x.get("tripped") for x in again):
            notes["confirmed"].append(desc)
            rr = again[-1]
        else:
            notes["not_reproduced"].append(desc)
            rr = again[-1]
        rr["idx"] = r["idx"]
        rr["events"][0]["run"] = r["idx"]
        v, jres = judge(chk, [rr], "confirm-%s-%d" % (variant, r["idx"]))
        for x in jres:
            chk.add_tlc(x)
        verdicts[r["idx"]] = v[r["idx"]]
        runs[k] = rr
    return notes


def execute(job):
    """job: dict(idx, plan, variant, rundir, bindir, tools). Returns dict(events, raw) or None (skipped)."""
    with HANG_LOCK:
        if not job.get("isolated"):
            if HANGS["n"] >= HANG_ABORT:
                HANGS["skipped"] += 1
                return None
            if HANGS["n"] >= HANG_CONFIRM and "timeout_ms" not in job:
                job = dict(job, timeout_ms=1500, noconfirm=True)
    rundir = job["rundir"]
    if os.path.isdir(rundir):
        shutil.rmtree(rundir)
    os.makedirs(os.path.join(rundir, "dirA"))
    os.chmod(rundir, 0o777)      # the helper may run as another user and must be able to write its dump
    helper = os.path.join(rundir, helper_name(job["idx"], job["plan"]["cfg"]["io"][0] == "pipe", job.get("helper")))
    try:
        if job["plan"]["cfg"].get("prog") == "busy":
            raise OSError("a private copy: the file will be held open for writing")
        os.link(staged_helper(job["tools"]), helper)
    except OSError:
        shutil.copy(staged_helper(job["tools"]), helper)
    for s in range(3):
        with open(os.path.join(rundir, "raw%d" % s), "w") as fh:
            fh.write("raw%d\n" % s)
    for n in ("drv_in", "drv_out", "drv_err"):
        with open(os.path.join(rundir, n), "w") as fh:
            fh.write("drvin\n" if n == "drv_in" else "")
    dplan, c, inj = concretise(job["plan"], rundir, job["variant"], job["idx"], job.get("helper"))
    if c["mayHang"]:
        job = dict(job, timeout_ms=1500, noconfirm=True)   # SpawnFlow.tla: this plan blocks by itself
    with open(os.path.join(rundir, "plan.json"), "w") as fh:
        json.dump(dict(dplan, open=[]), fh)     # the tracer opens the RawFd sources (-f) and keeps the descriptions
    log = os.path.join(rundir, "log.ndjson")
    evf = os.path.join(rundir, "ev.ndjson")
    cmd = [os.path.join(job["tools"], "spawntrace"), "-o", log, "-t", str(job.get("timeout_ms", 4000))]
    if inj:
        cmd += ["-i", inj]
    cmd += ["-s", SCHEDULES[job["idx"] % 3]]
    stops = "s" in os.path.basename(helper).lstrip("hk0123456789")
    if stops:
        cmd.append("-D")      # a traced task never really stops: the exec'ed program is let go
    probe = job["variant"] in ("probe", "noalloc")
    for o in dplan["open"]:
        cmd += ["-f", "%d:%s:%s" % (o["fd"], "a" if o["write"] == "append" else ("w" if o["write"] else "r"), o["path"])]
    if probe:
        cmd += ["--", os.path.join(job["bindir"], "spawnp" if job["variant"] == "probe" else "spawnn")] + probe_args(dplan)
    else:
        cmd += ["--", os.path.join(job["bindir"], "spawnd"), "plan.json", evf]
    with open(os.path.join(rundir, "drv_in")) as fi, open(os.path.join(rundir, "drv_out"), "w") as fo, \
            open(os.path.join(rundir, "drv_err"), "w") as fe:
        # the tracer's own watchdog turns a hang into a `timeout` event; should the tracer itself get stuck
        # the whole tree is killed from here (PTRACE_O_EXITKILL) and the run is recorded as timed out too:
        # a hang of the code under test is data, never a tool error
        limit = max(30, 3 * job.get("timeout_ms", 4000) // 1000)
        pr = subprocess.Popen(cmd, cwd=rundir, env=dict(PENV), stdin=fi, stdout=fo, stderr=fe, start_new_session=True)
        killed = False
        try:
            pr.wait(timeout=limit)
        except subprocess.TimeoutExpired:
            killed = True
            try:
                os.killpg(pr.pid, 9)
            except OSError:
                pass
            pr.wait()
        p = pr
        # this process shares the open file descriptions the driver started with: their offsets tell
        # whether an inheriting child worked on these very descriptions
        if stops and not killed:
            # a program the tracer let go (-D) may still be on its way to its footprint and dump
            import glob as _g, time as _t
            t_end = _t.time() + (25 if job.get("isolated") else 5) * load_factor()
            while not _g.glob(helper + ".*.dump") and _t.time() < t_end:
                _t.sleep(0.01)
        inh_pos = [os.lseek(f.fileno(), 0, os.SEEK_CUR) for f in (fi, fo, fe)]
    if killed:
        with open(log, "a") as fh:
            fh.write('\n{"ev":"timeout","alive":[],"by":"check"}\n{"ev":"end","root_status":-1,"root_exited":false,"timeout":true,"inj_fired":false,"alive_at_root_exit":[]}\n')
    elif p.returncode not in (0, 4):
        raise core.ToolError("spawntrace failed rc=%d in %s: %s" % (p.returncode, rundir, open(os.path.join(rundir, "drv_err")).read()[-500:]))
    tr = []
    for l in open(log):
        try:
            if l.strip():
                tr.append(json.loads(l))
        except ValueError:
            pass                # a line cut off when the tracer was killed
    dv = []
    for l in (open(evf) if os.path.exists(evf) else []):
        try:
            dv.append(json.loads(l))
        except ValueError:
            pass
    dumps = {}
    import glob as _glob
    if stops and any(e["ev"] == "detached" for e in tr):
        # the program was let go by the tracer and may still be on its way to its dump
        import time as _time
        t_end = _time.time() + 5
        while not _glob.glob(helper + ".*.dump") and _time.time() < t_end:
            _time.sleep(0.01)
    for dpath in _glob.glob(helper + ".*.dump"):
        d = json.loads(open(dpath).read())
        dumps[d["pid"]] = d
    segs = split_rounds(tr)
    rawpos = {e["fd"]: e["pos"] for e in tr if e["ev"] == "rawpos"}
    pos = [{"inh": inh_pos[k], "raw": rawpos.get(RAWFD[k], 0)} for k in range(3)]
    out = []
    for rnd, seg in enumerate(segs, start=1):
        cr = c if rnd == 1 else dict(c, args=c["args"] + ([dplan["respawn"]["extra"]] if dplan["respawn"] and dplan["respawn"]["extra"] else []))
        cpid = next((e.get("pid") for e in seg if e["ev"] == "fork" and e["child"] == 2), None)
        dump = dumps.get(cpid)
        info = info_from_tracer(job["idx"], cr, seg) if probe else info_from_driver(job["idx"], cr, dv, rnd)
        ridx = job["idx"] + (ROUND2 if rnd == 2 else 0)
        info["pos"], info["nprog"] = pos, len(dumps)
        info["detached_status"] = helper_status(os.path.basename(helper))
        events = assemble(ridx, cr, seg, info, dump)
        out.append({"idx": ridx, "events": events, "c": cr, "dplan": dplan, "inj": inj, "tracer": seg, "driver": dv, "dump": dump,
                    "helper_kind": os.path.basename(helper).rstrip("rcs"), "round": rnd})
    # Verdicts that rest on a wall-clock limit (the watchdog, the wait for a released program's dump) are
    # only TRIPS here; _run re-runs each tripped configuration alone with a much longer limit before any
    # of them becomes a violation
    tripped = any(e["ev"] == "anomaly" and (e["what"] == "TimedOut" or (e["what"] == "NoDump" and stops))
                  for r in out for e in r["events"]) and not c["mayHang"]
    for r in out:
        r["tripped"] = tripped
    if tripped and not job.get("isolated"):
        with HANG_LOCK:
            HANGS["n"] += 1
    first = out[0]
    first["second"] = out[1] if len(out) > 1 else None
    return first


ROUND2 = 500000    # run ids of the second spawn of a re-used Command


def split_rounds(tr):
    """one segment of the tracer's log per spawn call of the caller (markers spawn:begin of task 1); a
    child belongs to the call during which it was forked and is renumbered 2, so that each segment reads
    like a single spawn"""
    rnd = 0
    segs = [[]]
    owner = {}
    for e in tr:
        t = e.get("task")
        if e["ev"] == "mark" and t == 1 and e["text"] == "spawn:begin":
            rnd += 1
            if rnd == 2:
                segs.append([])
        cur = len(segs) - 1
        if e["ev"] == "fork":
            if e["parent"] == 1 and e["child"] not in owner and cur not in owner.values():
                owner[e["child"]] = cur
                segs[cur].append(dict(e, child=2))
            else:
                segs[cur].append(e)         # an unexpected further task: the judge flags it
            continue
        if t is not None and t != 1 and t in owner:
            segs[owner[t]].append(dict(e, task=2))
        else:
            segs[cur].append(e)
    return segs


def probe_args(dplan):
    a = ["bin=" + dplan["bin"]] + ["arg=" + x for x in dplan["args"]] + ["env=" + x for x in (dplan["env"] or [])]
    if dplan.get("envnone"):
        a.append("envnone=1")
    if dplan["cwd"]:
        a.append("cwd=" + dplan["cwd"])
    for k, n in (("uid", "uid"), ("gid", "gid"), ("pgroup", "pg")):
        if dplan[k] is not None:
            a.append("%s=%d" % (n, dplan[k]))
    for k, n in (("stdin", "in"), ("stdout", "out"), ("stderr", "err")):
        v = dplan[k]
        if v is not None:
            a.append("%s=%s" % (n, v if isinstance(v, str) else "fd:%d" % v["fd"]))
    a += ["pre=%d" % x for x in dplan["pre_exec"]] + ["wait=" + ",".join(dplan["wait"])]
    if dplan.get("bulk") and "env" not in dplan.get("_noalloc", ""):
        a.append("bulk=1")
    if dplan.get("feed"):
        a.append("feed=" + dplan["feed"])
    if dplan.get("payload"):
        a.append("payload=%d" % dplan["payload"])
    if dplan.get("respawn"):
        a.append("respawn=" + (dplan["respawn"]["extra"] or "same"))
    return a


NOFD = {"link": "", "acc": -1}


def io_events_of_driver(dv, rnd):
    return [{"ev": "io", "op": e["op"], "res": e["res"], "n": int(e.get("n", 0)), "a": int(e.get("a", 0)), "b": int(e.get("b", 0)),
             "head": e.get("head", "")} for e in dv if e.get("ev") == "io" and e.get("round", 1) == rnd]


def info_from_driver(idx, c, dv, rnd=1):
    """what the std-linked driver reported about itself: descriptors before spawn, the Child's pipes, wait"""
    drv = next((e for e in dv if e.get("ev") == "driver"), None)
    ret = next((e for e in dv if e.get("ev") == "returned" and e.get("round", 1) == rnd), None)
    waited = [{"res": e["res"], "status": e.get("status") or 0} for e in dv if e.get("ev") == "waited" and e.get("round", 1) == rnd]
    if drv is None:
        raise core.ToolError("driver wrote no 'driver' event (run %d)" % idx)
    pipes = []
    for n in ("stdin", "stdout", "stderr"):
        pe = (ret or {}).get("pipes", {}).get(n) if ret and ret.get("res") == "ok" else None
        pipes.append({"link": pe["link"], "acc": pe["acc"]} if pe else dict(NOFD))
    return {"dio": [fdent(drv["fds"], i) for i in range(3)],
            "raw": [fdent(drv["fds"], RAWFD[i]) if c["io"][i] == "raw" else dict(NOFD) for i in range(3)],
            "pipes": pipes, "pgrp": drv["pgrp"], "waited": waited, "ios": io_events_of_driver(dv, rnd),
            "before": [{"fd": e["fd"], "link": e["link"], "cloexec": e["cloexec"]} for e in drv["fds"]],
            "pfds": [{"fd": e["fd"], "link": e["link"], "acc": e["acc"]} for e in (ret or {}).get("fds", [])] if ret and ret.get("res") == "ok" else []}


def info_from_tracer(idx, c, tr):
    """the same facts for the no-libc probe, which reports through markers only: the tracer lists the
    marking task's descriptors at spawn:begin and at returned:*"""
    begin = next((e for e in tr if e["ev"] == "fds" and e["task"] == 1 and e["at"] == "begin"), None)
    if begin is None:
        raise core.ToolError("probe never reached spawn:begin (run %d)" % idx)
    retfds = next((e for e in tr if e["ev"] == "fds" and e["task"] == 1 and e["at"] == "returned"), None)
    rmark = next((e for e in tr if e["ev"] == "mark" and e["task"] == 1 and e["text"].startswith("returned:ok:")), None)
    pipes = [dict(NOFD) for _ in range(3)]
    if rmark and retfds:
        nums = [int(x) for x in rmark["text"].split(":")[2].split(",")]
        pipes = [fdent(retfds["fds"], n) if n >= 0 else dict(NOFD) for n in nums]
    waited = []
    ios = []
    for e in tr:
        if e["ev"] == "mark" and e["task"] == 1 and e["text"].startswith("waited:"):
            t = e["text"].split(":")      # waited:<op>:<ok|none|err>:<status|code|none>
            waited.append({"res": t[2], "status": int(t[3]) if t[3].lstrip("-").isdigit() else 0})
        if e["ev"] == "mark" and e["task"] == 1 and e["text"].startswith("io:"):
            t = e["text"].split(":")      # io:<op>:<res>:<n>:<a>:<b>:<head hex>
            ios.append({"ev": "io", "op": t[1], "res": t[2], "n": int(t[3]), "a": int(t[4]), "b": int(t[5]),
                        "head": bytes.fromhex(t[6]).decode("latin-1") if len(t) > 6 and t[6] else ""})
    return {"dio": [fdent(begin["fds"], i) for i in range(3)],
            "raw": [fdent(begin["fds"], RAWFD[i]) if c["io"][i] == "raw" else dict(NOFD) for i in range(3)],
            "pipes": pipes, "pgrp": begin["pgrp"], "waited": waited, "ios": ios,
            "before": [{"fd": e["fd"], "link": e["link"], "cloexec": e["cloexec"]} for e in begin["fds"]],
            "pfds": [{"fd": e["fd"], "link": e["link"], "acc": e["acc"]} for e in retfds["fds"]] if (rmark and retfds) else []}


def fdent(table, fd):
    for e in table or []:
        if e["fd"] == fd:
            return {"link": e["link"], "acc": e["acc"]}
    return {"link": "", "acc": -1}


def assemble(idx, c, tr, info, dump):
    """merge tracer log, driver-reported facts and helper dump into the event list SpawnTrace.tla reads"""
    facts = {"dio": info["dio"], "raw": info["raw"], "pipes": info["pipes"], "pgrp": info["pgrp"], "pfds": info["pfds"], "before": info["before"],
             "pos": info.get("pos", [{"inh": 0, "raw": 0}] * 3), "nprog": info.get("nprog", 0)}
    waited = info["waited"]
    out = [{"ev": "reset", "run": idx, "cfg": c, "facts": facts}]
    returned = False
    for e in tr:
        k = e["ev"]
        if k == "sys" and e["task"] == 1 and returned and e["nr"] != "wait4":
            continue   # the driver's own calls after spawn returned (only Child::wait is tiny-std's)
        if k == "mark":
            t = e["text"].split(":")
            if t[0] == "returned":
                code = 0 if t[1] == "ok" else (NOCODE if t[2] == "none" else int(t[2]))
                out.append({"ev": "mark", "task": e["task"], "kind": "returned", "res": t[1], "code": code, "execd": e["execd"]})
                returned = returned or e["task"] == 1
            elif t[0] == "pre":
                out.append({"ev": "mark", "task": e["task"], "kind": "pre", "idx": int(t[1]), "execd": e["execd"]})
            elif t[0] == "alloc":
                out.append({"ev": "mark", "task": e["task"], "kind": "alloc", "execd": e["execd"]})
        elif k == "sys":
            ev = {"ev": "sys", "task": e["task"], "nr": e["nr"], "ret": e["ret"], "inj": e["inj"]}
            if e["nr"] == "wait4" and e["ret"] > 0:
                ev["reaped"] = e.get("reaped", 0)
            if e["nr"] == "chdir":
                ev["path"] = e.get("path", "")
            out.append(ev)
        elif k == "fork":
            out.append({"ev": "fork", "parent": e["parent"], "child": e["child"]})
        elif k == "exec":
            out.append({"ev": "exec", "task": e["task"], "path": e["path"], "argv": e["argv"], "envp": e["envp"], "ret": e["ret"]})
            if e.get("unreadable"):
                out.append({"ev": "anomaly", "what": "ExecveVectorsUnreadable"})
            if e["ret"] == 0:
                if dump is not None and dump.get("pid") is not None:
                    out.append({"ev": "dump", "exe": dump["exe"], "argv": dump["argv"], "envp": dump["envp"], "cwd": dump["cwd"],
                                "io": [fdent(dump["fds"], i) for i in range(3)], "uid": dump["uid"], "gid": dump["gid"],
                                "pgrp": dump["pgrp"], "pid": dump["pid"], "stdin_read": dump.get("stdin_read", ""),
                                "allfds": [{"fd": x["fd"], "link": x["link"], "acc": x["acc"]} for x in dump["fds"]]})
                else:
                    out.append({"ev": "anomaly", "what": "NoDump"})
        elif k == "exit":
            out.append({"ev": "exit", "task": e["task"], "status": e["status"]})
        elif k == "timeout":
            out.append({"ev": "anomaly", "what": "TimedOut"})
        elif k == "detached" and e["task"] == 2:
            # no exit event from the tracer for a program that was let go: it ends the way its name says
            out.append({"ev": "exit", "task": 2, "status": info["detached_status"]})
        elif k == "flood":
            out.append({"ev": "anomaly", "what": "CallFlood"})      # a task repeating a call without end
    out += info["ios"]
    for w in waited:
        out.append({"ev": "waited", "res": w["res"], "status": w["status"]})
    out.append({"ev": "end"})
    return out


# ------------------------------------------------------------------------------------------------
# B1: does the real code still follow the model (per-process call sequences, outcome)?
# ------------------------------------------------------------------------------------------------
def observed_hist(run, plan):
    h = {1: [], 2: []}
    returned = False
    for e in run["tracer"]:
        t = e.get("task")
        if t not in h:
            continue
        if e["ev"] == "mark" and t == 1 and e["text"].startswith("returned"):
            returned = True
        if e["ev"] == "sys" and t == 1 and returned and e["nr"] != "wait4":
            continue
        if e["ev"] == "sys" and e["nr"] != "close":
            if e["ret"] < 0:
                r = -e["ret"]
            elif e["inj"] and e["nr"] == "read":
                r = -e["ret"]
            else:
                r = 0
            h[t].append([e["nr"], r])
        elif e["ev"] == "exec":
            h[t].append(["execve", -e["ret"] if e["ret"] < 0 else 0])
        elif e["ev"] == "mark" and e["text"].startswith("pre:") and t == 2:
            i = int(e["text"].split(":")[1])
            pre = plan["cfg"]["pre"]
            h[t].append(["pre_exec", pre[i - 1] if i <= len(pre) else 0])
    return h


def conformance(run, plan, verdict):
    if plan.get("synthetic"):
        return []          # data-flow plans are predicted by SpawnFlow.tla, judged by the DataFlow clause
    h = observed_hist(run, plan)
    # Child::try_wait polls: wait4(WNOHANG) returning 0 any number of times before the final one
    p1 = []
    for x in h[1]:
        if x == ["wait4", 0] and p1 and p1[-1] == ["wait4", 0]:
            continue
        p1.append(x)
    h[1] = p1
    mp = []
    for x in plan["hist"]["P"]:
        if x[0] == "close" or (x == ["wait4", 0] and mp and mp[-1] == ["wait4", 0]):
            continue
        mp.append(x)
    mc = [x for x in plan["hist"]["C"] if x[0] != "close"]
    diffs = []
    if h[1] != mp:
        diffs.append({"what": "caller call sequence", "model": mp, "real": h[1]})
    if h[2] != mc:
        diffs.append({"what": "child call sequence", "model": mc, "real": h[2]})
    mr = [[r["proc"], r["res"], r["code"]] for r in plan["returns"]]
    rr = [[r["proc"], r["res"], r["code"]] for r in verdict["returns"]]
    if mr != rr:
        diffs.append({"what": "returns", "model": mr, "real": rr})
    if plan["execd"] != verdict["execd"]:
        diffs.append({"what": "execd", "model": plan["execd"], "real": verdict["execd"]})
    mw = [[w["res"], w["status"]] for w in plan["waits"]]
    rw = [[w["res"], w["status"]] for w in verdict["waits"]]
    if run.get("helper_kind", "h7") == "h7":
        # a single try_wait may or may not find the child finished: compare the shape only where the
        # model says so too; statuses are comparable when the helper exits with 7 like the model's
        if [x[0] for x in mw] != [x[0] for x in rw] and "try" not in plan["cfg"].get("wseq", []):
            diffs.append({"what": "wait results", "model": mw, "real": rw})
        elif any(a[0] == "ok" and b[0] == "ok" and a[1] != b[1] for a, b in zip(mw, rw)):
            diffs.append({"what": "wait status", "model": mw, "real": rw})
    return diffs


# ------------------------------------------------------------------------------------------------
# B2: TLC judges the recorded runs
# ------------------------------------------------------------------------------------------------
def judge(chk, runs, tag):
    """returns ({run idx: verdict}, [TlcResult])"""
    verdicts = {}
    results = []
    B = 1500
    for k in range(0, len(runs), B):
        part = runs[k:k + B]
        path = os.path.join(chk.work, "trace_%s_%d.ndjson" % (tag, k))
        evs = []
        for r in part:
            evs += r["events"]
        core.write_ndjson(path, evs)
        md = os.path.join(core.WORK, "tlc-meta", "SpawnTrace-%d-%s-%d" % (os.getpid(), tag, k))
        res = core.run_tlc("SpawnTrace.tla", "SpawnTrace.cfg", workers=1, env={"TRACE": path}, timeout=3000,
                           xmx="4g", xss="512m", deque=True, metadir=md)
        core.tlc_must_pass(res, "SpawnTrace")
        vs = res.printed("VERDICT")
        done = res.printed("JUDGED")
        if len(vs) != len(part) or len(done) != 1:
            raise core.ToolError("SpawnTrace judged %d of %d runs: %s" % (len(vs), len(part), res.out[-2000:]))
        results.append(res)
        for v in vs:
            verdicts[v["run"]] = v
    return verdicts, results


def signature(plan, variant, clause, verdict):
    """identity of a violation: the clause, the steps that failed in that run (side/step), the build"""
    steps = sorted({"%s/%s" % ("caller" if f["proc"] == "P" else "child", f["step"]) for f in verdict.get("failed", [])})
    sig = {"clause": clause, "failed": "+".join(steps) if steps else "none", "start": VARIANTS[variant][1]}
    if alias_class(plan["cfg"]["io"]):
        sig["alias"] = alias_class(plan["cfg"]["io"])
    if plan.get("round", 1) == 2:
        sig["respawn"] = plan["cfg"].get("respawn")
    if plan.get("flow"):
        sig["flow_io"] = "/".join(plan["flow"]["plan"]["io"])
    if clause in ("OkMeansConfigured", "AttemptIsConfigured"):
        sig["mismatch"] = "+".join(sorted(verdict.get("mismatch", [])))
    return sig


# ------------------------------------------------------------------------------------------------
def run(tier):
    try:
        return _run(tier)
    finally:
        stage_cleanup()


def _run(tier):
    chk = core.Check("C13", tier, "model_checking")
    import time
    t0 = time.time()
    allruns = 0
    nontrivial = 0
    drift = []
    per_action = {}
    clause_runs = {}
    leads = {}
    tools = build_tools()
    with concurrent.futures.ThreadPoolExecutor(max_workers=6) as ex:
        futs = {v: ex.submit(tlc_plans, chk, tier, VARIANTS[v][1]) for v in set(MODEL_OF.values())}
        sfuts = model_selftest_jobs(chk, ex)
        cfut = ex.submit(_action_coverage, chk)
        ffut = ex.submit(flow_outcomes, chk)
        tlcres = {v: futs[MODEL_OF[v]].result() for v in VARIANTS}
        flowres = core.tlc_must_pass(ffut.result(), "SpawnFlow_MC")
        chk.add_tlc(flowres)
        flows = flowres.printed("FLOW")
        if len(flows) != 3456:
            raise core.ToolError("SpawnFlow_MC printed %d outcomes, expected 3456" % len(flows))
        chk.extra["model_selftest"] = {k: f.result() for k, f in sfuts.items()}
        cov = cfut.result()
        chk.extra["model_action_coverage_tiny"] = cov
        # CallerCopyExits only exists under the deviation ChildReturnsErr (exercised by the self-test)
        chk.extra["model_actions_not_exercised"] = sorted(a for a, n in cov.items() if n == 0 and a not in ("CallerCopyExits", "Next"))
    core.log("Spawn_MC x2 + model self-test %.1fs" % (time.time() - t0))
    def variant_work(variant, seed):
        template = VARIANTS[variant][0]
        res = tlcres[variant]
        core.tlc_must_pass(res, "Spawn_MC (%s)" % variant)
        plans = {}
        for p in res.printed("PLAN"):
            plans.setdefault(plan_key(p), p)
        plans = [plans[k] for k in sorted(plans)]
        if not plans:
            raise core.ToolError("Spawn_MC generated no plan")
        if any(set(p["viol"]) - ({"OkMeansConfigured"} if alias_class(p["cfg"]["io"]) == "source-overwritten" else set()) for p in plans):
            raise core.ToolError("model inconsistent: plan with violated clauses although AbsHolds passed")
        round2 = {json.dumps([p["cfg"], p["fault"]], sort_keys=True): p for p in plans if p.get("round", 1) == 2}
        plans = [p for p in plans if p.get("round", 1) == 1]
        # a re-used Command needs both of its spawns predicted; the no-alloc API has no Command
        plans = [p for p in plans if p["cfg"].get("respawn", "none") == "none"
                 or (variant != "noalloc" and json.dumps([p["cfg"], p["fault"]], sort_keys=True) in round2)]
        if variant == "noalloc":
            plans = [p for p in plans if p["cfg"]["nenv"] == 0]     # no provided environment without alloc
        chosen, n_nofault, n_groups = select_plans(plans, tier, random.Random(seed))
        fl_ok, fl_hang = select_flows(flows, tier, random.Random(seed))
        info = {"generated_by_tlc": len(plans), "executed_plans": len(chosen), "configurations_without_fault": n_nofault,
                "fault_x_outcome_classes": n_groups, "model_states": res.distinct,
                "flow_plans_executed": len(fl_ok), "flow_plans_blocking_by_themselves_executed": len(fl_hang),
                "reused_command_plans": len([p for p in chosen if p["cfg"].get("respawn", "none") != "none"])}
        bindir = core.cargo_build(template=template, bins=None if template.startswith("probe/") else ["spawnd"])
        base = os.path.join(stage_dir(), "runs-" + variant)
        if os.path.isdir(base):
            shutil.rmtree(base)
        os.makedirs(base)
        os.chmod(base, 0o755)
        jobs = []
        for p in chosen:
            kinds = [None]
            if p["cfg"].get("wseq", ["wait"]) != ["wait"] and p["fault"]["k"] == 0:
                kinds = WAIT_HELPERS          # every call sequence with exit code / code >= 128 / signal
            for kind in kinds:
                i = len(jobs) + 1
                jobs.append({"idx": i, "plan": p, "variant": variant, "rundir": os.path.join(base, "r%05d" % i),
                             "bindir": bindir, "tools": tools, "helper": kind,
                             "plan2": round2.get(json.dumps([p["cfg"], p["fault"]], sort_keys=True))})
        for o in fl_ok + fl_hang:
            i = len(jobs) + 1
            fcfg = {"nargs": 1, "nenv": 0, "cwd": "none", "uid": "unset", "gid": "unset", "pg": "unset", "io": list(o["plan"]["io"]),
                    "pre": [], "prog": "ok", "wseq": ["wait"], "respawn": "none"}
            fplan = {"cfg": fcfg, "fault": {"p": "-", "sys": "-", "k": 0, "err": 0}, "flow": o, "synthetic": True}
            jobs.append({"idx": i, "plan": fplan, "variant": variant, "rundir": os.path.join(base, "r%05d" % i),
                         "bindir": bindir, "tools": tools, "helper": "h7c", "plan2": None})
        t1 = time.time()
        with concurrent.futures.ThreadPoolExecutor(max_workers=3) as ex2:
            runs = list(ex2.map(execute, jobs))
        done = []
        for r, j in zip(runs, jobs):
            if r is None:
                continue
            done.append((r, j))
            if r.get("second") is not None and j.get("plan2") is not None:
                done.append((r["second"], dict(j, plan=j["plan2"])))
        runs, jobs = [r for r, _ in done], [j for _, j in done]
        t2 = time.time()
        verdicts, jres = judge(chk, runs, variant)
        core.log("%s: %d real runs %.1fs, SpawnTrace judge %.1fs" % (variant, len(runs), t2 - t1, time.time() - t2))
        return info, jobs, runs, verdicts, jres

    t0 = time.time()
    with concurrent.futures.ThreadPoolExecutor(max_workers=4) as ex:
        vf = {v: ex.submit(variant_work, v, chk.seed) for v in VARIANTS}
        vres = {v: vf[v].result() for v in VARIANTS}
    core.log("all variants built, executed and judged %.1fs (includes waiting for the shared cargo lock)" % (time.time() - t0))
    t0 = time.time()
    trips = {"confirmed": [], "not_reproduced": [], "not_individually_confirmed": 0}
    for variant in VARIANTS:
        info, jobs, runs, verdicts, jres = vres[variant]
        n = confirm_trips(chk, runs, jobs, verdicts, variant)      # serial, nothing else running
        trips["confirmed"] += n["confirmed"]
        trips["not_reproduced"] += n["not_reproduced"]
        trips["not_individually_confirmed"] += n["not_individually_confirmed"]
    chk.extra["wall_clock_trips_confirmed_alone_2_of_2"] = {"count": len(trips["confirmed"]), "cfgs": trips["confirmed"][:6]}
    chk.extra["wall_clock_trips_not_reproduced"] = {"count": len(trips["not_reproduced"]), "cfgs": trips["not_reproduced"][:6]}
    chk.extra["wall_clock_trips_not_individually_confirmed"] = trips["not_individually_confirmed"]
    for variant in VARIANTS:
        info, jobs, runs, verdicts, jres = vres[variant]
        if MODEL_OF[variant] == variant:
            chk.add_tlc(tlcres[variant])
        for r in jres:
            chk.add_tlc(r)
        chk.extra["plans_%s" % variant] = info
        for r, job in zip(runs, jobs):
            v = verdicts[r["idx"]]
            plan = job["plan"]
            allruns += 1
            chk.evaluations += 1
            if v["failed"]:
                nontrivial += 1
            for e in r["events"]:
                key = e["ev"] + (":" + e["nr"] if e["ev"] == "sys" else "") + (":" + e["kind"] if e["ev"] == "mark" else "")
                per_action[key] = per_action.get(key, 0) + 1
            clauses = list(v["viol"]) + ["Anomaly:" + a for a in v["anomalies"]]
            for ld in v.get("leads", []):
                leads[ld] = leads.get(ld, 0) + 1
            d = conformance(r, plan, v)
            if d:
                drift.append({"variant": variant, "cfg": plan["cfg"], "fault": plan["fault"], "first": d[0]})
            if not clauses and not v.get("unconfirmed_trip"):
                chk.traces += 1
            for cl in clauses:
                sig = signature(plan, variant, cl, v)
                clause_runs[cl] = clause_runs.get(cl, 0) + 1
                what = "%s violated (%s build): cfg=%s fault=%s -> returns=%s failed=%s child=%s execd=%s%s" % (
                    cl, variant, json.dumps(plan["cfg"], sort_keys=True), json.dumps(plan["fault"], sort_keys=True),
                    json.dumps(v["returns"]), json.dumps(v["failed"]), v["child"], v["execd"],
                    ((" mismatch=%s" % v["mismatch"]) if v.get("mismatch") else "") +
                    ((" flow plan=%s got=%s" % (json.dumps(plan["flow"]["plan"]), json.dumps(v.get("ios")))) if plan.get("flow") else "") +
                    (" (second spawn of the same Command)" if r.get("round") == 2 else ""))
                chk.violate(sig, what, {"variant": variant, "plan": plan, "helper": job.get("helper"), "driver_plan": r["dplan"], "inject": r["inj"],
                                        "verdict": v, "events": r["events"]})
            if allruns % 97 == 1:
                chk.sample({"variant": variant, "cfg": plan["cfg"], "fault": plan["fault"],
                            "returns": v["returns"], "execd": v["execd"], "failed": v["failed"]})
    core.log("verdicts and conformance evaluated %.1fs" % (time.time() - t0))
    t0 = time.time()
    chk.extra["judge_selftest"] = {k: v["ok"] for k, v in judge_selftest(chk).items()}
    core.log("judge self-test %.1fs" % (time.time() - t0))
    chk.nontrivial = nontrivial
    chk.rule = ("one evaluation = one execution of the real Command::spawn (driver spawnd, with and without feature "
                "`start`) under the ptrace tracer along a TLC-generated configuration x fault plan, judged by TLC "
                "(SpawnTrace.tla); non-trivial = runs in which at least one step failed (injected or configured: missing "
                "cwd / program, failing pre-exec closure)")
    chk.exhaustive = False
    if HANGS["n"]:
        chk.extra["hangs"] = dict(HANGS)
    chk.extra["model_conformance"] = not drift
    chk.extra["model_drift"] = drift[:10]
    chk.extra["model_drift_runs"] = len(drift)
    chk.extra["events_validated_per_kind"] = per_action
    chk.extra["clauses_violated_runs"] = clause_runs
    chk.extra["leads_not_verdicts_runs"] = leads
    chk.assumptions = [
        "model checking is exhaustive over the configuration x single-fault space of Spawn_MC.tla (every stdio "
        "combination on a base command and on a command using every other setting; the other dimensions with one (quick) / two (thorough) stdio tables); real executions cover every "
        "fault-free configuration of that space and, per (fault, predicted outcome) class, %d configurations" % (2 if tier == "quick" else 12),
        "a verdict that rests on a wall-clock limit (watchdog, wait for a released program's dump) needs the timeout "
        "reproduced in 2 of 2 re-runs of that configuration alone with a 5x limit scaled by the load; at most 3 "
        "configurations per run of the check are confirmed that way, further trips give no verdict",
        "one injected failure per run; injected failures suppress the call (close: executed, result overwritten)",
        "caller/child interleaving: a third of the runs each free, caller-blocked-in-read-before-the-child-moves, "
        "child-finished-before-the-caller-closes-its-write-end (enforced by the tracer)",
        "the tracer's log order is causal per task; across tasks only through system-call stops, so 'the child had "
        "exec'ed when Ok was returned' is checked as 'the child did exec' (timing is checked in the model only)",
        "std-linked `start` build: Environment::Inherit passes tiny-std's never-initialised ENV.env_p (NULL) - both "
        "the caller's environment and the empty one are admitted there; real inherit needs tiny-std's own _start (not reached)",
        "uid/gid/pgroup: only the caller's own ids (runs as root); failures of setuid/setgid/setpgid are injected",
        "signals during spawn are not reached",
    ]
    return chk.finish()


FIXTURE = os.path.join(os.path.dirname(os.path.abspath(__file__)), "c13_fixture.json")


def record_fixture():
    """(maintenance) record the two base traces of the judge self-test from the current tree"""
    chk = core.Check("C13", "quick", "model_checking")
    tools = build_tools()
    bindir = core.cargo_build(template="harness", bins=["spawnd"])
    base_cfg = {"nargs": 2, "nenv": 2, "cwd": "ok", "uid": "own", "gid": "own", "pg": "own",
                "io": ["null", "pipe", "raw"], "pre": [0], "prog": "ok"}
    nof = {"p": "-", "sys": "-", "k": 0, "err": 0}
    flow = {"plan": {"io": ["pipe", "pipe", "pipe"], "n": 3, "ops": ["W", "C", "RO", "RE", "wait"]}, "hung": False, "cgot": 3, "cerrs": 2,
            "res": [{"op": "W", "res": "ok", "n": 3}, {"op": "C", "res": "ok", "n": 0}, {"op": "RO", "res": "eof", "n": 3},
                    {"op": "RE", "res": "eof", "n": 2}, {"op": "wait", "res": "ok", "n": 0}]}
    fcfg = dict(base_cfg, io=["pipe", "pipe", "pipe"], cwd="none", uid="unset", gid="unset", pg="unset", pre=[], nenv=0, nargs=1)
    plans = [{"cfg": base_cfg, "fault": nof},
             {"cfg": base_cfg, "fault": {"p": "C", "sys": "chdir", "k": 1, "err": 13}},
             {"cfg": fcfg, "fault": nof, "flow": flow, "synthetic": True}]
    runs = []
    for i, p in enumerate(plans):
        r = execute({"idx": i + 1, "plan": p, "variant": "start", "bindir": bindir, "tools": tools,
                     "helper": "h7c" if p.get("flow") else None,
                     "rundir": os.path.join(stage_dir(), "fixture", "r%d" % (i + 1))})
        runs.append({"idx": r["idx"], "events": r["events"]})
    with open(FIXTURE, "w") as fh:
        json.dump(runs, fh, indent=0)
    stage_cleanup()
    return runs


def judge_selftest(chk):
    """Anti-vacuity of the trace judge: two recorded runs of the real code (one Ok, one Err after an
    injected chdir failure in the child; stored in c13_fixture.json so that the test does not depend
    on the tree under test) are accepted; copies with one corrupted field / one dropped event must
    be rejected by TLC with the expected clause."""
    import copy
    ok, err, flw = json.load(open(FIXTURE))

    def variant(run, idx, f):
        r = copy.deepcopy(run)
        r["idx"] = idx
        r["events"][0]["run"] = idx
        r["events"] = f(r["events"])
        return r

    def setf(kind, pred, **kw):
        def f(evs):
            for e in evs:
                if e["ev"] == kind and pred(e):
                    e.update(kw)
                    break
            return evs
        return f
    def upd_io(op, **kw):
        def f(evs):
            for e in evs:
                if e["ev"] == "io" and e["op"] == op:
                    e.update(kw)
            return evs
        return f

    def stray(where):
        def f(evs):
            link = evs[0]["facts"]["pipes"][1]["link"]           # the stdout pipe
            if where == "parent":
                evs[0]["facts"]["pfds"].append({"fd": 99, "link": link, "acc": 1})
            else:
                for e in evs:
                    if e["ev"] == "dump":
                        e["allfds"].append({"fd": 99, "link": link, "acc": 0})
            return evs
        return f

    def swap_out_err(evs):
        ro = next(e for e in evs if e["ev"] == "io" and e["op"] == "RO")
        re_ = next(e for e in evs if e["ev"] == "io" and e["op"] == "RE")
        for k in ("n", "a", "b", "head", "res"):
            ro[k], re_[k] = re_[k], ro[k]
        return evs
    cases = [
        ("unchanged-flow", flw, lambda evs: evs, None),
        ("stdout-bytes-missing", flw, upd_io("RO", n=65536), "DataFlow"),
        ("stdout-bytes-reordered", flw, upd_io("RO", b=1), "DataFlow"),
        ("stdin-write-short", flw, upd_io("W", n=4096), "DataFlow"),
        ("stdout-stderr-crossed", flw, swap_out_err, "DataFlow"),
        ("stderr-marker-lost", flw, upd_io("RE", n=8, head="ERRMARK\n"), "DataFlow"),
        ("stray-write-end-in-caller", flw, stray("parent"), "NoStrayPipeEnds"),
        ("stray-read-end-in-child", flw, stray("child"), "NoStrayPipeEnds"),
        ("hang-in-a-plan-that-cannot-block", flw, lambda evs: evs[:-1] + [{"ev": "anomaly", "what": "TimedOut"}, evs[-1]], "Anomaly:TimedOut"),
        ("unchanged-ok", ok, lambda evs: evs, None),
        ("unchanged-err", err, lambda evs: evs, None),
        ("return-in-child", err, setf("mark", lambda e: e["kind"] == "returned", task=2), "ReturnsOnlyInCaller"),
        ("exec-event-dropped", ok, lambda evs: [e for e in evs if e["ev"] not in ("exec", "dump")], "OkMeansExec"),
        ("errno-changed", err, setf("mark", lambda e: e["kind"] == "returned", code=14), "ErrCarriesErrno"),
        ("errno-negative", err, setf("mark", lambda e: e["kind"] == "returned", code=-13), "ErrCarriesErrno"),
        ("ok-despite-failure", err, setf("mark", lambda e: e["kind"] == "returned", res="ok", code=0), "OkMeansExec"),
        ("argv-changed", ok, setf("dump", lambda e: True, argv=["x"]), "OkMeansConfigured"),
        ("cwd-changed", ok, setf("dump", lambda e: True, cwd="/"), "OkMeansConfigured"),
        ("stdout-not-the-pipe", ok, lambda evs: [dict(e, io=[e["io"][0], e["io"][2], e["io"][2]]) if e["ev"] == "dump" else e for e in evs], "OkMeansConfigured"),
        ("wait-status-changed", ok, setf("waited", lambda e: True, status=3584), "WaitStatus"),
        ("err-while-the-child-runs-the-program", ok, setf("mark", lambda e: e["kind"] == "returned", res="err", code=4), "ErrLeavesNoRunningChild"),
        ("later-wait-says-echild", ok, lambda evs: evs[:-1] + [{"ev": "waited", "res": "err", "status": 10}, evs[-1]], "WaitStatusStable"),
        ("later-wait-other-status", ok, lambda evs: evs[:-1] + [{"ev": "waited", "res": "ok", "status": 0}, evs[-1]], "WaitStatusStable"),
        ("later-try-wait-says-running", ok, lambda evs: evs[:-1] + [{"ev": "waited", "res": "none", "status": 0}, evs[-1]], "WaitStatusStable"),
        ("try-none-before-ok-is-fine", ok, lambda evs: [x for e in evs for x in ([{"ev": "waited", "res": "none", "status": 0}, e] if e["ev"] == "waited" else [e])], None),
        ("same-status-again-is-fine", ok, lambda evs: [x for e in evs for x in ([e, dict(e)] if e["ev"] == "waited" else [e])], None),
        ("no-return", ok, lambda evs: [e for e in evs if not (e["ev"] == "mark" and e["kind"] == "returned")], "ReturnsExactlyOnceInCaller"),
        ("child-never-exits", err, lambda evs: [e for e in evs if not (e["ev"] == "exit" and e["task"] == 2)], "NoneLeftRunning"),
        ("hang", ok, lambda evs: evs[:-1] + [{"ev": "anomaly", "what": "TimedOut"}, evs[-1]], "Anomaly:TimedOut"),
    ]
    vr = [variant(r, i + 1, f) for i, (_n, r, f, _x) in enumerate(cases)]
    verdicts, jres = judge(chk, vr, "selftest")
    out = {}
    for i, (name, _r, _f, expect) in enumerate(cases):
        v = verdicts[i + 1]
        got = list(v["viol"]) + ["Anomaly:" + a for a in v["anomalies"]]
        good = (not got) if expect is None else (expect in got)
        out[name] = {"expected": expect, "got": got, "ok": good}
        if not good:
            raise core.ToolError("judge self-test %s: expected %s, TLC reported %s" % (name, expect, got))
    return out


def selftest():
    chk = core.Check("C13", "quick", "model_checking")
    tools = build_tools()
    with concurrent.futures.ThreadPoolExecutor(max_workers=4) as ex:
        ms = {k: f.result() for k, f in model_selftest_jobs(chk, ex).items()}
    js = judge_selftest(chk)
    print(json.dumps({"model": ms, "judge": js}, indent=1))
    print("C13 selftest OK")
    return 0


def replay(path):
    try:
        return _replay(path)
    finally:
        stage_cleanup()


def _replay(path):
    rp = json.load(open(path))["replay"]
    chk = core.Check("C13", "quick", "model_checking")
    tools = build_tools()
    variant = rp["variant"]
    bindir = core.cargo_build(template=VARIANTS[variant][0], bins=None if VARIANTS[variant][0].startswith("probe/") else ["spawnd"])
    job = {"idx": 1, "plan": rp["plan"], "variant": variant, "rundir": os.path.join(stage_dir(), "replay", "r1"),
           "bindir": bindir, "tools": tools, "helper": rp.get("helper")}
    r = execute(job)
    v = judge(chk, [r], "replay")[0][1]
    for e in r["events"]:
        print(json.dumps(e))
    print("verdict:", json.dumps(v))
    return 1 if (v["viol"] or v["anomalies"]) else 0
