"""X01 (growth check, not one of the 20 listed properties) - readiness multiplexing:
tiny_std::linux::epoll::EpollDriver, rusl::select::{epoll_create, epoll_ctl, epoll_del,
epoll_wait, ppoll}.

Specification: specs/Epoll.tla (interest list, object readiness as Req/Allowed event sets,
level / edge / one-shot semantics, the clauses a Wait result must satisfy), model-checked on
small constants (Epoll_MC*.cfg); specs/EpollGen.tla generates operation sequences (random walks
of the model); harness/src/bin/epollops.rs executes them on real pipes and socketpairs through
the API under test; specs/EpollTrace.tla replays the recorded results (B2)."""
import json
import os
import subprocess

from vlib import core

KINDS = {"K1": ["sock"], "K2": ["sock", "pipe_r"], "K2b": ["pipe_w", "sock"], "K3": ["sock", "pipe_r", "pipe_w"]}
PROBES = ["ProbeEdgeNo", "ProbeDisabled"]


def model_check(chk, tier):
    out = {}
    for cfg in (["Epoll_MCq.cfg"] if tier == "quick" else ["Epoll_MCq.cfg", "Epoll_MCt.cfg", "Epoll_MCt2.cfg"]):
        res = core.run_tlc("Epoll_MC.tla", cfg, workers=6, timeout=1500, xmx="4g")
        core.tlc_must_pass(res, cfg)
        chk.add_tlc(res)
        out[cfg] = res.distinct
    for p in PROBES:
        res = core.run_tlc("Epoll_MC.tla", "Epoll_MC_%s.cfg" % p, workers=2, timeout=300, xmx="1g")
        if p not in res.invariant_violated:
            raise core.ToolError("Epoll probe %s not reachable" % p)
        out[p] = "reachable"
    return out


def generate(chk, tier):
    """random walks of EpollGen -> list of (kinds, ops)"""
    num = 45 if tier == "quick" else 500
    depth = 14 if tier == "quick" else 22
    seqs, seen = [], set()
    for k, (kname, kinds) in enumerate(KINDS.items()):
        cfg = os.path.join(chk.work, "EpollGen_%s.cfg" % kname)
        with open(cfg, "w") as f:
            f.write("CONSTANTS\n  Objs = {%s}\n  Kind <- %s\n  MaxRx = 3\n  Masks <- MasksG\n  DataOf <- Data\n  Depth = %d\n"
                    "  Timeouts <- TOs\n  PollMasks <- PollM\nINIT GInit\nNEXT GNext\nINVARIANT Emit\nCONSTRAINT Bound\nCHECK_DEADLOCK FALSE\n"
                    % (", ".join(str(i + 1) for i in range(len(kinds))), kname, depth))
        res = core.run_tlc("EpollGen_MC.tla", cfg, workers=1, simulate=num, depth=depth + 1, seed=chk.seed * 100 + k,
                           timeout=900, xmx="2g")
        if res.errors:
            raise core.ToolError("EpollGen failed: %s" % res.out[-1500:])
        import re
        m = re.search(r"The number of states generated: (\d+)", res.out)
        if m:
            chk.transitions += int(m.group(1))
        for ops in res.printed("SEQ"):
            key = json.dumps(ops, sort_keys=True)
            if key in seen:
                continue
            seen.add(key)
            seqs.append((kinds, ops))
    if len(seqs) < 20:
        raise core.ToolError("EpollGen produced only %d sequences" % len(seqs))
    return seqs


def run_driver(bindir, path, start, watchdog_s):
    env = dict(os.environ, X01_WATCHDOG_S=str(int(watchdog_s)))
    try:
        p = subprocess.run([os.path.join(bindir, "epollops"), path, str(start)], stdout=subprocess.PIPE, stderr=subprocess.PIPE,
                           text=True, timeout=3600, env=env)
    except subprocess.TimeoutExpired:
        raise core.ToolError("epollops driver exceeded 3600 s")
    got = []
    for line in p.stdout.splitlines():
        try:
            got.append(json.loads(line))
        except ValueError:
            pass
    return p, got


def execute(chk, bindir, plan, tag):
    """The only wall-clock based observation of X01 is the driver's watchdog ("an operation did not
    return"): its limit is stretched by the load factor, and a trip becomes a `hang` record (and so a
    verdict) only if it is reproduced in 2 of 2 re-runs of that sequence ALONE with a >= 5x limit."""
    from checks import sysinj_common as SJ
    path = os.path.join(chk.work, "plan_%s.ndjson" % tag)
    core.write_ndjson(path, plan)
    by = {p["seq"]: p for p in plan}
    events = []
    start = 0
    runs = 0
    trips = []
    last_seq = plan[-1]["seq"]
    while start <= last_seq:
        runs += 1
        base = 5 * SJ.load_factor()
        p, got = run_driver(bindir, path, start, base)
        if p.returncode == 0:
            events += got
            break
        if not got:
            raise core.ToolError("epollops died without output (rc=%s): %s" % (p.returncode, p.stderr[-1500:]))
        lastev = got[-1]
        seq = lastev["seq"]
        if p.returncode == 3:
            # watchdog trip in sequence `seq`: re-confirm alone
            single = os.path.join(chk.work, "plan_%s_reconfirm.ndjson" % tag)
            core.write_ndjson(single, [by[seq]])
            reproduced = 0
            clean = None
            for _ in range(2):
                p2, got2 = run_driver(bindir, single, seq, max(25, 5 * base) * SJ.load_factor())
                if p2.returncode == 3:
                    reproduced += 1
                elif p2.returncode == 0:
                    clean = got2
                    break
            if reproduced < 2 and clean is not None:
                trips.append({"seq": seq, "op": lastev.get("i"), "limit_s": round(base, 1)})
                got = [e for e in got if e["seq"] != seq] + clean
        else:
            # the driver crashed inside an operation: the next operation of that sequence never returned
            got.append({"seq": seq, "i": lastev["i"] + 1, "crash": True, "stderr": p.stderr[-300:]})
        events += got
        start = seq + 1
        if runs > 500:
            raise core.ToolError("too many driver restarts")
    chk.extra["wall_clock_trips_not_reproduced"] = trips
    return events, runs


def normalise(e, op):
    """driver line -> event for EpollTrace (ok / hang / errno instead of the polymorphic res)"""
    ev = dict(op)
    ev.update(e)
    r = ev.pop("res", None)
    ev["ok"] = r == "ok"
    ev["hang"] = bool(ev.pop("hang", False) or ev.pop("crash", False))
    ev["errno"] = 0 if not isinstance(r, dict) else (r["err"] if isinstance(r.get("err"), int) else -1)
    ev.pop("msg", None)
    ev.pop("stderr", None)
    for c in ev.get("calls", []):
        c.pop("err", None)
    for k, d in (("n", 0), ("us", 0), ("events", []), ("revents", []), ("max", 1), ("timeout", 0)):
        ev.setdefault(k, d)
    return ev


def canaries():
    """synthetic recorded sequences, each breaking one clause; EpollTrace must flag every one"""
    def ev(i, op, **kw):
        e = {"i": i, "op": op, "ok": True, "hang": False, "errno": 0, "n": 0, "us": 0, "events": [], "revents": [], "max": 1, "timeout": 0}
        e.update(kw)
        return e
    reg = ev(0, "register", o=1, data=10, mask=["IN"])
    reg_et = ev(0, "register", o=1, data=10, mask=["IN", "ET"])
    pw = ev(1, "peer_write", o=1)
    one = [{"data": 10, "ev": ["IN"]}]
    return [
        ([reg, pw, ev(2, "wait", max=2, n=2, events=one + [{"data": 987654, "ev": ["IN"]}])], "UnknownUserData"),
        ([reg, pw, ev(2, "wait", max=2, n=1, events=[{"data": 10, "ev": ["IN", "PRI"]}])], "EventsNotAllowed"),
        ([reg, pw, ev(2, "wait", max=2, n=1, events=[{"data": 10, "ev": ["OUT"]}])], "EventsMissing"),
        ([reg, ev(1, "wait", max=1, timeout=20, us=1)], "EarlyTimeout"),
        ([reg, pw, ev(2, "wait", max=1)], "EmptyButReady"),
        ([reg_et, pw, ev(2, "wait", n=1, events=one), ev(3, "wait", n=1, events=one)], "NotReady"),
        ([reg, pw, ev(2, "unregister", o=1), ev(3, "wait", n=1, events=one)], "UnknownUserData"),
        ([reg, pw, ev(2, "wait", max=1, n=2, events=one + one)], "TooMany"),
        ([reg, ev(1, "register", o=1, data=11, mask=["IN"])], "CtlShouldFail"),
        ([ev(0, "poll", entries=[{"o": 1, "ev": ["IN"]}], n=1, revents=[["IN"]])], "EventsNotAllowed"),
    ]


def run(tier):
    chk = core.Check("X01", tier, "model_checking")
    bindir = core.cargo_build(bins=["epollops"])
    mc = model_check(chk, tier)
    seqs = generate(chk, tier)
    plan = []
    for n, (kinds, ops) in enumerate(seqs):
        api = "driver" if n % 2 == 0 else "rusl"
        ops = [o for o in ops if not (o["op"] == "wait_huge" and api != "driver")]
        plan.append({"seq": n, "api": api, "kinds": kinds, "ops": ops})
    events, runs = execute(chk, bindir, plan, tier)
    by_seq = {}
    for e in events:
        by_seq.setdefault(e["seq"], []).append(e)
    trace, index = [], {}
    per_seq = {}
    for p in plan:
        t = [{"ev": "reset", "seq": p["seq"], "kinds": p["kinds"]}]
        for e in sorted(by_seq.get(p["seq"], []), key=lambda x: x["i"]):
            if e["i"] >= len(p["ops"]):
                continue
            t.append(normalise(e, p["ops"][e["i"]]))
        per_seq[p["seq"]] = t
        trace += t
    # anti-vacuity: synthetic sequences that each break one clause
    CAN = 10 ** 6
    expected = {}
    for n, (c, why) in enumerate(canaries()):
        cid = CAN + n + 1
        trace.append({"ev": "reset", "seq": cid, "kinds": ["sock"]})
        for e in c:
            trace.append(dict(e, seq=cid))
        expected[cid] = why
    path = os.path.join(chk.work, "epoll_trace_%s.ndjson" % tier)
    core.write_ndjson(path, trace)
    res = core.run_tlc("EpollTrace.tla", "EpollTrace.cfg", workers=1, env={"TRACE": path}, timeout=3000, xmx="4g", deque=True)
    core.tlc_must_pass(res, "EpollTrace")
    chk.add_tlc(res)
    done = res.printed("DONE")
    if len(done) != 1 or done[0]["events"] != len(trace):
        raise core.ToolError("EpollTrace consumed %s of %d events: %s" % (done and done[0]["events"], len(trace), res.out[-1500:]))
    flagged = done[0]["bad"]
    caught = {}
    for b in flagged:
        if b["seq"] >= CAN:
            caught.setdefault(b["seq"], set()).update(b["reasons"])
    missed = [c for c, why in expected.items() if why not in caught.get(c, set())]
    if missed or not expected:
        raise core.ToolError("EpollTrace accepted %d of %d corrupted sequences (vacuous judge)" % (len(missed), len(expected)))
    chk.extra["corrupted_sequences_rejected"] = len(expected)
    api_of = {p["seq"]: p["api"] for p in plan}
    nontrivial = set()
    kinds_count = {}
    for p in plan:
        for e in per_seq[p["seq"]][1:]:
            kinds_count[e["op"]] = kinds_count.get(e["op"], 0) + 1
            if e["op"] in ("wait", "wait_intr", "poll", "poll_intr") and (e["events"] or any(e["revents"]) or e["timeout"] != 0):
                nontrivial.add((p["seq"], e["i"]))
    chk.traces = len(plan)
    chk.evaluations = sum(len(t) - 1 for t in per_seq.values())
    for b in flagged:
        if b["seq"] >= CAN:
            continue
        p = plan[b["seq"]]
        rec = [e for e in per_seq[b["seq"]] if e.get("i") == b["i"]][0]
        for reason in b["reasons"]:
            sig = {"api": "ppoll" if b["op"].startswith("poll") else api_of[b["seq"]], "op": b["op"], "reason": reason}
            chk.violate(sig, "%s via %s: %s - op %d of sequence %d: %s" % (b["op"], sig["api"], reason, b["i"], b["seq"],
                                                                         json.dumps({k: rec.get(k) for k in ("max", "timeout", "ok", "errno", "events", "revents", "n", "us", "entries", "calls", "ts_after_us") if k in rec})[:400]),
                        {"plan": p, "upto": b["i"], "recorded": per_seq[b["seq"]][1:b["i"] + 2]})
    for p in plan[:4]:
        chk.sample({"api": p["api"], "kinds": p["kinds"], "ops": [o["op"] for o in p["ops"]],
                    "results": [{"op": e["op"], "events": e["events"], "revents": e["revents"], "us": e["us"]} for e in per_seq[p["seq"]][1:]
                                if e["op"] in ("wait", "poll")][:4]})
    chk.nontrivial = len(nontrivial)
    chk.rule = ("TLC simulates Epoll.tla (EpollGen) over 4 object sets; each distinct walk is one operation sequence executed on real "
                "pipes/socketpairs alternately through tiny_std's EpollDriver and rusl's epoll_*/ppoll; every recorded result is replayed by "
                "TLC (EpollTrace). evaluations = operations executed; non-trivial = wait/poll calls that returned events or ran with a non-zero timeout")
    chk.assumptions = [
        "the kernel's readiness reporting is taken as Req/Allowed event sets (Allowed is generous once the peer is gone); the code under test is the wrapper layer",
        "time-outs are judged as lower bounds only (never early); no upper bound",
        "an EINTR result is admitted only for the waits the driver interrupts with SIGALRM and only if nothing had to be reported",
        "not covered: EPOLLEXCLUSIVE/WAKEUP/PRI, closing a registered descriptor, nested epoll sets, signal masks of ppoll",
    ]
    chk.extra.update({"sequences": len(plan), "operations_by_kind": kinds_count, "driver_runs": runs, "model_checking": mc,
                      "hangs_or_crashes": sum(1 for e in events if e.get("hang") or e.get("crash"))})
    return chk.finish()


def replay(path):
    rp = json.load(open(path))["replay"]
    chk = core.Check("X01", "quick", "model_checking")
    bindir = core.cargo_build(bins=["epollops"])
    p = dict(rp["plan"], seq=0)
    p["ops"] = p["ops"][:rp["upto"] + 1]
    events, _ = execute(chk, bindir, [p], "replay")
    for e in events:
        print("  ", json.dumps(e)[:300])
    return 0


def selftest():
    from checks import sysinj_common as SJ
    return SJ.selftest_seeded("X01")
