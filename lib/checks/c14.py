"""C14 - file-system operations establish their post-conditions for every path and tree.

TLC: (1) model-checks the transcription of create_dir_all (FsCda.tla) against the property-level
post-condition for all path strings / prefix existence patterns and prints conformance vectors;
(2) enumerates / samples operation sequences (FsTreeGen.tla); (3) judges every recorded run of
the real tiny_std::fs operations (driver fsops, observer std::fs) against FsTreeTrace.tla.
"""
import concurrent.futures
import json
import os
import random
import shutil
import subprocess

from vlib import core

NPROC = 8
NINITS = 14         # Len(FsTreeGen!Inits), checked against what TLC prints


# ------------------------------------------------------------------------------------------
# driver
# ------------------------------------------------------------------------------------------
def _run_chunk(args):
    binp, plans_path, base, timeout = args
    """Runs one driver process over a plan file; survives crashes/hangs of the code under test.
    Returns (events, incidents) where incidents = [(plan index, 'crashed'|'timedout')]."""
    events = []
    incidents = []
    skip = 0
    while True:
        try:
            p = subprocess.run([binp, "seq", plans_path, base, str(skip)], stdout=subprocess.PIPE,
                               stderr=subprocess.PIPE, timeout=timeout, text=True, errors="replace")
            out, rc, to = p.stdout, p.returncode, False
        except subprocess.TimeoutExpired:
            raise core.ToolError("fsops chunk did not finish in %ds (machine overloaded?)" % timeout)
        to = rc == 43        # the driver's own per-plan watchdog fired: the plan that was running hangs
        cur = None
        done = False
        for line in out.splitlines():
            try:
                ev = json.loads(line)
            except ValueError:
                continue   # torn last line of a killed process
            if ev["ev"] == "begin":
                cur = ev["id"]
            elif ev["ev"] == "end":
                done = True
            if ev["ev"] in ("reset", "op"):
                events.append(ev)
        if done and rc == 0:
            break
        if cur is None:
            raise core.ToolError("fsops died before its first plan rc=%s: %s" % (rc, (p.stderr if not to else "timeout")[-2000:]))
        # the plan that was running is the culprit: drop its partial events, record, resume after it
        events = [e for e in events if e["id"] != cur]
        incidents.append((cur, "timedout" if to else "crashed"))
        skip = cur + 1
        if len(incidents) > 50:
            raise core.ToolError("fsops keeps dying (%d incidents)" % len(incidents))
    return events, incidents


def run_plans(chk, bindir, inits, plans, tag, nproc=NPROC, timeout=3000):
    """plans: list of dicts {init|tree, ops}. Returns (runs, incidents): runs[k] = list of events
    of plan k (reset + ops) or None if the process died in it."""
    binp = os.path.join(bindir, "fsops")
    n = len(plans)
    nproc = max(1, min(nproc, (n + 199) // 200))
    bounds = [(n * k // nproc, n * (k + 1) // nproc) for k in range(nproc)]
    jobs = []
    for k, (lo, hi) in enumerate(bounds):
        path = os.path.join(chk.work, "plans_%s_%d.ndjson" % (tag, k))
        with open(path, "w") as f:
            f.write(json.dumps({"inits": inits}) + "\n")
            for p in plans[lo:hi]:
                f.write(json.dumps(p) + "\n")
        base = os.path.join(chk.work, "roots_%s_%d" % (tag, k))
        shutil.rmtree(base, ignore_errors=True)
        os.makedirs(base)
        jobs.append((binp, path, base, timeout))
    runs = [None] * n
    incidents = []
    with concurrent.futures.ThreadPoolExecutor(max_workers=nproc) as ex:
        for k, (events, inc) in enumerate(ex.map(_run_chunk, jobs)):
            lo = bounds[k][0]
            for ev in events:
                g = lo + ev["id"]
                if runs[g] is None:
                    runs[g] = []
                ev["id"] = g
                runs[g].append(ev)
            incidents += [(lo + i, what) for i, what in inc]
    for j in jobs:
        shutil.rmtree(j[2], ignore_errors=True)
    for i, _ in incidents:
        runs[i] = None
    return runs, incidents


# ------------------------------------------------------------------------------------------
# TLC as judge
# ------------------------------------------------------------------------------------------
def _judge_part(args):
    path, n = args
    md = os.path.join(core.WORK, "tlc-meta", "FsTreeTrace-%d-%s" % (os.getpid(), os.path.basename(path)))
    res = core.run_tlc("FsTreeTrace.tla", "FsTreeTrace.cfg", workers=1, env={"TRACE": path}, timeout=1500,
                       xmx="3g", xss="512m", deque=True, metadir=md)
    core.tlc_must_pass(res, "FsTreeTrace")
    j = res.printed("JUDGED")
    if len(j) != 1 or j[0]["n"] != n:
        raise core.ToolError("FsTreeTrace did not report on all %d events: %s" % (n, res.out[-1500:]))
    return res, j[0]


def judge(chk, runs, tag, par=4):
    """Validates all runs with TLC. Returns list of (run index, op index in run, event, pre-tree, ref)."""
    idx = [k for k, r in enumerate(runs) if r]
    parts = []
    per = max(1, (len(idx) + par - 1) // par)
    for c in range(0, len(idx), per):
        sub = idx[c:c + per]
        path = os.path.join(chk.work, "trace_%s_%d.ndjson" % (tag, c // per))
        lines = []
        with open(path, "w") as f:
            for k in sub:
                for j, ev in enumerate(runs[k]):
                    f.write(json.dumps(ev, separators=(",", ":")) + "\n")
                    lines.append((k, j))
        parts.append((path, lines))
    bad = []
    with concurrent.futures.ThreadPoolExecutor(max_workers=par) as ex:
        for (path, lines), (res, j) in zip(parts, ex.map(_judge_part, [(p, len(l)) for p, l in parts])):
            chk.add_tlc(res)
            chk.extra["unjudged_steps"] = chk.extra.get("unjudged_steps", 0) + j["unjudged"]
            for b in j["bad"]:
                k, jj = lines[b["i"] - 1]
                bad.append((k, jj, runs[k][jj], runs[k][jj - 1]["tree"] if jj > 0 else None, b["ref"]))
    chk.traces += len(idx)
    return bad


def spell(segs):
    return "/".join(segs)


def tree_brief(tree):
    out = []
    for e in tree:
        if not e["p"]:
            continue
        s = spell(e["p"]) + ":" + e["k"]
        if e["k"] == "f":
            s += str(e["c"]["b"]) if e["c"]["n"] <= 8 else "(%d bytes)" % e["c"]["n"]
        if e["k"] == "l":
            s += "->" + spell(e["t"])
        out.append(s if len(s) < 60 else s[:25] + "..." + s[-25:])
    return out[:40]


def path_class(segs):
    c = []
    if len(segs) > 1 and segs[0] == "":
        c.append("abs")
    if len(segs) > 1 and segs[-1] in ("", "."):
        c.append("trail")
    if any(s == "" for s in segs[1:-1]):
        c.append("dbl")
    if "." in segs[:-1]:
        c.append("dot")
    if sum(len(s) + 1 for s in segs) > 512:
        c.append("long")
    return "+".join(c) or "plain"


def kind_at(tree, comps):
    for e in tree:
        if e["p"] == comps:
            return e["k"]
    return "absent"


def signature(ev, pre, ref):
    """Identity of a violation for known-findings matching: operation, expected vs observed class,
    and what the observer saw (how the tree differs from the tree before the call)."""
    o = ev["o"]
    got = ev["res"]["class"]
    exp = "ok" if ref == "ok" else "err"
    sig = {"op": o["op"], "expected": exp, "got": got}
    comps = [s for s in o["p"] if s not in ("", ".")]
    if got == "panic":
        sig["detail"] = "panic:" + path_class(o["p"])
        return sig
    post = ev["tree"]
    if o["op"] == "create_dir_all":
        leaf = kind_at(post, comps)
        sig["detail"] = "leaf_" + ("missing" if leaf == "absent" else "is_" + leaf) if got == "ok" and leaf != "d" else \
            ("tree_changed" if post != pre else "refused")
    elif o["op"] == "copy":
        dst = [s for s in o["q"] if s not in ("", ".")]
        pd = [e for e in (pre or []) if e["p"] == dst and e["k"] == "f"]
        ps = [e for e in (pre or []) if e["p"] == comps and e["k"] == "f"]
        if pd and ps and pd[0]["c"]["n"] > ps[0]["c"]["n"]:
            sig["detail"] = "dst_longer_than_src"
        else:
            sig["detail"] = "tree_differs" if got == exp else "class"
    elif got != exp:
        sig["detail"] = "class"
    elif post == pre and exp == "ok":
        sig["detail"] = "value_or_no_effect"
    else:
        sig["detail"] = "tree_differs"
    return sig


def self_contained(plan, inits):
    if "init" in plan:
        plan = {"tree": inits[plan["init"] - 1], "ops": plan["ops"]}
    return plan


def report(chk, bad, plans, tagname, inits=()):
    for k, j, ev, pre, ref in bad:
        o = ev["o"]
        sig = signature(ev, pre, ref)
        what = "%s(%s%s) on %s returned %s%s, reference outcome %s; tree after: %s" % (
            o["op"], spell(o["p"])[:80], (" -> " + spell(o["q"])[:80]) if o.get("q") else "",
            tree_brief(pre or []), ev["res"]["class"],
            (" errno=%s" % ev["res"].get("errno")) if ev["res"]["class"] == "err" else "",
            ref, tree_brief(ev["tree"]))
        chk.violate(sig, what, {"mode": "seq", "source": tagname, "plan": self_contained(plans[k], inits), "step": j, "event": ev, "reference": ref})


_BINDIR = [None]


def reconfirmed(chk, plan, what):
    """A hang verdict ("the plan did not finish within 30 s") rests on the wall clock: the plan is re-run ALONE with a
    limit >= 5x as large (10x on a busy machine); only 2 of 2 failures to return make it a violation."""
    if what != "timedout" or _BINDIR[0] is None:
        return True
    busy = os.getloadavg()[0] > (os.cpu_count() or 1)
    limit = 30 * 5 * (2 if busy else 1)
    os.environ["VERIF_WATCHDOG_S"] = str(limit)
    try:
        for _ in range(2):
            runs, inc = run_plans(chk, _BINDIR[0], [], [plan], "reconfirm", nproc=1, timeout=4 * limit)
            if not inc:
                bad = judge(chk, runs, "reconfirm", par=1)
                report(chk, bad, [plan], "re-run of a watchdog trip")
                note = chk.extra.setdefault("watchdog_trips_not_reproduced", {"count": 0, "cases": []})
                note["count"] += 1
                note["cases"] = (note["cases"] + [{"ops": [o["op"] for o in plan["ops"]], "limit_s": limit}])[:10]
                return False
    finally:
        os.environ.pop("VERIF_WATCHDOG_S", None)
    return True


def report_incidents(chk, incidents, plans, tagname, inits=()):
    confirmed_hang = False
    for k, what in incidents:
        if what == "timedout":
            if confirmed_hang:
                continue            # one confirmed hang is enough for the verdict (each confirmation costs minutes)
            if not reconfirmed(chk, self_contained(plans[k], inits), what):
                continue
            confirmed_hang = True
        ops = plans[k]["ops"]
        chk.violate({"op": ops[0]["op"] if len(ops) == 1 else "sequence", "expected": "returns", "got": what, "detail": what},
                    "driver process %s while running plan %s" % (what, json.dumps(plans[k])[:300]),
                    {"mode": "seq", "source": tagname, "plan": self_contained(plans[k], inits), "incident": what})


# ------------------------------------------------------------------------------------------
# TLC as generator
# ------------------------------------------------------------------------------------------
def gen_sequences(chk, mode, depth, opset, npicks=0, workers=8):
    """mode "enum": every sequence of length depth; mode "picks": npicks seeded random sequences of
    length depth, decoded by TLC against the evolving model tree."""
    cfg = os.path.join(chk.work, "FsTreeGen_%s_%d_%s.cfg" % (mode, depth, opset))
    with open(cfg, "w") as f:
        f.write('CONSTANTS\n  Mode = "%s"\n  Depth = %d\n  OpSet = "%s"\nINIT Init\nNEXT Next\nINVARIANTS Emit Sane\nCHECK_DEADLOCK FALSE\n'
                % (mode, depth, opset))
    env = {}
    if mode == "picks":
        rng = random.Random(chk.seed * 7919 + depth)
        ppath = os.path.join(chk.work, "picks_%d.ndjson" % depth)
        core.write_ndjson(ppath, [{"init": rng.randint(1, NINITS), "picks": [[rng.randint(0, 10**6) for _ in range(4)]
                                                                        for _ in range(rng.randint(2, depth))]}
                                  for _ in range(npicks)])
        env["PICKS"] = ppath
    res = core.run_tlc("FsTreeGen.tla", cfg, workers=workers, timeout=1500, xmx="6g", env=env,
                       metadir=os.path.join(core.WORK, "tlc-meta", "FsTreeGen-%d-%s-%d" % (os.getpid(), mode, depth)))
    core.tlc_must_pass(res, "FsTreeGen " + mode)
    inits = res.printed("I")[0]["trees"]
    plans = res.printed("P")
    if not plans or (mode == "picks" and len(plans) != npicks):
        raise core.ToolError("FsTreeGen produced %d plans:\n%s" % (len(plans), res.out[-2000:]))
    chk.add_tlc(res)
    return inits, plans, res


def cda_vectors(chk, algo, maxlen, bufmax, check_invariants, workers=8, alpha='"a", "b", "/"'):
    tag = "dot" if "." in alpha else "ab"
    cfg = os.path.join(chk.work, "FsCda_%s_%d_%s.cfg" % (algo, maxlen, tag))
    with open(cfg, "w") as f:
        f.write('CONSTANTS\n  Alpha = {%s}\n  MaxLen = %d\n  BufMax = %d\n  Algo = "%s"\nINIT Init\nNEXT Next\n' % (alpha, maxlen, bufmax, algo))
        f.write("INVARIANTS Emit %s\nCHECK_DEADLOCK FALSE\n" % ("PostCondition NeverPanics Untouched" if check_invariants else ""))
    res = core.run_tlc("FsCda.tla", cfg, workers=workers, timeout=1500, xmx="6g",
                       metadir=os.path.join(core.WORK, "tlc-meta", "FsCda-%d-%s-%s" % (os.getpid(), algo, tag)))
    return res, res.printed("V")


# ------------------------------------------------------------------------------------------
# scale cases (generated parametrically, judged by the same specification)
# ------------------------------------------------------------------------------------------
def D(p):
    return {"p": p, "n": {"k": "d"}}


def F(p, c):
    return {"p": p, "n": {"k": "f", "c": c}}


def small(b):
    return {"n": len(b), "b": b, "h": ""}


def op(name, p, q=None, c=None):
    return {"op": name, "p": p, "q": q or [], "c": c or small([]), "f": []}


def scale_plans(tier, rng):
    plans = []
    root = [D([])]
    # -- path lengths across the 512-byte stack buffer of create_dir_all, up to PATH_MAX
    totals = list(range(500, 531, 1 if tier == "thorough" else 3)) + [511, 512, 513, 1000, 4000, 4094]
    for total in sorted(set(totals)):
        for ncomp in ([2, 3] if total < 600 else [16, 17]):
            per = (total - (ncomp - 1)) // ncomp
            if per > 255 or per < 1:
                continue
            comps = [chr(97 + i % 26) * per for i in range(ncomp)]
            comps[-1] += "z" * (total - sum(len(c) for c in comps) - (ncomp - 1))
            if len(comps[-1]) > 255:
                continue
            for exist in sorted({0, ncomp // 2, ncomp - 1, ncomp}):
                tree = root + [D(comps[:k]) for k in range(1, exist + 1)]
                for style in (["rel", "trail", "abs"] if total < 600 else ["rel"]):
                    segs = {"rel": comps, "trail": comps + [""], "abs": [""] + comps}[style]
                    plans.append({"tree": tree, "ops": [op("create_dir_all", segs), op("exists", comps),
                                                        op("remove_dir_all", comps[:1])]})
            # a file in the way at the last but one component
            tree = root + [D(comps[:k]) for k in range(1, ncomp - 1)] + [F(comps[:ncomp - 1], small([1]))]
            plans.append({"tree": tree, "ops": [op("create_dir_all", comps)]})
    # -- names of 1 / 100 / 255 bytes, all operations
    for ln in (1, 100, 254, 255):
        a, b, c = "a" * ln, "b" * ln, "c" * ln
        tree = root + [D([a]), F([a, b], small([1, 2, 3])), D([a, c]), F([a, c, a], small([4])),
                       {"p": [a, "l" * ln], "n": {"k": "l", "t": ["..", b]}}, {"p": [a, "p" * ln], "n": {"k": "p"}},
                       F([b], small([9, 9, 9, 9, 9, 9]))]
        plans.append({"tree": tree, "ops": [op("read_dir", [a]), op("metadata", [a, b]), op("read", [a, b]),
                                            op("copy", [a, b], [b]), op("rename", [a, c], [c]),
                                            op("write", [a, a], c=small([7, 7])), op("read_dir", [a]),
                                            op("remove_dir_all", [a]), op("exists", [a])]})
    # -- names that start with dots (only "." and ".." themselves are relative references)
    tree = root + [D(["d"]), D(["d", ".h"]), F(["d", ".h", "x"], small([1])), D(["d", "..h"]), F(["d", "..h", ".y"], small([2])),
                   F(["d", ".f"], small([3])), D(["d", "..."]), D(["d", "...", ".."+"."]), F(["d", ".a."], small([4])), F(["keep"], small([5]))]
    plans.append({"tree": tree, "ops": [op("read_dir", ["d"]), op("read_dir", ["d", "..."]), op("metadata", ["d", ".h", "x"]),
                                        op("copy", ["d", ".f"], ["d", "..h", ".y"]), op("remove_dir_all", ["d", "..h"]),
                                        op("remove_dir_all", ["d"]), op("read", ["keep"])]})
    # -- text: valid UTF-8 whose 2-, 3- and 4-byte characters straddle every block boundary B - {1,2,3}
    #    (B = 4096k for k = 1..3, 8192, 32 KiB, 64 KiB), lengths right behind the character and well beyond
    bounds = [4096, 8192, 12288, 32768, 65536]
    for w in (2, 3, 4):
        for d in range(1, w):
            allb = {"text": [[b - d, w] for b in bounds], "n": 65536 + 100}
            plans.append({"tree": root + [F(["t"], allb)], "ops": [op("read_string", ["t"]), op("fread_string", ["t"]), op("read", ["t"])]})
            for b in bounds:
                short = {"text": [[b - d, w]], "n": b - d + w}
                plans.append({"tree": root + [F(["t"], short), F(["u"], {"text": [[b - d, w]], "n": b + 8})],
                              "ops": [op("read_string", ["t"]), op("fread_string", ["u"]), op("fread_string", ["t"]), op("read_string", ["u"])]})
    # -- sparse sources (real holes, 16 KiB granules): hole at the start / in the middle / at the END / nothing but a
    #    hole / data-hole-data-hole, copied over a fresh and over an existing LONGER destination: same length, same bytes
    G = 16384
    layouts = {"hole_start": (4 * G, [[2 * G, 2 * G, 11]]), "hole_middle": (5 * G, [[0, G, 12], [4 * G, G, 13]]),
               "hole_end": (6 * G, [[0, G, 14]]), "only_hole": (3 * G, []), "d_h_d_h": (8 * G, [[0, G, 15], [3 * G, 2 * G, 16]]),
               "hole_end_odd": (5 * G + 123, [[G, 100, 17]]), "tiny_then_hole": (2 * G, [[0, 1, 18]])}
    for name, (n, segs) in sorted(layouts.items()):
        src = {"sparse": segs, "n": n}
        for prior in (None, {"gen": 9, "n": n + 5000}):
            tree = root + [D(["d"]), F(["src"], src)] + ([F(["d", "dst"], prior)] if prior else [])
            plans.append({"tree": tree, "ops": [op("copy", ["src"], ["d", "dst"]), op("metadata", ["d", "dst"]), op("read", ["d", "dst"]),
                                                op("fcopy", ["src"], ["d", "dst2"], c={"n": 7, "b": [], "h": ""}), op("read", ["src"])]})
    # -- files whose read(2) calls come back SHORT although st_size is known (sysfs binary attributes: one page per call)
    for x in ("/sys/kernel/btf/vmlinux",):
        if os.path.exists(x) and os.path.getsize(x) > 8192:
            o = op("read_x", [])
            o["x"] = x
            plans.append({"tree": root, "ops": [o]})
    # -- big files: write / read / copy over shorter, equal, longer destinations
    sizes = [65, 4096, 70000, 1 << 20] + ([8 << 20] if tier == "thorough" else [])
    for n in sizes:
        big = {"gen": rng.randint(1, 1 << 30), "n": n}
        for prior in (None, {"gen": 5, "n": max(1, n // 2)}, {"gen": 6, "n": n}, {"gen": 7, "n": n + 1 + n // 3}):
            tree = root + [D(["d"])] + ([F(["d", "dst"], prior)] if prior else [])
            plans.append({"tree": tree, "ops": [op("write", ["src"], c=big), op("read", ["src"]), op("copy", ["src"], ["d", "dst"]),
                                                op("read", ["d", "dst"]), op("metadata", ["d", "dst"]),
                                                op("write", ["d", "dst"], c=small([1])), op("read", ["d", "dst"])]})
    # -- directories whose listing does not fit one 512-byte getdents window, all node kinds, full dumps
    for n, ln in ((5, 255), (12, 40), (30, 3), (64, 17), (100, 1 + 0)):
        names = [("%03d" % i) + "n" * max(0, ln - 3) for i in range(n)] if ln >= 3 else ["%d" % i for i in range(n)]
        tree = root + [D(["d"]), F(["keep"], small([5]))]
        for i, nm in enumerate(names):
            k = i % 4
            tree.append([D(["d", nm]), F(["d", nm], small([i % 250])), {"p": ["d", nm], "n": {"k": "l", "t": ["..", "keep"]}},
                         {"p": ["d", nm], "n": {"k": "p"}}][k])
            if k == 0 and i % 8 == 0:
                tree.append(F(["d", nm, "inner"], small([1])))
        plans.append({"tree": tree, "ops": [op("read_dir", ["d"]), op("read_dir", ["d", ""]), op("remove_dir_all", ["d"]), op("read", ["keep"])]})
    return plans


def fanout_cases(tier):
    cases = []
    for n in ([1, 2, 7, 8, 63, 300, 1000, 5000] if tier == "quick" else [1, 2, 3, 7, 8, 9, 20, 63, 64, 65, 300, 1000, 2500, 5000]):
        for namelen, kinds, vary in ((5, "f", False), (255, "dflp", False), (200, "fd", True)):
            if n * namelen > 700000:
                continue
            cases.append({"n": n, "namelen": namelen, "kinds": kinds, "vary": vary})
    return cases


def _judge_fanout_events(chk, evs, tag):
    """Listing + remove_dir_all results of big / engineered directories, judged by FsTreeFanout.tla."""
    import hashlib
    recs = []
    for k, ev in enumerate(evs):
        ch = sorted(map(tuple, ev["children"]))
        listed = ev["listed"]
        rec = {"ev": "fanout", "id": k, "n": len(ch), "lclass": listed["class"], "rmclass": ev["rm"]["class"],
               "left": sorted(ev["left"]), "outside_ok": ev["outside_ok"]}
        if len(ch) <= 200:
            rec["mode"] = "full"
            rec["children"] = [list(x) for x in ch]
            rec["listed"] = listed["v"] if listed["class"] == "ok" else []
        else:
            lv = sorted(map(tuple, listed["v"])) if listed["class"] == "ok" else []
            nodots = [x for x in lv if x[0] not in (".", "..")]

            def summ(xs):
                h = hashlib.sha1(json.dumps(xs).encode()).hexdigest()
                hist = {k2: sum(1 for x in xs if x[1] == k2) for k2 in "dflp"}
                return {"count": len(xs), "distinct": len(set(xs)), "digest": h, "d": hist["d"], "f": hist["f"], "l": hist["l"], "p": hist["p"]}
            rec["mode"] = "summary"
            rec["children"] = summ(ch)
            rec["listed"] = summ(nodots)
            rec["dots"] = len(lv) - len(nodots)
        recs.append(rec)
    tpath = os.path.join(chk.work, "%s_trace.ndjson" % tag)
    core.write_ndjson(tpath, recs)
    res = core.run_tlc("FsTreeFanout.tla", "FsTreeFanout.cfg", workers=1, env={"TRACE": tpath}, timeout=900, xmx="3g", xss="512m",
                       metadir=os.path.join(core.WORK, "tlc-meta", "FsTreeFanout-%d-%s" % (os.getpid(), tag)))
    core.tlc_must_pass(res, "FsTreeFanout")
    j = res.printed("JUDGED")
    if len(j) != 1 or j[0]["n"] != len(recs):
        raise core.ToolError("FsTreeFanout did not judge all records: " + res.out[-1500:])
    chk.add_tlc(res)
    chk.traces += len(recs) - len(j[0]["bad"])
    chk.evaluations += 2 * len(recs)
    return recs, [i - 1 for i in j[0]["bad"]]


def run_fanout(chk, bindir, tier):
    cases = fanout_cases(tier)
    path = os.path.join(chk.work, "fanout_cases.ndjson")
    core.write_ndjson(path, cases)
    base = os.path.join(chk.work, "roots_fanout")
    shutil.rmtree(base, ignore_errors=True)
    os.makedirs(base)
    p = core.run_cmd([os.path.join(bindir, "fsops"), "fanout", path, base], check=False, timeout=900)
    evs = [json.loads(l) for l in p.stdout.splitlines() if l.startswith("{")]
    shutil.rmtree(base, ignore_errors=True)
    if p.returncode != 0 and len(evs) == len(cases):
        raise core.ToolError("fsops fanout failed: " + p.stderr[-1500:])
    recs, bad = _judge_fanout_events(chk, evs, "fanout")
    for i in bad:
        r, ev = recs[i], evs[i]
        chk.violate({"op": "read_dir+remove_dir_all", "expected": "ok", "got": r["lclass"] + "/" + r["rmclass"], "detail": "fanout_" + r["mode"]},
                    "directory with %d entries (%s): listing %s / remove_dir_all %s rejected; left=%s" % (
                        r["n"], json.dumps(ev["case"]), r["lclass"], r["rmclass"], r["left"]),
                    {"mode": "fanout", "case": ev["case"], "record": r})
    for k in range(len(evs), len(cases)):
        chk.violate({"op": "read_dir+remove_dir_all", "expected": "returns", "got": "crashed", "detail": "fanout"},
                    "driver died in fan-out case %s" % json.dumps(cases[k]), {"mode": "fanout", "case": cases[k]})
        break
    chk.extra["fanout_cases"] = len(recs)
    chk.extra["fanout_max_entries"] = max(c["n"] for c in cases)
    return len(recs)


def run_dirmatrix(chk, bindir, tier):
    """The getdents window boundary: directories engineered so that (space left in the 512-byte window after a
    batch) x (size of the next record) sweeps every pair r in 0..288, R in 24..280 (multiples of 8, R > r).
    The file system decides the order, so several salts are tried per pair and the pairs actually OBSERVED
    (independent getdents64 of the observer) are reported in the evidence."""
    cases = [{"r": r, "R": R, "tries": 8 if tier == "quick" else 16}
             for r in range(0, 289, 8) for R in range(24, 281, 8) if R > r]
    if tier == "quick":   # the whole band next to the diagonal and around the 256-byte line, the rest thinned
        cases = [c for k, c in enumerate(cases) if c["R"] - c["r"] <= 32 or c["r"] >= 224 or c["R"] >= 256 or k % 4 == chk.seed % 4]
    path = os.path.join(chk.work, "dirmatrix_cases.ndjson")
    core.write_ndjson(path, cases)
    base = os.path.join(chk.work, "roots_dirmatrix")
    shutil.rmtree(base, ignore_errors=True)
    os.makedirs(base)
    p = core.run_cmd([os.path.join(bindir, "fsops"), "dirmatrix", path, base], check=False, timeout=900)
    shutil.rmtree(base, ignore_errors=True)
    if p.returncode != 0:
        raise core.ToolError("fsops dirmatrix failed: " + p.stderr[-1500:])
    evs = [json.loads(l) for l in p.stdout.splitlines() if l.startswith("{")]
    recs, bad = _judge_fanout_events(chk, evs, "dirmatrix")
    for i in bad[:20]:
        r, ev = recs[i], evs[i]
        lost = sorted(set(map(tuple, ev["children"])) - set(map(tuple, ev["listed"]["v"] if ev["listed"]["class"] == "ok" else [])))
        chk.violate({"op": "read_dir+remove_dir_all", "expected": "ok", "got": r["lclass"] + "/" + r["rmclass"], "detail": "getdents_window_boundary"},
                    "directory whose getdents batches leave/need (space_left, next_record) = %s: listing %s lost %d of %d entries (name lengths %s) / remove_dir_all %s" % (
                        ev["pairs"], r["lclass"], len(lost), r["n"], [len(x[0]) for x in lost], r["rmclass"]),
                    {"mode": "dirmatrix", "case": ev["case"], "pairs": ev["pairs"], "children_name_lengths": [len(c[0]) for c in ev["children"]]})
    want = {(c["r"], c["R"]) for c in cases}
    seen = {tuple(pr) for ev in evs for pr in ev["pairs"]}
    chk.extra["getdents_window_matrix"] = {
        "directories": len(evs), "pairs_targeted": len(want), "pairs_observed_of_targeted": len(want & seen), "pairs_observed_total": len(seen),
        "not_observed": sorted(want - seen)[:20],
        "boundary_256_pairs_observed": sorted(p for p in seen if p[0] >= 256 - 8 * 0 and p[1] > p[0] and p[0] >= 232)}
    return len(recs)


def start_bigread(chk, bindir, tier):
    """fs::read (thorough: and read_to_string) of a sparse file one byte longer than what ONE read(2) hands out
    (0x7ffff000): every whole-file operation must loop.  Runs in the background (needs ~2 GiB for a moment)."""
    base = os.path.join(chk.work, "roots_bigread")
    os.makedirs(base, exist_ok=True)
    return subprocess.Popen([os.path.join(bindir, "fsops"), "bigread", base, str(0x7ffff001), "read" if tier == "quick" else "both"],
                            stdout=subprocess.PIPE, stderr=subprocess.PIPE, text=True)


def finish_bigread(chk, proc):
    try:
        out, err = proc.communicate(timeout=900)
    except subprocess.TimeoutExpired:
        proc.kill()
        raise core.ToolError("bigread did not finish in 900 s")
    shutil.rmtree(os.path.join(chk.work, "roots_bigread"), ignore_errors=True)
    evs = [json.loads(l) for l in out.splitlines() if l.startswith("{")]
    if not evs:
        chk.violate({"op": "read", "expected": "ok", "got": "crashed", "detail": "file_larger_than_one_read"},
                    "fs::read of a 0x7ffff001-byte file died: " + err[-300:], {"mode": "bigread"})
        return
    chk.extra["bigread"] = evs
    for ev in evs:
        chk.evaluations += 1
        if ev["res"] == "ok" and ev["got_len"] == ev["len"] and ev["content_ok"]:
            chk.traces += 1
        else:
            chk.violate({"op": ev["op"], "expected": "ok", "got": ev["res"], "detail": "file_larger_than_one_read"},
                        "fs::%s of a %d-byte sparse file: %s, %d bytes returned, content_ok=%s" % (ev["op"], ev["len"], ev["res"], ev["got_len"], ev["content_ok"]),
                        {"mode": "bigread", "event": ev})


def run_unpriv(chk, bindir, uid=65534):
    """Process-wide state as a scenario dimension: listings, reads, remove_dir_all, create_dir_all+write as an
    UNPRIVILEGED uid (forked child of the driver) on twin trees prepared by root under /var/tmp; whatever std::fs
    performs successfully as that uid must succeed with tiny_std::fs too, with the same result (FsUnpriv.tla)."""
    p = core.run_cmd([os.path.join(bindir, "fsops"), "unpriv", str(uid)], check=False, timeout=120)
    evs = [json.loads(l) for l in p.stdout.splitlines() if l.startswith("{")]
    recs = [e for e in evs if e.get("ev") == "unpriv"]
    end = [e for e in evs if e.get("ev") == "unpriv_end"]
    # permission-bit scenarios: what they left behind is compared by the driver's root parent (the unprivileged
    # child could not read a 0200 file): a scenario's result is "same" iff no differing path is its target
    differing = [p for e in evs if e.get("ev") == "unpriv_cmp" for p in e["differing_paths"]]
    target = {"copy_onto_d200": "/d200", "copy_onto_d600": "/d600", "copy_onto_d644": "/d644", "copy_from_0400_to_new": "/dir700/new",
              "file_copy_onto_fc200": "/fc200", "write_0200": "/w200", "append_0200": "/a200", "overwrite_0200_no_trunc": "/o200"}
    for r in recs:
        if r.get("cmp"):
            t = target.get(r["scenario"], "/dir300")
            r["same"] = not any(p == t or p.startswith(t + "/") for p in differing)
            if not r["same"]:
                r["note"] = (r.get("note", "") + " differing: %s" % [p for p in differing if p.startswith(t)]).strip()
    chk.extra["unprivileged_twin_trees_differ_at"] = differing
    if p.returncode != 0 or not end:
        raise core.ToolError("fsops unpriv failed rc=%s: %s" % (p.returncode, p.stderr[-1500:]))
    if end[0]["status"] != 0 or not recs:
        chk.violate({"op": "unprivileged", "expected": "returns", "got": "crashed", "detail": "unprivileged_uid"},
                    "the unprivileged child died (wait status %s) after %d scenarios: %s" % (end[0]["status"], len(recs), p.stderr[-300:]),
                    {"mode": "unpriv", "records": recs})
    if recs:
        path = os.path.join(chk.work, "unpriv.ndjson")
        core.write_ndjson(path, recs)
        res = core.run_tlc("FsUnpriv.tla", "FsUnpriv.cfg", workers=1, env={"TRACE": path}, timeout=300,
                           metadir=os.path.join(core.WORK, "tlc-meta", "FsUnpriv-%d" % os.getpid()))
        core.tlc_must_pass(res, "FsUnpriv")
        j = res.printed("JUDGED")[0]
        chk.add_tlc(res)
        chk.evaluations += len(recs)
        chk.traces += len(recs) - len(j["bad"])
        for i in j["bad"]:
            r = recs[i - 1]
            chk.violate({"op": r["op"], "expected": "ok", "got": r["tiny"], "detail": "unprivileged_uid:" + r["scenario"]},
                        "as uid %d: %s on %s: std::fs %s, tiny_std::fs %s (same result: %s) %s" % (uid, r["op"], r["scenario"], r["std"], r["tiny"], r["same"], r["note"]),
                        {"mode": "unpriv", "record": r})
    chk.extra["unprivileged_scenarios"] = [{k: r[k] for k in ("scenario", "op", "std", "tiny", "same")} for r in recs]
    if differing and all(r["same"] for r in recs):
        chk.violate({"op": "unprivileged", "expected": "same_tree", "got": "differs", "detail": "unprivileged_uid:twin_trees"},
                    "as uid %d the twin trees (std::fs vs tiny_std::fs) differ at %s" % (uid, differing[:10]), {"mode": "unpriv", "differing": differing})


def run_bigcopy(chk, bindir):
    """One copy of a sparse file larger than the kernel's per-call limit of copy_file_range
    (2 GiB - 4 KiB), so File::copy's loop really iterates.  Judged by the same rule as FsTree's
    CopyRef on a summary (length, first and last KiB)."""
    base = os.path.join(chk.work, "roots_big")
    os.makedirs(base, exist_ok=True)
    p = core.run_cmd([os.path.join(bindir, "fsops"), "bigcopy", base, str(2200 * 1024 * 1024), str(2300 * 1024 * 1024)],
                     check=False, timeout=1200)
    shutil.rmtree(base, ignore_errors=True)
    evs = [json.loads(l) for l in p.stdout.splitlines() if l.startswith("{")]
    chk.evaluations += 1
    if not evs:
        chk.violate({"op": "copy", "expected": "ok", "got": "crashed", "detail": "file_larger_than_one_chunk"},
                    "copy of a 2.2 GiB file died: " + p.stderr[-300:], {"mode": "bigcopy"})
        return
    ev = evs[0]
    ok = ev["res"]["class"] == "ok" and ev["got_len"] == ev["len"] and ev["head_ok"] and ev["tail_ok"]
    chk.extra["bigcopy"] = ev
    if ok:
        chk.traces += 1
    else:
        chk.violate({"op": "copy", "expected": "ok", "got": ev["res"]["class"], "detail": "file_larger_than_one_chunk"},
                    "copy_file of a %d-byte file over a %d-byte destination: %s, destination now %d bytes, head_ok=%s tail_ok=%s" % (
                        ev["len"], ev["dst_len"], json.dumps(ev["res"]), ev["got_len"], ev["head_ok"], ev["tail_ok"]),
                    {"mode": "bigcopy", "event": ev})


# ------------------------------------------------------------------------------------------
def vec_plan(v):
    segs = "".join(v["raw"]).split("/")
    return {"tree": v["tree"], "ops": [op("create_dir_all", segs)]}


def canon_tree(entries_tla):
    return sorted((tuple(e["p"]), json.dumps(e["n"], sort_keys=True)) for e in entries_tla)


def canon_dump(dump):
    out = []
    for e in dump:
        n = {"k": e["k"]}
        if e["k"] == "f":
            n["c"] = e["c"]
        if e["k"] == "l":
            n["t"] = e["t"]
        out.append((tuple(e["p"]), json.dumps(n, sort_keys=True)))
    return sorted(out)


def run(tier):
    chk = core.Check("C14", tier, "model_checking")
    rng = random.Random(chk.seed)
    bindir = core.cargo_build(bins=["fsops"])
    _BINDIR[0] = bindir
    chk.extra["watchdog_trips_not_reproduced"] = {"count": 0, "cases": []}
    nontrivial = set()

    bigread = start_bigread(chk, bindir, tier)
    # independent TLC jobs run concurrently (4 workers each)
    pool = concurrent.futures.ThreadPoolExecutor(max_workers=4)
    nsim, depth = (1500, 4) if tier == "quick" else (20000, 6)
    maxlen, bufmax = (5, 4) if tier == "quick" else (7, 6)
    fut_cda = pool.submit(cda_vectors, chk, "fixed", maxlen, bufmax, True, 4)
    dotlen = 5 if tier == "quick" else 6
    fut_cda_dot = pool.submit(cda_vectors, chk, "fixed", dotlen, dotlen - 1, True, 2, '"a", ".", "/"')
    fut_rd = pool.submit(core.run_tlc, "FsReadDir.tla", "FsReadDir.cfg", workers=2, timeout=900,
                         metadir=os.path.join(core.WORK, "tlc-meta", "FsReadDir-%d" % os.getpid()))
    fut_enum = pool.submit(gen_sequences, chk, "enum", 1, "all", 0, 4)
    fut_picks = pool.submit(gen_sequences, chk, "picks", depth, "all", nsim, 4)

    # ---- 1. create_dir_all: TLC model-checks the transcription, then conformance on the real code
    res, vecs = fut_cda.result()
    algo = "fixed"
    model_ok = res.ok
    if res.ok:
        chk.add_tlc(res)
    else:
        # the transcription of the current algorithm violates the post-condition IN THE MODEL: nothing is
        # reported from that; all vectors are replayed into the real code and judged at property level below
        res2, vecs = cda_vectors(chk, "fixed", maxlen, bufmax, False)
        core.tlc_must_pass(res2, "FsCda vectors")
        chk.add_tlc(res2)
    resd, vecsd = fut_cda_dot.result()        # the same with '.' in the alphabet ("./a", "a/./b", "a/.")
    if resd.ok:
        chk.add_tlc(resd)
        vecs = vecs + vecsd
    else:
        model_ok = False
        resd2, vecsd = cda_vectors(chk, "fixed", dotlen, dotlen - 1, False, 4, '"a", ".", "/"')
        core.tlc_must_pass(resd2, "FsCda vectors (dot alphabet)")
        chk.add_tlc(resd2)
        vecs = vecs + vecsd
    plans = [vec_plan(v) for v in vecs]
    runs, inc = run_plans(chk, bindir, [], plans, "cda")
    bad = judge(chk, runs, "cda")
    report(chk, bad, plans, "FsCda vectors")
    report_incidents(chk, inc, plans, "FsCda vectors")
    drift = []
    for v, r in zip(vecs, runs):
        if not r:
            continue
        chk.evaluations += 1
        ev = r[1]
        if ev["res"]["class"] != v["res"] or canon_dump(ev["tree"]) != canon_tree(v["after"]):
            drift.append({"raw": "".join(v["raw"]), "tree": tree_brief([dict(p=e["p"], **e["n"]) for e in v["tree"]]),
                          "model": v["res"], "real": ev["res"]["class"]})
        if len(v["tree"]) > 1 or "/" in v["raw"]:
            nontrivial.add(("cda", "".join(v["raw"]), json.dumps(v["tree"], sort_keys=True)))
    if drift:
        # does the pinned algorithm explain the code?  (evidence only; the scaled stack buffer is switched
        # off - BufMax = MaxLen - because real 5..7-character paths do not reach the real 512-byte limit)
        _, pv = cda_vectors(chk, "pinned", maxlen, maxlen, False)
        _, pvd = cda_vectors(chk, "pinned", dotlen, dotlen, False, 4, '"a", ".", "/"')
        pmap = {("".join(v["raw"]), json.dumps(v["tree"], sort_keys=True)): v for v in pv + pvd}
        agree = total = 0
        for v, r in zip(vecs, runs):
            pvv = pmap.get(("".join(v["raw"]), json.dumps(v["tree"], sort_keys=True)))
            if r and pvv:
                total += 1
                if r[1]["res"]["class"] == pvv["res"] and canon_dump(r[1]["tree"]) == canon_tree(pvv["after"]):
                    agree += 1
        algo = "pinned" if total and agree == total else "neither (pinned agrees on %d of %d)" % (agree, total)
    chk.extra["create_dir_all_model"] = {
        "transcription_satisfies_postcondition_in_model": model_ok, "vectors": len(vecs), "max_path_chars": maxlen,
        "model_conformance": not drift, "conforming_transcription": algo, "divergent_vectors": drift[:5], "divergent_count": len(drift)}
    chk.sample({"create_dir_all_vector": "".join(vecs[len(vecs) // 2]["raw"]), "predicted": vecs[len(vecs) // 2]["res"]})

    # ---- 1b. the ReadDir window logic (getdents into 512 bytes), exhaustively for <= 6 entries of 4 name lengths
    res = fut_rd.result()
    core.tlc_must_pass(res, "FsReadDir")
    chk.add_tlc(res)
    chk.extra["readdir_window_model_states"] = res.distinct

    # ---- 2. operation sequences generated by TLC
    inits, plans1, _ = fut_enum.result()
    if len(inits) != NINITS:
        raise core.ToolError("FsTreeGen has %d initial trees, the check expects %d" % (len(inits), NINITS))
    if tier == "quick":
        # every (operation, path spelling, prior state) once is 22k runs; quick keeps every operation on every
        # initial tree and every spelling, but thins the two-path operations
        light = ("exists", "metadata", "remove_file", "remove_dir", "create_dir", "read", "read_string", "fread_string", "oopen")
        keep = [p for k, p in enumerate(plans1)
                if (p["ops"][0]["op"] in ("copy", "rename") and k % 3 == chk.seed % 3)
                or (p["ops"][0]["op"] in light and k % 2 == chk.seed % 2)
                or p["ops"][0]["op"] not in ("copy", "rename") + light]
        plans1 = keep
    _, plans_s, _ = fut_picks.result()
    plans2 = []
    if tier == "thorough":
        _, plans2, _ = gen_sequences(chk, "enum", 2, "core")
    allplans = plans1 + plans_s + plans2
    runs, inc = run_plans(chk, bindir, inits, allplans, "seq")
    bad = judge(chk, runs, "seq")
    report(chk, bad, allplans, "FsTreeGen", inits)
    report_incidents(chk, inc, allplans, "FsTreeGen", inits)
    okclass = 0
    for p, r in zip(allplans, runs):
        if not r:
            continue
        for ev in r[1:]:
            chk.evaluations += 1
            if ev["res"]["class"] == "ok":
                okclass += 1
                nontrivial.add((ev["o"]["op"], spell(ev["o"]["p"]), spell(ev["o"]["q"]), json.dumps(r[0]["tree"], sort_keys=True)) if len(r) == 2
                               else ("seq", json.dumps(p, sort_keys=True)))
    chk.sample({"sequence": [(o["op"], spell(o["p"]), spell(o["q"])) for o in plans_s[0]["ops"]], "init_tree": plans_s[0]["init"]})
    chk.sample({"sequence": [(o["op"], spell(o["p"]), spell(o["q"])) for o in plans1[len(plans1) // 3]["ops"]], "init_tree": plans1[len(plans1) // 3]["init"]})

    # ---- 3. scale cases
    splans = scale_plans(tier, rng)
    runs, inc = run_plans(chk, bindir, [], splans, "scale", nproc=4)
    bad = judge(chk, runs, "scale", par=2)
    report(chk, bad, splans, "scale cases")
    report_incidents(chk, inc, splans, "scale cases")
    for p, r in zip(splans, runs):
        if r:
            chk.evaluations += len(r) - 1
            nontrivial.add(("scale", json.dumps(p["ops"][0]["p"])[:80], len(p["tree"])))
    nf = run_fanout(chk, bindir, tier)
    run_dirmatrix(chk, bindir, tier)
    run_unpriv(chk, bindir)
    finish_bigread(chk, bigread)
    if tier == "thorough":
        run_bigcopy(chk, bindir)

    chk.nontrivial = len(nontrivial)
    chk.rule = ("distinct (operation, spelled path(s), initial tree) whose call succeeded (an effect or a value was checked "
                "against the model tree) + distinct multi-step sequences + create_dir_all vectors with a separator or a "
                "non-empty prior tree + scale cases; %d of %d judged calls returned Ok" % (okclass, chk.evaluations))
    chk.exhaustive = False
    chk.extra.update({"sequences_enumerated_len1": len(plans1), "sequences_sampled": len(plans_s), "sequence_depth": depth,
                      "sequences_enumerated_len2": len(plans2), "scale_plans": len(splans)})
    chk.assumptions = [
        "reference semantics of each operation = what the same-named std::fs function / system call does (FsTree.tla part 2); errno values are not compared",
        "operations on 'link/' (trailing separator on a symbolic link) and copy onto the same node are executed but not judged",
        "a failed create_dir_all / remove_dir_all / copy may leave partial effects inside its own target (FsTree!ErrTreeOk)",
        "one file system (the sandbox's ext4), root user, no concurrent modification; fifos are never opened for data",
        "create_dir_all transcription: alphabet {a,b,/}, <= %d characters, stack buffer scaled to %d; longer paths only via scale cases on the real code" % (maxlen, bufmax),
    ]
    return chk.finish()


def replay(path):
    rp = json.load(open(path))["replay"]
    chk = core.Check("C14", "quick", "model_checking")
    bindir = core.cargo_build(bins=["fsops"])
    if rp.get("mode") != "seq":
        print("replay of mode %s: rerun ./bin/check C14 thorough" % rp.get("mode"))
        return 0
    runs, inc = run_plans(chk, bindir, [], [rp["plan"]], "replay", nproc=1)
    bad = judge(chk, runs, "replay", par=1)
    for ev in (runs[0] or []):
        print(json.dumps(ev)[:600])
    print("replayed: incidents=%s rejected steps=%s" % (inc, [(j, ref) for _, j, _, _, ref in bad]))
    return 1 if bad or inc else 0


def selftest():
    """Anti-vacuity: a recorded run is accepted; the same run with one field corrupted is rejected."""
    import copy
    chk = core.Check("C14", "selftest", "model_checking")
    bindir = core.cargo_build(bins=["fsops"])
    plan = {"tree": [D([]), D(["a"]), F(["a", "f"], small([1, 2, 3]))],
            "ops": [op("write", ["a", "g"], c=small([7, 8])), op("copy", ["a", "g"], ["a", "f"]), op("create_dir_all", ["x", "y", ""]),
                    op("read_dir", ["a"]), op("remove_dir_all", ["a"])]}
    runs, inc = run_plans(chk, bindir, [], [plan], "selftest", nproc=1)
    good = runs[0]
    variants = {"unchanged": good}
    v = copy.deepcopy(good)
    v[2]["tree"] = [e for e in v[2]["tree"] if e["p"] != ["a", "g"]] + [{"p": ["a", "g"], "k": "f", "c": small([7, 8, 9])}]
    variants["content_of_written_file_changed"] = v
    v = copy.deepcopy(good)
    v[1]["res"]["class"] = "err"
    variants["ok_reported_as_err"] = v
    v = copy.deepcopy(good)
    v[3]["tree"] = [e for e in v[3]["tree"] if e["p"] != ["x", "y"]]
    variants["created_leaf_missing_from_dump"] = v
    v = copy.deepcopy(good)
    v[4]["res"]["v"] = [x for x in v[4]["res"]["v"] if x[0] != "g"]
    variants["listing_lost_an_entry"] = v
    v = copy.deepcopy(good)
    v[5]["tree"] = v[4]["tree"]
    variants["remove_dir_all_left_the_tree"] = v
    ok = True
    for name, run in variants.items():
        for k, e in enumerate(run):
            e["id"] = 0
        bad = judge(chk, [run], "selftest_" + name, par=1)
        verdict = "accepted" if not bad else "rejected at step %s" % [b[1] for b in bad]
        expect = "accepted" if name == "unchanged" else "rejected"
        print("selftest %-36s %s" % (name, verdict))
        ok &= verdict.startswith(expect)
    print("C14 selftest", "OK" if ok else "FAILED")
    return 0 if ok else 2
