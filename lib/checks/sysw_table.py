"""Wrapper table of C09, generated from the source: every `syscall!(NAME, ..)` site of rusl that
is compiled for x86_64 outside test code, with its enclosing function and the public functions
through which it is reachable inside its file."""
import os
import re

from vlib import core

# sites that are not result-decoding wrappers (reason recorded in the evidence)
EXCLUDED = {
    ("process/exit.rs", "exit"): "never returns (exit); there is no result to decode",
    ("process/signal.rs", "restorer"): "signal trampoline (rt_sigreturn), not a wrapper",
}

FN_RE = re.compile(r"^\s*(pub(?:\([a-z]+\))?\s+)?(?:const\s+)?(?:unsafe\s+)?(?:extern\s+\"C\"\s+)?fn\s+([a-z_0-9]+)")


def _strip_tests(text):
    """drop `#[cfg(test)] mod x { .. }` bodies (the rest of the file when the module is inline);
    `#[cfg(test)] mod test;` declarations are just one line"""
    out = []
    lines = text.splitlines()
    i = 0
    while i < len(lines):
        if lines[i].strip() == "#[cfg(test)]" and i + 1 < len(lines):
            nxt = lines[i + 1].strip()
            if nxt.endswith(";"):
                i += 2
                continue
            if nxt.startswith("mod ") and nxt.endswith("{"):
                break
        out.append(lines[i])
        i += 1
    return "\n".join(out)


def _arch_excluded(lines, i):
    """a #[cfg(..target_arch..)] attribute without x86_64 within the 2 lines above line i"""
    for j in range(max(0, i - 2), i):
        l = lines[j].strip()
        if l.startswith("#[cfg(") and "target_arch" in l and "x86_64" not in l:
            return True
    return False


def scan(repo=None):
    root = os.path.join(repo or core.REPO, "rusl", "src")
    sites = []
    for d, _, files in os.walk(root):
        for n in sorted(files):
            if not n.endswith(".rs") or n == "test.rs" or n == "verif.rs":
                continue
            path = os.path.join(d, n)
            rel = os.path.relpath(path, root)
            lines = _strip_tests(open(path).read()).splitlines()
            fns = []  # (line, name, is_pub, arch_excluded)
            for i, l in enumerate(lines):
                m = FN_RE.match(l)
                if m:
                    fns.append((i, m.group(2), bool(m.group(1)), _arch_excluded(lines, i)))
            # call graph inside the file (which fn bodies mention which fn)
            bodies = {}
            for k, (i, name, pub, ax) in enumerate(fns):
                end = fns[k + 1][0] if k + 1 < len(fns) else len(lines)
                bodies.setdefault(name, "")
                bodies[name] += "\n".join(lines[i + 1:end])
            for i, l in enumerate(lines):
                if "syscall!(" not in l or l.strip().startswith("//"):
                    continue
                rest = l.split("syscall!(", 1)[1].strip()
                if not rest:
                    rest = lines[i + 1].strip()
                m = re.match(r"([A-Z0-9_]+)", rest)
                if not m:
                    continue
                enclosing = [f for f in fns if f[0] <= i]
                if not enclosing:
                    continue
                fl, fname, fpub, fax = enclosing[-1]
                # statement-level arch attribute: look above the statement start (let ... = {)
                st = i
                while st > fl and not re.match(r"^\s*(let|#\[)", lines[st]) and "syscall!" not in lines[st - 1]:
                    st -= 1
                if fax or _arch_excluded(lines, st) or _arch_excluded(lines, i):
                    continue
                # public entry points: fname itself or pub fns of the file that reach it
                entries = set()
                if fpub:
                    entries.add(fname)
                reach = {fname}
                changed = True
                while changed:
                    changed = False
                    for (_, name, pub, ax) in fns:
                        if name in reach or ax:
                            continue
                        if any(re.search(r"\b%s\(" % re.escape(r), bodies.get(name, "")) for r in reach):
                            reach.add(name)
                            changed = True
                for (_, name, pub, ax) in fns:
                    if name in reach and pub:
                        entries.add(name)
                sites.append({"file": rel, "line": i + 1, "fn": fname, "nr": m.group(1).lower(),
                              "entries": sorted(entries)})
    return sites


def coverage(sites, wrappers):
    """wrappers: `sysw list` records (fn = "<file>:<public fn>").  Returns (covered, uncovered,
    excluded, nr_mismatch)."""
    by_entry = {}
    for w in wrappers:
        f, fn = w["fn"].split(":")
        by_entry.setdefault((f, fn), []).append(w)
    covered, uncovered, excluded, mismatch = [], [], [], []
    for s in sites:
        key = (s["file"], s["fn"])
        if key in EXCLUDED:
            excluded.append(dict(s, reason=EXCLUDED[key]))
            continue
        ws = [w for e in s["entries"] for w in by_entry.get((s["file"], e), [])]
        if not ws:
            uncovered.append(s)
            continue
        covered.append(dict(s, wrappers=sorted({w["w"] for w in ws})))
        if not any(w["nr"] == s["nr"] for w in ws):
            mismatch.append(dict(s, table_nr=sorted({w["nr"] for w in ws})))
    return covered, uncovered, excluded, mismatch


def enum_coverage(wrappers, repo=None):
    """For every driver entry: the enum-typed parameters of the wrapper's signature (enums defined in
    rusl/src) and which of their variants some entry of that wrapper exercises (entry field
    `variant` contains "Enum::Variant").  Returns (required, uncovered) lists of "fn Enum::Variant"."""
    root = os.path.join(repo or core.REPO, "rusl", "src")
    enums = {}
    texts = {}
    for d, _, files in os.walk(root):
        for n in files:
            if n.endswith(".rs") and n != "test.rs":
                t = open(os.path.join(d, n)).read()
                texts[os.path.relpath(os.path.join(d, n), root)] = t
                for m in re.finditer(r"pub enum (\w+)\s*\{([^}]*)\}", t):
                    vs = [re.match(r"\s*(\w+)", l).group(1) for l in m.group(2).split(",")
                          if re.match(r"\s*(\w+)", l) and not l.strip().startswith("//")]
                    enums[m.group(1)] = [v for v in vs if v[0].isupper()]
    by_fn = {}
    for w in wrappers:
        by_fn.setdefault(w["fn"], []).append(w.get("variant", ""))
    required, uncovered = [], []
    for fn, variants in sorted(by_fn.items()):
        f, name = fn.split(":")
        t = _strip_tests(texts.get(f, ""))
        m = re.search(r"fn %s\s*(?:<[^>]*>)?\s*\(([^)]*)\)" % re.escape(name), t, re.S)
        if not m:
            continue
        for ty in re.findall(r":\s*&?(?:mut\s+)?(?:[\w:]+::)?(\w+)", m.group(1)):
            for v in enums.get(ty, []):
                key = "%s::%s" % (ty, v)
                required.append("%s %s" % (fn, key))
                if not any(key in x for x in variants):
                    uncovered.append("%s %s" % (fn, key))
    return required, uncovered


def flag_coverage(wrappers, repo=None):
    """Like enum_coverage for flag-typed parameters: every constant of every flag type (bitflag
    structs and const-carrying newtypes of rusl/src) that a wrapper takes directly as a parameter
    must be exercised by an entry of that wrapper whose `variant` names "Type::CONST"."""
    from checks import gen_sysw_flags as G
    types = G.flag_types(repo)
    root = os.path.join(repo or core.REPO, "rusl", "src")
    by_fn = {}
    for w in wrappers:
        by_fn.setdefault(w["fn"], []).append(w.get("variant", ""))
    required, uncovered, excluded = 0, [], []
    for fn, variants in sorted(by_fn.items()):
        f, name = fn.split(":")
        try:
            t = _strip_tests(open(os.path.join(root, f)).read())
        except OSError:
            continue
        m = re.search(r"fn %s\s*(?:<[^>]*>)?\s*\(([^)]*)\)" % re.escape(name), t, re.S)
        if not m:
            continue
        for ty in sorted(set(re.findall(r":\s*&?(?:mut\s+)?(?:[\w:]+::)?(\w+)", m.group(1)))):
            if ty not in types:
                continue
            if (fn, ty) in G.EXCLUDED:
                excluded.append({"param": "%s %s" % (fn, ty), "reason": G.EXCLUDED[(fn, ty)]})
                continue
            for c in types[ty]:
                required += 1
                key = "%s::%s" % (ty, c)
                if not any(key == x or key in x.split("+") for x in variants):
                    uncovered.append("%s %s" % (fn, key))
    return required, uncovered, excluded
