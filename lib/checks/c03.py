"""C03 - allocator: live blocks aligned, disjoint, accessible, intact; OOM gives null and the heap
stays usable.  TLC model-checks the property-level design (AllocAbs.tla), generates call
histories (AllocGen.tla) that are replayed into the real Dlmalloc over a simulated OS, and judges
every recorded step against the invariants of AllocAbs (AllocTrace.tla)."""
import concurrent.futures
import copy
import os
import re
import time

from vlib import core
from checks import alloc_common as A
try:
    from checks import galloc_part
except ImportError:      # the add-on part is optional
    galloc_part = None

PID = "C03"


def fixed_alphabet(k):
    """the reduced alphabet of the exhaustive part: one request per region of the allocator"""
    g, t = k["granularity"], k["trim_threshold"]
    min_large = 1 << k["treebin_shift"]
    allocs = [["m", 24, 1],                       # minimal chunk boundary
              ["m", min_large - 23, 16],          # first request served from the tree bins
              ["c", 2 * min_large - 7, 64],       # zeroed, over-aligned, tree-bin boundary
              ["m", g - 103, 32],                 # one byte more than a single granule holds
              ["m", t, 4096]]                     # trim threshold, page aligned
    resizes = [40, 2 * g + 1]
    return allocs, resizes


def random_alphabet(rng, k, nalloc, nresize, big_ok=True):
    sizes = A.boundary_sizes(k)
    if not big_ok:
        sizes = A.small_classes(k)
    allocs = []
    for _ in range(nalloc):
        s = rng.choice(sizes)
        s = max(1, s + rng.choice([0, 0, 0, 1, -1, 7, -7]))
        allocs.append([rng.choice(["m", "m", "m", "c"]), s, rng.choice(A.ALIGNS)])
    resizes = [max(1, rng.choice(sizes) + rng.choice([0, 1, -1])) for _ in range(nresize)]
    return allocs, resizes


def selftest_judge(chk, runs):
    """anti-vacuity of the binding: corrupt single logged fields of an accepted run; the judge
    must reject every corrupted copy"""
    src = None
    for r in runs:
        if (sum(1 for e in r if e["ev"] == "os" and e["call"] == "mmap" and e["off"] >= 0) >= 1
                and sum(1 for e in r if e["ev"] == "ret" and e["off"] >= 0) >= 2 and r[-1]["ev"] == "end"):
            src = r
            break
    if src is None:
        raise core.ToolError("judge self-test: no suitable accepted run")
    variants = []

    def mutate(name, expect, fn):
        r = copy.deepcopy(src)
        r[0]["run"] = 900000 + len(variants)
        r[0]["plan"] = 0
        fn(r)
        variants.append((name, expect, r))
    placed = [i for i, e in enumerate(src) if e["ev"] == "ret" and e["off"] >= 0]
    maps = [i for i, e in enumerate(src) if e["ev"] == "os" and e["call"] == "mmap" and e["off"] >= 0]

    def misalign(r):
        i = next(i for i in placed if r[i - 1]["ev"] in ("call", "os"))
        # move the block by one byte: misaligned unless align 1; overlapping is not implied
        for j in range(i, -1, -1):
            if r[j]["ev"] == "call":
                r[j]["align"] = max(r[j]["align"], 2)
                break
        r[i]["off"] |= 1
    mutate("misaligned result", "Aligned", misalign)
    mutate("second block on top of the first", "Disjoint", lambda r: r[placed[1]].__setitem__("off", r[placed[0]]["off"]))
    mutate("mmap event dropped", "Accessible", lambda r: r.pop(maps[0]))
    mutate("content flag cleared", "Intact", lambda r: r[placed[0]].__setitem__("ok", False))
    mutate("null without refusal", "NullJustified", lambda r: r[placed[0]].__setitem__("off", -1))
    ev = [e for _, _, r in variants for e in r]
    sub = core.Check(PID, chk.tier, "model_checking")
    sub.work = chk.work
    _, bad = A.judge(sub, ev, "selftest", procs=1)
    chk.states += sub.states
    chk.transitions += sub.transitions
    got = {}
    for b in bad:
        got.setdefault(b["run_index"], set()).update(b["inv"])
    res = {}
    for vi, (name, expect, _) in enumerate(variants):
        res[name] = expect in got.get(vi, set())
        if not res[name]:
            raise core.ToolError("judge self-test: corrupted trace '%s' was not rejected by %s (got %s)" % (name, expect, got.get(vi)))
    return res


def run(tier):
    chk = core.Check(PID, tier, "model_checking")
    quick = tier == "quick"
    k = A.code_constants()
    pool = concurrent.futures.ThreadPoolExecutor(max_workers=4)

    # ---- the design model, in the background: all invariants on the bounded state space,
    # every action fires, reachability probes
    def design():
        res = A.model_check(chk, "AllocAbs_MC03q.cfg" if quick else "AllocAbs_MC03t.cfg", "AllocAbs C03 design model",
                            coverage=quick, workers=4 if quick else 8, timeout=2400)
        cov = A.coverage_counts(res) if quick else {}
        if not quick:
            res2 = A.model_check(chk, "AllocAbs_MC03q.cfg", "AllocAbs C03 design model (coverage)", coverage=True, workers=4)
            cov = A.coverage_counts(res2)
        probes = {}
        for inv in ("NeverNull", "NeverTwoLive", "NeverUnmapDuringFree"):
            probes[inv] = A.probe_violable(chk, "AllocAbs_MC03q.cfg", inv, {}, inv)
        # algorithm level: the chunk-level design refines AllocAbs, keeps the layout invariants
        # and shows the slack of NoGratuitousMap sufficient (DlHeapMC.tla)
        dl = core.run_tlc("DlHeapMC.tla", "DlHeapMC.cfg", workers=4, timeout=1200, xmx="4g", coverage=True)
        core.tlc_must_pass(dl, "DlHeapMC (chunk-level design => AllocAbs)")
        chk.add_tlc(dl)
        dcov = {}
        for m in re.finditer(r"^<(Do?D\w+|D\w+) line \d+, col \d+ to line \d+, col \d+ of module DlHeapMC>: (\d+):(\d+)", dl.out, re.M):
            dcov[m.group(1)] = max(dcov.get(m.group(1), 0), int(m.group(3)))
        silent = [a for a in ("DBeginMalloc", "DBeginFree", "DoDTakeFree", "DTakeTop", "DSysAlloc", "DSysRefused", "DRetNull",
                              "DFreeCoalesce", "DTrim", "DoDReleaseSeg", "DRetFree") if dcov.get(a, 0) == 0]
        if silent:
            raise core.ToolError("actions of DlHeapMC never taken: %s (%s)" % (silent, dcov))
        chk.extra["chunk_level_design"] = {"module": "DlHeapMC.tla", "states": dl.distinct, "action_coverage": dcov,
                                           "checked": ["all AllocAbs invariants", "LayoutOK", "RefinesAbs", "SlackSufficient"]}
        return res, cov, probes
    fut_design = pool.submit(design)

    bin_dbg = A.build(release=False)
    bin_rel = A.build(release=True)
    # add-on part (builder-threads): the REAL private #[global_allocator] GlobalDlMalloc in a no-libc
    # probe (features executable + threaded + global-allocator), 1/2/4 threads, judged with this
    # property's invariants of AllocAbs; runs concurrently with the drivers below
    from checks.c04 import _PartProxy      # wall-clock verdicts of the part under overload become notes
    fut_ga = pool.submit(galloc_part.run_part, _PartProxy(chk), tier) if galloc_part else None

    # ---- TLC-generated histories
    depth = 4 if quick else 5
    nalloc, nresize, nslots = 5, 2, 3
    hists = A.generate(chk, "hist", depth, nslots, nalloc, nresize)
    # quick: the exhaustive part is every history of depth-1 (the distinct prefixes), the full
    # depth is sampled below; thorough: every history of the full depth
    fixed_depth = depth - 1 if quick else depth
    fixed = sorted({tuple(map(tuple, h[:fixed_depth])) for h in hists})
    allocs, resizes = fixed_alphabet(k)
    classes = A.small_classes(k)
    plans = []
    for h in fixed:
        ops = A.bind_history(h, allocs, resizes)
        for osd in ("b", "a", "d"):
            plans.append({"kind": "hist", "slots": nslots, "ops": ops, "os": osd, "refuse_each": osd == "b", "walk": True, "amplify": True, "src": "tlc-fixed"})
    n_fixed = len(plans)
    # the same structures over other boundary alphabets, started from a non-empty, churned heap
    rng = A.rng_for(chk, "c03")
    n_rot = 700 if quick else 3500
    for i in range(n_rot):
        h = hists[rng.randrange(len(hists))]
        al, rs = random_alphabet(rng, k, nalloc, nresize, big_ok=(i % 4 == 0))
        plans.append({"kind": "hist", "slots": nslots, "ops": A.bind_history(h, al, rs), "os": rng.choice("bad"),
                      "oseq": [rng.choice("bad") for _ in range(4)], "refuse_each": i % 3 == 0,
                      "warm": rng.randrange(1, 1 << 30) if i % 2 == 0 else 0, "classes": classes, "walk": i % 2 == 1, "amplify": i % 2 == 0, "src": "tlc-rotated"})
    # seeded random long histories with random placement and random refusals
    n_rand, n_ops = (70, 300) if quick else (500, 600)
    rand_plans = []
    for i in range(n_rand):
        big = i % 8 == 0
        rand_plans.append({"kind": "rand", "seed": rng.randrange(1, 1 << 40), "n": n_ops if not big else n_ops // 4,
                           "slots": rng.choice([8, 24, 64]), "max": (40 << 20) if big else rng.choice([2048, 70000, 300000]),
                           "max_live": (160 << 20) if big else (24 << 20),
                           "rand_place": True, "os": rng.choice("bad"), "rand_refuse": rng.choice([0, 20, 100, 300]),
                           "classes": A.boundary_sizes(k) if big else classes, "aligns": A.ALIGNS, "src": "random"})
    # directed family "the heap grows onto a free first chunk": the first chunk of a segment is made
    # the designated victim (malloc A, malloc B, free A, malloc C < A splits A: remainder = dv, free C:
    # dv grows back to the segment start) or a binned free chunk (no C), then a request that needs the
    # OS; with placement "below" the new mapping is prepended and merged with that first chunk
    # (prepend_alloc, branches oldfirst == dv / oldfirst free), then the block behind it is freed
    # (backward coalescing trusts the merged chunk's foot) and the space is handed out again
    for a_sz in (56, 120, 200, 232, 300, 1016):
        for b_sz in (24, 100, 504):
            for c_sz in (None, a_sz // 2, max(1, a_sz - 48), 24):
                for d_sz in (k["granularity"] - 103, 100000, k["trim_threshold"]):
                    ops = [["m", 0, a_sz, 16], ["m", 1, b_sz, 16], ["f", 0]]
                    if c_sz is not None:
                        ops += [["m", 0, c_sz, 16], ["f", 0]]
                    ops += [["m", 2, d_sz, 16], ["f", 1], ["m", 0, a_sz + b_sz, 16], ["m", 1, 40, 16]]
                    for osd in ("b", "a", "d"):
                        if quick and osd != "b" and c_sz not in (None, a_sz // 2):
                            continue      # quick: the control placements only for two of the four shapes
                        plans.append({"kind": "hist", "slots": 4, "ops": ops, "os": osd, "refuse_each": osd == "b" and c_sz == 24,
                                      "walk": True, "amplify": True, "src": "directed-grow-onto-free-first-chunk"})
    # directed family "a retired segment with one minimal live block": under disjoint placement a segment
    # is filled so that exactly a minimal chunk of top is left when the next mapping retires it (the
    # remainder is binned), that chunk is then allocated (the segment's LAST chunk is a live minimal
    # block; mirror: its FIRST chunk), everything else in the segment is freed and a release pass is
    # forced (a block above the trim threshold freed into top of the head segment): the segment must not
    # be unmapped while the survivor lives; the survivor is verified and used afterwards
    for big1 in (60000, 200000):
        for tiny in (1, 24):
            for keep in (16, 32):
                for mirror in (False, True):
                    if not mirror:
                        ops = [["m", 0, big1, 16], ["t", 1, keep], ["m", 2, 3 * k["trim_threshold"] // 2, 16], ["m", 3, tiny, 16],
                               ["f", 0], ["f", 1], ["f", 2], ["r", 3, 20], ["m", 0, 5000, 16], ["f", 3], ["f", 0]]
                    else:
                        ops = [["m", 3, tiny, 16], ["m", 0, big1, 16], ["t", 1, keep], ["m", 2, 3 * k["trim_threshold"] // 2, 16],
                               ["f", 0], ["f", 1], ["f", 2], ["r", 3, 20], ["m", 0, 5000, 16], ["f", 3], ["f", 0]]
                    for osd in ("d", "b", "a"):
                        plans.append({"kind": "hist", "slots": 4, "ops": ops, "os": osd, "walk": True,
                                      "src": "directed-retired-segment-with-minimal-survivor"})
    # directed family "the N-th large free empties a retired segment": the periodic release pass of free
    # (every MAX_RELEASE_CHECK_RATE-th free that files a chunk into a tree bin) is driven: under disjoint
    # placement a block A in a retired segment, then N counted frees (malloc 300 / free next to a live pin:
    # tree-binned, quiet), then free(A) - the free that makes the whole segment one free chunk - for N
    # around the rate, so that it is the free just before, exactly at and just after the pass
    rate = 4095
    m_rate = re.search(r"const\s+MAX_RELEASE_CHECK_RATE\s*:\s*usize\s*=\s*(\d+)", open(os.path.join(core.REPO, "tiny-std/src/allocator/dlmalloc.rs")).read())
    if m_rate:
        rate = int(m_rate.group(1))
    fill = k["granularity"] - 120      # leaves exactly a minimal chunk of top in a one-granule segment
    for n_before in (range(rate - 2, rate + 1) if quick else range(rate - 4, rate + 3)) if rate <= 10000 else ():
        loop = []
        for _ in range(n_before - 1):
            loop += [["m", 2, 300, 16], ["f", 2]]
        # A fills its segment up to a 32-byte remainder, the next mapping retires the segment (remainder
        # binned), X/pin live in the head segment; free(A) is counted free number n_before + 1
        ops = ([["m", 0, fill, 16], ["m", 1, 200000, 16], ["m", 2, 300, 16], ["m", 3, 40, 16], ["f", 2], ["q", 0, 1]] + loop
               + [["q", 0, 0], ["f", 0], ["m", 0, 5000, 16], ["m", 2, 300, 16], ["f", 2], ["f", 0], ["f", 3], ["f", 1]])
        plans.append({"kind": "hist", "slots": 4, "ops": ops, "os": "d", "walk": False, "watchdog": 300,
                      "src": "directed-nth-large-free-empties-retired-segment"})
    # unsatisfiable requests (legal layouts far beyond what any OS grants): null, nothing lost,
    # the heap stays usable; logged sizes are clamped to 2^29 (>= Huge) for TLC's integers
    for i, huge in enumerate([1 << 31, 1 << 40, (1 << 62) + 12345, (1 << 63) - 4096 - 1]):
        for al in (16, 4096):
            plans.append({"kind": "hist", "slots": 4, "os": "bad"[i % 3], "walk": True, "src": "unsatisfiable",
                          "ops": [["m", 0, 40, al], ["m", 1, huge, al], ["r", 0, huge], ["c", 2, huge, 16], ["m", 3, 233, 16],
                                  ["r", 0, 70000], ["f", 3], ["r", 0, huge - 7], ["f", 0]]})
    # tree-heavy random histories: many distinct large sizes in the same tree bins
    for i in range(30 if quick else 300):
        tree = sorted(rng.randrange(256, 40000) for _ in range(40))
        rand_plans.append({"kind": "rand", "seed": rng.randrange(1, 1 << 40), "n": n_ops, "slots": 64, "max": 40000,
                           "max_live": 24 << 20, "rand_place": True, "os": rng.choice("bad"), "rand_refuse": rng.choice([0, 30]),
                           "classes": tree, "aligns": [16, 32, 64], "src": "random-tree-heavy"})
    if not quick:
        # every refusal position in 200 fixed seed histories
        for i in range(150):
            h = [rng.choice(hists) for _ in range(8)]
            al, rs = random_alphabet(rng, k, nalloc, nresize, big_ok=False)
            ops = []
            for part in h:
                ops += A.bind_history(part, al, rs)
            plans.append({"kind": "hist", "slots": nslots, "ops": ops, "os": rng.choice("bad"), "refuse_each": True,
                          "classes": classes, "src": "refuse-every-position"})

    # real-OS runs: no hook table, the raw mmap/mremap/munmap wrappers of dlmalloc.rs run against
    # the real kernel (own driver process without arena reservation); Accessible is not judged
    # there, a fault of the recorder on a block is a crash event
    real_plans = [{"kind": "hist", "slots": nslots, "ops": A.bind_history(h, allocs, resizes), "real": True, "src": "real-os"}
                  for h in (fixed[::2] if quick else fixed[:4000])]
    for i in range(40 if quick else 300):
        real_plans.append({"kind": "rand", "seed": rng.randrange(1, 1 << 40), "n": 300, "slots": rng.choice([8, 24]),
                           "max": rng.choice([2048, 300000, 3 << 20]), "max_live": 16 << 20, "classes": classes,
                           "aligns": A.ALIGNS, "real": True, "src": "real-os-random"})
    # real-OS runs under a kernel that REFUSES mremap / munmap (seccomp filter in the driver process:
    # ENOMEM): histories that trim (a block above the trim threshold freed at top) while other blocks stay
    # live; the failure paths of the raw wrappers run (syscall_free_part falls back to munmap, syscall_free
    # reports failure and the allocator backs out); every live block is verified afterwards, the heap must
    # stay usable
    t_sz = k["trim_threshold"]
    deny_plans = [p for p in real_plans if any(op[0] in ("m", "c") and op[2] >= t_sz for op in p.get("ops", []))]
    for keep_sz in (40, 70000, 3 * t_sz, 5 * t_sz):
        for big in (t_sz + 4096, 2 * t_sz, 3 * t_sz):
            for tail in (False, True):
                ops = [["m", 0, keep_sz, 16], ["m", 1, big, 16]] + ([["m", 2, 100, 16], ["f", 2]] if tail else [])
                ops += [["f", 1], ["m", 2, 5000, 64], ["r", 0, keep_sz + 1000], ["m", 1, big // 2, 4096], ["f", 1], ["f", 2]]
                deny_plans.append({"kind": "hist", "slots": 4, "ops": ops, "real": True, "amplify": True, "src": "real-os-refusing-kernel"})
    deny_plans += [p for p in real_plans if p.get("kind") == "rand"][:20 if quick else 150]
    # fork (real OS): blocks allocated and filled, fork, the child overwrites every block, uses the
    # allocator and exits, the parent goes on - its blocks must be untouched (Intact) and the kernel must
    # report the mapping that holds a live block as private, anonymous, rw (PrivateAnonymous)
    for sizes in ([5000, 100000], [40, 3 * k["trim_threshold"] // 2, 1016], [24, 233, 65433, 300000]):
        ops = [["m", i, sz, 16] for i, sz in enumerate(sizes)] + [["k", 0, 0], ["r", 0, sizes[0] + 1000], ["m", 5, 200, 16], ["k", 0, 0],
                                                               ["f", 1], ["m", 1, 70000, 64], ["k", 0, 0], ["f", 5]]
        real_plans.append({"kind": "hist", "slots": 6, "ops": ops, "real": True, "src": "real-os-fork"})
    # debug build (internal assertions on): everything; release build: the sampled parts
    # (re-bound sequences, refusal at every position, random histories).  Plans are processed in
    # chunks so that memory stays bounded in the thorough tier.
    rel_fixed = []
    jobs = [("debug", bin_dbg, plans + rand_plans), ("release", bin_rel, rel_fixed + plans[n_fixed:] + rand_plans)]
    CH = 6000
    work = [(build, bindir, pl[i:i + CH], i, False, None) for build, bindir, pl in jobs for i in range(0, len(pl), CH)]
    work += [("debug-realos", bin_dbg, real_plans, 0, True, None), ("release-realos", bin_rel, real_plans, 0, True, None)]
    work += [("release-realos-deny-mremap", bin_rel, deny_plans, 0, True, "mremap"),
             ("debug-realos-deny-mremap", bin_dbg, deny_plans, 0, True, "mremap"),
             ("release-realos-deny-munmap", bin_rel, deny_plans, 0, True, "munmap")]
    if not quick:
        work += [("release-realos-deny-both", bin_rel, deny_plans, 0, True, "mremap,munmap"),
                 ("debug-realos-deny-munmap", bin_dbg, deny_plans, 0, True, "munmap")]
    nontrivial = set()
    first_runs = []
    stats = {"runs": 0, "events": 0, "ops": 0, "os_requests": 0, "refusals": 0, "null_results": 0, "panics": 0,
             "crashes": 0, "unmaps": 0, "real_os_runs": 0, "real_os_runs_skipped": 0}
    t0 = time.time()
    nxt = pool.submit(A.run_driver, chk, work[0][1], work[0][2], "%s_%d" % (work[0][0], work[0][3]), 1800, work[0][4], work[0][5]) if work else None
    for wi, (build, bindir, pl, off, real, deny) in enumerate(work):
        events, crashes = nxt.result()
        if wi + 1 < len(work):
            w2 = work[wi + 1]
            nxt = pool.submit(A.run_driver, chk, w2[1], w2[2], "%s_%d" % (w2[0], w2[3]), 1800, w2[4], w2[5])
        t1 = time.time()
        runs, bad = A.judge(chk, events, "%s_%d" % (build, off), procs=6)
        core.log("%s build, plans %d..%d: driver done at +%.1fs (%d events), TLC judge %.1fs" % (
            build, off, off + len(pl), t1 - t0, len(events), time.time() - t1))
        A.report(chk, runs, bad, pl, A.C03_INV, k, build)
        if not first_runs:
            first_runs = [(pl[r[0]["plan"]], r) for r in runs[:2]]
            good_runs = runs
        stats["crashes"] += len(crashes)
        stats["runs"] += len(runs)
        stats["events"] += len(events)
        if real:
            stats["real_os_runs"] += len(runs)
            stats["real_os_runs_skipped"] += sum(1 for r in runs if any(e["ev"] == "skip" for e in r))
        for r in runs:
            nlive = 0
            maxlive = 0
            freed = False
            reuse = False
            refused = False
            after_refusal_ok = False
            cur = "none"
            for e in r:
                ev = e["ev"]
                if ev == "call":
                    stats["ops"] += 1
                    cur = e["op"]
                elif ev == "os":
                    if e["call"] == "mmap":
                        stats["os_requests"] += 1
                        if e["off"] < 0:
                            stats["refusals"] += 1
                            refused = True
                    else:
                        stats["unmaps"] += 1
                elif ev == "ret":
                    if cur == "free":
                        nlive -= 1
                        freed = True
                    elif e["off"] < 0:
                        stats["null_results"] += 1
                    else:
                        if cur != "realloc":
                            nlive += 1
                        if freed:
                            reuse = True
                        if refused:
                            after_refusal_ok = True
                    maxlive = max(maxlive, nlive)
                elif ev == "panic":
                    stats["panics"] += 1
            plan = pl[r[0]["plan"]]
            if maxlive >= 2 and reuse:
                nontrivial.add((A.history_key(plan), r[0].get("variant"), "refusal-survived" if after_refusal_ok else "plain"))
        if wi == 0:
            st = selftest_judge(chk, good_runs)
        del events, runs
    chk.evaluations = stats["ops"]
    chk.nontrivial = len(nontrivial)
    for plan, r in first_runs:
        chk.sample({"plan": plan["ops"], "os": plan["os"], "events": [A.slim(e) for e in r[1:8]]})

    if fut_ga is not None:
        fut_ga.result()
    res, cov, probes = fut_design.result()
    pool.shutdown()
    silent = [a for a in A.ACTIONS if cov.get(a, 0) == 0]
    if silent:
        raise core.ToolError("actions of AllocAbs never taken in the bounded model: %s (coverage %s)" % (silent, cov))
    unreached = [p for p, ok in probes.items() if not ok]
    if unreached:
        raise core.ToolError("reachability probes not reached in the bounded model: %s" % unreached)

    chk.exhaustive = False
    chk.rule = ("TLC model-checks AllocAbs (design: blocks placed at ANY aligned/mapped/unoccupied address, null only after an OS "
                "refusal, unmap only of block-free memory) on a %s-byte arena with 2 blocks and all invariants; TLC (AllocGen) "
                "enumerates all %d call sequences of depth %d over 3 slots / %d allocation classes / %d realloc classes; each of the %d sequences of depth %d is "
                "replayed into the real Dlmalloc (debug build: internal assertions on) under 3 OS placement policies and with the "
                "kernel refusing at every mapping position, plus %d re-bindings of full-depth sequences to random size-class-boundary alphabets from "
                "churned heaps and %d seeded random histories (debug+release); every recorded step is judged by TLC against "
                "AllocAbs' invariants. non-trivial = distinct (history, refusal position) with >= 2 blocks live at once and an "
                "allocation after a free" % ("12" if quick else "16", len(hists), depth, nalloc, nresize, len(fixed), fixed_depth, n_rot, n_rand))
    chk.assumptions = [
        "simulated OS: mmap/mremap/munmap served from a 1 GiB arena with placement below/above/disjoint/refuse; mremap never moves",
        "refusing kernel: a seccomp filter in the real-OS driver process makes every mremap / munmap (or both) fail with ENOMEM; the k-th-call-only variants are not done",
        "real-OS runs (raw syscall wrappers of dlmalloc.rs against the real kernel): offsets relative to a 1 GiB window around the first pointer, a run whose mappings leave the window is skipped (counted); Accessible and the C04 bounds are not judged there",
        "64-bit target only; request sizes: size-class boundaries of dlmalloc.rs (1 B .. 32 MiB+1) x alignments 1..8192, not every size",
        "content: owner pattern of every live block re-read around every call (all bytes while <= 512 KiB are live, ends+probes of big blocks beyond; every byte of a block when it is reallocated or freed and at the end of a run)",
        "null without an OS refusal is accepted only for requests >= 256 MiB",
        "the std-linked harness part is single-threaded and drives Dlmalloc directly; the private GlobalDlMalloc wrapper (Mutex + GlobalAlloc methods) is exercised by the add-on part global_allocator_part (no-libc probe, 1/2/4 threads) when it is present",
    ]
    chk.extra.update({
        "design_model": {"states": res.distinct, "depth": res.depth, "action_coverage": {a: cov.get(a, 0) for a in A.ACTIONS},
                         "reachability_probes": probes},
        "tlc_generated_histories": len(hists), "plans": len(plans) + len(rand_plans), "driver": stats,
        "judge_selftest": st, "code_constants": k, "invariants": A.C03_INV,
        "fixed_alphabet": {"allocs": allocs, "resizes": resizes},
    })
    return chk.finish()


def replay(path):
    return A.replay_file(path, PID)
