"""C17 - io_uring rings: exactly-once in-order hand-over both ways, across the u32 index wrap.

1. TLC checks Ring.tla (the ring protocol as coded, in product with the property-level monitor
   RingAbs) exhaustively on the bounded configurations and dumps their state graphs.
2. B1: a transition tour of every dumped graph (every edge of the model) is replayed step by step
   into the REAL IoUring methods over harness memory (hook H5) whose counters start at 2^32-H+m, in
   a debug (overflow checks) and a release build; every step is compared with the model.
   Larger configurations: `tlc -simulate` behaviours (RingGen.tla), visited model edges counted.
3. Bounded exhaustive exploration of the real code itself (every feasible operation sequence up to a depth,
   kernel side acting on the real shared words) and seeded random long runs.
4. B2: every run - toured, simulated, explored, random - is judged by TLC against the property-level
   trace specification RingTrace.tla.  Only this produces verdicts.
"""
import concurrent.futures as cf
import json
import os
import re
import shutil
import subprocess
import time

from vlib import core
from checks import ring_common as R

# (name, ns, nc, h, side, atomic reap+read)
QUICK_TOURS = [("sq1", 1, 1, 4, "sq", False), ("cq1", 1, 1, 4, "cq", False), ("sq2", 2, 2, 8, "sq", False),
               ("cq2", 2, 2, 8, "cq", False), ("sq4", 4, 4, 8, "sq", False), ("cq4", 4, 4, 8, "cq", False),
               ("cq4a", 4, 4, 8, "cq", True), ("cq2x4a", 2, 4, 8, "cq", True), ("both0", 1, 1, 2, "both", False)]
THOROUGH_TOURS = QUICK_TOURS + [("cq8", 8, 8, 16, "cq", False), ("cq8a", 8, 8, 16, "cq", True), ("sq8", 8, 8, 16, "sq", False),
                                ("both1", 1, 2, 4, "both", False), ("cq2x4", 2, 4, 8, "cq", False)]
SQPOLL, SQE128, CQE32 = 1 << 1, 1 << 10, 1 << 11
FLAG_SETS = {"quick": [0, SQPOLL | SQE128 | CQE32], "thorough": [0, SQPOLL, SQE128, CQE32, SQPOLL | SQE128 | CQE32]}
STALE = "content_overwritten_between_return_and_read"


def _md(name):
    """TLC runs of this check go on in parallel: give each its own metadir"""
    return os.path.join(core.WORK, "tlc-meta", "c17-%d-%s" % (os.getpid(), name))


def invariants_for(side, atomic):
    # the completion side as coded releases the slot before the caller reads it: that one clause (a known
    # finding) is excluded from the exhaustive runs with free interleaving and confirmed by an expected failure
    return ("TypeOK", "CountersConsistent", "PropertyHolds" if side == "sq" or atomic else "PropertyHoldsButStaleRead")


# --------------------------------------------------------------------------------------------
# the bounded argument lifted to the real counter width: inductive invariant of RingInd.tla, discharged by Apalache
# --------------------------------------------------------------------------------------------
# (name, kind, apalache arguments, what it says, quick tier?, timeout s)
OBLIGATIONS = [
    ("init_implies_indinv", "proof", ["--cinit=CInit", "--init=Init", "--inv=IndInv", "--length=0"],
     "Init => IndInv for every start value of the u32 counters, every ring size 1..32768", True, 90),
    ("indinv_implies_props", "proof", ["--cinit=CInit", "--init=IndInit", "--inv=Props", "--length=0"],
     "IndInv => the state-predicate clauses of RingAbs (slot refused only when full, no slot handed out before consumed, flushed = visible, in-order stamps, pending completion never refused, nothing posted over an unreturned completion)", True, 90),
    ("indinv_inductive", "proof", ["--cinit=CInit", "--init=IndInit", "--inv=IndInv", "--length=1"],
     "IndInv /\\ Next => IndInv' (W = 2^32, symbolic ring sizes)", False, 900),
    ("found_le_rejected", "expected_rejection", ["--cinit=CInitLE", "--init=IndInit", "--inv=Props", "--length=0"],
     "code as found (`tail <= head`): Apalache exhibits head = u32::MAX, tail = 0, one completion pending and refused", True, 90),
    ("found_plain_sub_rejected", "expected_rejection", ["--cinit=CInitPlain", "--init=IndInit", "--inv=Props", "--length=0"],
     "code as found (`next - head` without wrapping): a state satisfying IndInv in which get_next_sqe_slot panics", True, 90),
    ("found_plain_sub_not_inductive", "expected_rejection", ["--cinit=CInitPlain", "--init=IndInit", "--inv=IndInv", "--length=1"],
     "code as found (`next - head`): the step into the panic breaks the invariant", False, 600),
    ("probe_invariant_satisfiable_full_sq_across_wrap", "probe", ["--cinit=CInit", "--init=IndInit", "--inv=NotProbeSqFullAcrossWrap", "--length=0"],
     "IndInv admits a full submission ring that straddles the u32 wrap", False, 90),
    ("probe_pending_completion_across_wrap", "probe", ["--cinit=CInit", "--init=IndInit", "--inv=NotProbeCqPendingAcrossWrap", "--length=0"],
     "IndInv admits pending completions with the tail wrapped and the head not", False, 90),
    ("probe_held_reference_on_observed_slot", "probe", ["--cinit=CInit", "--init=IndInit", "--inv=NotProbeHeldJ", "--length=0"],
     "IndInv admits a held reference into the observed slot", False, 90),
]


def run_apalache(work, name, kind, args, says, timeout):
    """one obligation -> dict(name, kind, says, status, wall_s).  status: discharged | rejected_as_expected |
    not_discharged (time limit) | refuted | not_rejected | error"""
    d = os.path.join(work, "apalache-" + name)
    shutil.rmtree(d, ignore_errors=True)
    os.makedirs(d)
    cmd = ["timeout", str(timeout), "apalache-mc", "check", "--out-dir=" + os.path.join(d, "out"), "--run-dir=" + os.path.join(d, "run")] + args + ["RingInd.tla"]
    t0 = time.time()
    p = subprocess.run(cmd, cwd=core.SPECS, stdout=subprocess.PIPE, stderr=subprocess.STDOUT, text=True)
    wall = round(time.time() - t0, 1)
    out = p.stdout
    if p.returncode == 124:
        status = "not_discharged"
    elif "The outcome is: NoError" in out:
        status = "discharged" if kind == "proof" else "not_rejected"
    elif "The outcome is: Error" in out:
        status = "refuted" if kind == "proof" else "rejected_as_expected"
    else:
        status = "error"
    res = {"name": name, "kind": kind, "says": says, "status": status, "wall_s": wall, "time_limit_s": timeout}
    if status in ("refuted", "not_rejected", "error"):
        res["tail"] = out[-1500:]
    shutil.rmtree(d, ignore_errors=True)
    return res


def crosscheck(work, name, cfg_lines, module):
    """TLC checks that keep the typed copy RingInd.tla in step with Ring.tla"""
    cfg = os.path.join(work, "RingIndX_%s.cfg" % name)
    open(cfg, "w").write(cfg_lines)
    res = core.run_tlc(module, cfg, workers=2, timeout=900, metadir=_md("xc" + name))
    core.tlc_must_pass(res, "cross-check %s of RingInd against Ring" % name)
    return res


def x_cfg(ns, nc, h, js, jc, sq, cq):
    return ("CONSTANTS\n  NS = %d\n  NC = %d\n  H = %d\n  Side = \"both\"\n  SqStarts <- %s\n  CqStarts <- %s\n  Wrapping = TRUE\n"
            "  DebugChecks = TRUE\n  CqEmptyLE = FALSE\n  AtomicReapRead = TRUE\n  JS = %d\n  JC = %d\n"
            "  KSet <- [RingInd] KSetTLC\n  Counters <- [RingInd] CountersTLC\n  Rets <- [RingInd] RetsTLC\n"
            "INIT Init\nNEXT Next\nINVARIANTS IndInvHolds PropsHold InitIsInit\nPROPERTIES StepIsStep\nCHECK_DEADLOCK FALSE\n"
            % (ns, nc, h, sq, cq, js, jc))


def mc_and_dump(work, name, ns, nc, h, side, atomic, workers):
    cfg = os.path.join(work, "Ring_%s.cfg" % name)
    short = max(ns, nc) >= 8       # big rings: window around the wrap only (Ring_MC.tla ShortStarts / ShortLast)
    R.write_cfg(cfg, ns=ns, nc=nc, h=h, side=side, sq=("ShortStarts" if short else "AllStarts") if side != "cq" else "OneStart",
                cq=("ShortStartsC" if short else "AllStarts") if side != "sq" else "OneStart", wrapping=R.CODE_NOW["Wrapping"], debug="TRUE",
                le=R.CODE_NOW["CqEmptyLE"], atomic="TRUE" if atomic else "FALSE", invariants=invariants_for(side, atomic),
                extra_const="  Last <- ShortLast\n" if short else "")
    dot = os.path.join(work, "Ring_%s.dot" % name)
    res = core.run_tlc("Ring_MC.tla", cfg, workers=workers, timeout=1500, dump=dot, xmx="6g", metadir=_md(name))
    core.tlc_must_pass(res, "Ring_MC " + name)
    g = R.Graph(dot)
    os.unlink(dot)
    if len(g.nodes) != res.distinct:
        raise core.ToolError("dump of %s has %d nodes, TLC reported %d states" % (name, len(g.nodes), res.distinct))
    paths = g.tour(maxlen=160 if ns >= 8 else 120)
    return res, g, paths


def expect_failure(work, name, inv, what, **kw):
    """anti-vacuity / documentation runs: TLC MUST find a violation of `inv`"""
    cfg = os.path.join(work, "Ring_X_%s.cfg" % name)
    R.write_cfg(cfg, invariants=(inv,), **kw)
    res = core.run_tlc("Ring_MC.tla", cfg, workers=2, timeout=600, metadir=_md("x" + name))
    if inv not in res.invariant_violated:
        raise core.ToolError("expected TLC to violate %s on %s (%s) but it did not:\n%s" % (inv, name, what, res.out[-1500:]))
    m = re.findall(r'why \|-> "(\w*)"', res.out)
    st = re.findall(r"stale \|-> (\w+)", res.out)
    clause = (m[-1] if m else "") or (STALE if st and st[-1] == "TRUE" else "")
    return res, {"config": name, "invariant": inv, "shows": what, "clause": clause}


def big_ring_cfg(path, ns, h, side, atomic, io, extra=""):
    """ring sizes 16 / 32: one side, start values in a window around the wrap, horizon shortened, and for the
    submission side in-order fills (state constraint InOrderFill) - the configuration whose edges can be counted"""
    R.write_cfg(path, ns=ns, nc=ns, h=h, side=side, sq="ShortStarts" if side == "sq" else "OneStart",
                cq="ShortStartsC" if side == "cq" else "OneStart", wrapping=R.CODE_NOW["Wrapping"], le=R.CODE_NOW["CqEmptyLE"],
                atomic="TRUE" if atomic else "FALSE", invariants=("TypeOK", "CountersConsistent", "PropertyHolds" if side == "sq" or atomic else "PropertyHoldsButStaleRead"),
                extra_const="  Last <- ShortLast\n" + extra)
    if io:
        open(path, "a").write("CONSTRAINT InOrderFill\n")
    return path


def count_edges(work, name, ns, h, side, atomic, io):
    """exhaustive TLC run without a dump: how many transitions the configuration has"""
    cfg = big_ring_cfg(os.path.join(work, "RingBig_%s.cfg" % name), ns, h, side, atomic, io)
    res = core.run_tlc("Ring_MC.tla", cfg, workers=4, timeout=1500, xmx="6g", metadir=_md("big" + name))
    core.tlc_must_pass(res, "Ring_MC " + name)
    m = re.search(r"Finished computing initial states: (\d+) distinct", res.out)
    return res, res.generated - (int(m.group(1)) if m else 0)


def simulate_paths(work, name, ns, nc, h, atomic, num, depth, seed, big=None):
    cfg = os.path.join(work, "RingGen_%s.cfg" % name)
    if big:
        side, io = big
        big_ring_cfg(cfg, ns, h, side, atomic, io, extra="  D = %d\n" % depth)
        txt = open(cfg).read().replace("INVARIANTS TypeOK", "INVARIANTS Emit TypeOK")
        open(cfg, "w").write(txt)
    else:
        R.write_cfg(cfg, ns=ns, nc=nc, h=h, side="both", sq="NearWrap", cq="NearWrap", wrapping=R.CODE_NOW["Wrapping"],
                    le=R.CODE_NOW["CqEmptyLE"], atomic="TRUE" if atomic else "FALSE",
                    invariants=("Emit", "PropertyHolds" if atomic else "PropertyHoldsButStaleRead"), extra_const="  D = %d\n" % depth)
    txt = open(cfg).read().replace("INIT Init", "INIT GInit").replace("NEXT Next", "NEXT GNext")
    open(cfg, "w").write(txt)
    res = core.run_tlc("RingGen.tla", cfg, workers=1, simulate=num, depth=depth + 2, seed=seed, timeout=900, metadir=_md("g" + name))
    core.tlc_must_pass(res, "RingGen " + name)
    m = re.search(r"The number of states generated: (\d+)", res.out)
    generated = int(m.group(1)) if m else 0
    plans, exps, edges = [], [], set()
    for k, hist in enumerate(res.printed("B")):
        init = hist[0]["o"]
        plan = {"ns": ns, "nc": nc, "flags": 0, "h": h, "sq0": init["st"][1], "cq0": init["st"][5], "steps": []}
        exp = []
        prev = json.dumps(init, sort_keys=True)
        for s in hist[1:]:
            op, arg, o = s["op"], s["arg"], s["o"]
            plan["steps"].append([op, arg] if op in ("fill", "consume", "post") else [op])
            node = {"sqSlot": o["sqs"], "cqSlot": o["cqs"], "want": o["want"], "held": o["held"]}
            node.update(dict(zip(R.STVARS, o["st"])))
            exp.append((op, arg, node))
            edges.add((prev, op, arg))
            prev = json.dumps(o, sort_keys=True)
        plans.append(plan)
        exps.append(exp)
    return generated, plans, exps, len(edges)


BOUNDARY_BITS = (7, 8, 15, 16, 30, 31)     # besides 32: where an i8/u8, i16/u16, i32 reading of a counter changes sign or wraps


def replay_paths(chk, bindirs, stream, plans, exps, tag, source, stats, chunk=8000, boundaries=()):
    """run the plans on the real code (each build), compare every step with the model (B1), stream to the judge"""
    for k, p in enumerate(plans):
        p["run"] = k
    stats.update({"runs": 0, "steps_compared": 0, "divergent_runs": 0, "first_divergence": None})
    for c0 in range(0, len(plans), chunk):
        ppath = os.path.join(chk.work, "plan_%s_%d.ndjson" % (tag, c0))
        core.write_ndjson(ppath, plans[c0:c0 + chunk])
        stream.planfiles.append(ppath)
        for build, bits in [(b, None) for b in bindirs] + [(b, x) for x in boundaries for b in bindirs]:
            bindir = bindirs[build]
            env = {"VERIF_RING_BOUNDARY_BITS": str(bits)} if bits else None
            runs = R.run_harness(bindir, ["plan", ppath], env=env)
            if len(runs) != len(plans[c0:c0 + chunk]):
                raise core.ToolError("harness returned %d runs for %d plans" % (len(runs), len(plans[c0:c0 + chunk])))
            for i, (reset, evs) in enumerate(runs):
                k = c0 + i
                stream.add(reset, evs, group=tag, source="%s%s/%s" % (source, " around 2^%d" % bits if bits else "", build), plan_ref=(ppath, i), env=env)
                stats["runs"] += 1
                div = None
                for j, (op, arg, node) in enumerate(exps[k]):
                    d = R.compare_step(op, arg, node, evs[j] if j < len(evs) else None)
                    if d:
                        div = (j, d)
                        break
                    stats["steps_compared"] += 1
                if div:
                    stats["divergent_runs"] += 1
                    if stats["first_divergence"] is None:
                        stats["first_divergence"] = {"build": build, "run": k, "step": div[0], "diff": div[1], "plan": plans[k]}


def run(tier):
    chk = core.Check("C17", tier, "model_checking")
    quick = tier == "quick"
    t0 = time.time()
    bindirs = {"debug": core.cargo_build(bins=["ring"]), "release": core.cargo_build(bins=["ring"], release=True)}
    flagsets = FLAG_SETS[tier]
    tours = QUICK_TOURS if quick else THOROUGH_TOURS
    sims = [("sim4x8a", 4, 8, 16, True, 100 if quick else 1000, 60), ("sim8x8a", 8, 8, 16, True, 100 if quick else 1000, 80),
            ("sim8x8", 8, 8, 16, False, 40 if quick else 400, 80)]
    # ring sizes 16 and 32 (thorough): the completion ring of size 16 is toured; the others are too big to tour
    # (1.1 - 1.4 M edges): simulated behaviours, visited edges counted against the exhaustively counted total
    bigs = [] if quick else [("cq32", 32, 64, "cq", False, False, 600, 80), ("sq16io", 16, 32, "sq", False, True, 600, 80),
                             ("sq32io", 32, 64, "sq", False, True, 400, 120)]
    if not quick:
        tours = tours + [("cq16", 16, 16, 32, "cq", False)]
    xfs = [("found_debug", "PropertyHolds", "code as found, overflow-checked build: tail + 1 panics at u32::MAX",
            dict(ns=2, nc=2, h=8, side="sq", cq="OneStart", wrapping="FALSE", debug="TRUE", le="TRUE", atomic="TRUE")),
           ("found_release", "PropertyHolds", "code as found: `tail <= head` answers None after the tail wrapped",
            dict(ns=2, nc=2, h=8, side="cq", sq="OneStart", wrapping="FALSE", debug="FALSE", le="TRUE", atomic="TRUE")),
           ("stale_read", "PropertyHolds", "slot released before the caller reads through the reference (known finding)",
            dict(ns=2, nc=2, h=8, side="cq", sq="OneStart", atomic="FALSE"))]
    for probe, sd in (("ProbeSqFull", "sq"), ("ProbeCqFull", "cq"), ("ProbeHeldAndPost", "cq"), ("ProbeSqWrapped", "sq"), ("ProbeCqPending", "cq")):
        xfs.append((probe, probe, "reachability of the antecedent",
                    dict(ns=2, nc=2, h=8, side=sd, sq="AllStarts" if sd == "sq" else "OneStart", cq="AllStarts" if sd == "cq" else "OneStart")))
    # ---- phase A: all TLC model runs, in parallel (8 JVM worker threads in total at any time)
    with cf.ThreadPoolExecutor(max_workers=4) as pool, cf.ThreadPoolExecutor(max_workers=2) as apool:
        f_tours = {t[0]: pool.submit(mc_and_dump, chk.work, *t, workers=2) for t in tours}
        f_sims = {s[0]: pool.submit(simulate_paths, chk.work, *s, seed=chk.seed) for s in sims}
        f_bigsim = {b[0]: pool.submit(simulate_paths, chk.work, b[0], b[1], b[1], b[2], b[4], b[6], b[7], chk.seed, big=(b[3], b[5])) for b in bigs}
        f_bigcnt = {b[0]: pool.submit(count_edges, chk.work, b[0], b[1], b[2], b[3], b[4], b[5]) for b in bigs if b[0] != "sq32io"}
        f_xf = [pool.submit(expect_failure, chk.work, n, inv, what, **kw) for (n, inv, what, kw) in xfs]
        f_obl = [apool.submit(run_apalache, chk.work, n, kind, args, says, tmo) for (n, kind, args, says, q, tmo) in OBLIGATIONS if q or not quick]
        xcs = [("sq2", x_cfg(2, 2, 8, 1, 0, "AllStarts", "OneStart"), "RingIndX.tla"), ("cq2", x_cfg(2, 2, 8, 0, 1, "OneStart", "AllStarts"), "RingIndX.tla")]
        if not quick:
            xcs += [("sq4", x_cfg(4, 2, 8, 3, 0, "AllStarts", "OneStart"), "RingIndX.tla"), ("cq4", x_cfg(2, 4, 8, 0, 2, "OneStart", "AllStarts"), "RingIndX.tla"),
                    ("n1", x_cfg(1, 1, 4, 0, 0, "AllStarts", "AllStarts"), "RingIndX.tla"),
                    ("self16", open(os.path.join(core.SPECS, "RingInd_MC.cfg")).read(), "RingInd_MC.tla")]
        f_xc = [pool.submit(crosscheck, chk.work, n, c, m) for (n, c, m) in xcs]
        r_tours = {k: f.result() for k, f in f_tours.items()}
        r_sims = {k: f.result() for k, f in f_sims.items()}
        r_sims.update({k: f.result() for k, f in f_bigsim.items()})
        r_bigcnt = {k: f.result() for k, f in f_bigcnt.items()}
        r_xf = [f.result() for f in f_xf]
        r_obl = [f.result() for f in f_obl]
        r_xc = [f.result() for f in f_xc]
    for r in r_xc:
        chk.add_tlc(r)
    ran = {o["name"] for o in r_obl}
    r_obl += [{"name": n, "kind": kind, "says": says, "status": "not_run_in_this_tier"} for (n, kind, args, says, q, tmo) in OBLIGATIONS if n not in ran]
    broken = [o for o in r_obl if o["status"] in ("refuted", "not_rejected", "error")]
    if broken:
        raise core.ToolError("RingInd.tla obligations inconsistent with their expectation (a defect of the specification, not of the code): %s" % json.dumps(broken)[:3000])
    core.log("Apalache: " + ", ".join("%s=%s(%.0fs)" % (o["name"], o["status"], o.get("wall_s", 0)) for o in r_obl if "wall_s" in o))
    core.log("phase A (TLC: %d exhaustive configs, %d simulations, %d expected failures) %.1fs" % (len(tours), len(sims), len(xfs), time.time() - t0))
    # ---- phase B: the real code along the tours / behaviours (B1), random runs
    t1 = time.time()
    stream = R.Stream(chk, "all")
    stream.planfiles = []
    conformance = True
    tour_stats, sim_stats, rnd_stats = {}, {}, {}
    total_edges = 0
    for (name, ns, nc, h, side, atomic) in tours:
        res, g, paths = r_tours.pop(name)
        chk.add_tlc(res)
        consts = {"ns": ns, "nc": nc, "h": h}
        plans, exps = [], []
        # every flag variant on the small per-side graphs, plain + all flags up to size 4, plain only beyond
        fls = flagsets if (ns <= 2 and side != "both") else ([flagsets[0], flagsets[-1]] if ns <= 4 and side != "both" else flagsets[:1])
        for fl in fls:
            for (init, steps) in paths:
                p, e = R.path_to_run(g, consts, 0, init, steps, flags=fl)
                plans.append(p)
                exps.append(e)
        st = {"model_states": res.distinct, "model_edges": g.nedges, "paths": len(paths), "edges_covered_by_tour": g.nedges}
        # the small graphs are also replayed with the window of start values placed around 2^7, 2^8, 2^15, 2^16, 2^30, 2^31
        # (the model is translation invariant; the code must be too): every point where a signed or narrower reading of
        # the counters would change sign or wrap
        bnd = BOUNDARY_BITS if name in ("sq1", "cq1", "sq2", "cq2", "cq4a") else ()
        st["boundaries_replayed"] = [32] + list(bnd)
        replay_paths(chk, bindirs, stream, plans, exps, "tour_" + name, "tour " + name, st, boundaries=bnd)
        tour_stats[name] = st
        total_edges += g.nedges
        conformance = conformance and not st["divergent_runs"]
        chk.evaluations += st["steps_compared"]
        if len(chk.samples) < 3 and plans:
            p = plans[len(plans) // 3]
            chk.sample({"config": name, "start": [p["sq0"], p["cq0"]], "steps": p["steps"][:14]})
        del plans, exps, paths, g
    for (name, ns, nc, h, atomic, num, depth) in sims + [(b[0], b[1], b[1], b[2], b[4], b[6], b[7]) for b in bigs]:
        generated, plans, exps, nedges = r_sims[name]
        chk.transitions += generated
        st = {"behaviours": len(plans), "distinct_model_edges_visited": nedges}
        if name in r_bigcnt:
            cres, total = r_bigcnt[name]
            chk.add_tlc(cres)
            st.update({"model_states": cres.distinct, "model_edges_total": total, "edge_coverage": round(nedges / total, 4)})
        elif name == "sq32io":
            st["model_edges_total"] = "not enumerated (state graph too big to count in the thorough budget)"
        replay_paths(chk, bindirs, stream, plans, exps, name, "simulated " + name, st)
        sim_stats[name] = st
        conformance = conformance and not st["divergent_runs"]
        chk.evaluations += st["steps_compared"]
    for res, _ in r_xf:
        chk.add_tlc(res)
    for build, bindir in bindirs.items():
        nruns, nsteps = (60, 1500) if quick else (400, 5000)
        # a tenth of the runs lets the kernel act between get_next_cqe and the read through its result
        args = [nruns, nsteps, chk.seed, 100, 3]
        runs = R.run_harness(bindir, ["random"] + args)
        for i, (reset, evs) in enumerate(runs):
            stream.add(reset, evs, group="random_" + build, source="random/%s seed %d" % (build, chk.seed), random_ref={"args": args, "run": i})
        wrapped = sum(1 for (reset, evs) in runs if evs and max(evs[-1]["st"]) >= reset["h"] > min(reset["sq0"], reset["cq0"]))
        rnd_stats["random_" + build] = {"runs": len(runs), "events": sum(len(evs) for _, evs in runs), "runs_crossing_u32_wrap": wrapped}
    # needs_wakeup(): the kernel side puts every subset of {NEED_WAKEUP, CQ_OVERFLOW, TASKRUN} (and one unknown bit) into
    # the submission ring's flags word, between ordinary operations
    wplans = [{"run": 0, "ns": 2, "nc": 2, "flags": fl, "h": 8, "sq0": 7, "cq0": 7,
               "steps": [["get"], ["fill", 1], ["flush"]] + [["wakeup", v] for v in list(range(8)) + [9, 16]] + [["consume", 1]]}
              for fl in (0, SQPOLL)]
    wpath = os.path.join(chk.work, "plan_wakeup.ndjson")
    core.write_ndjson(wpath, wplans)
    stream.planfiles.append(wpath)
    for build, bindir in bindirs.items():
        for i, (reset, evs) in enumerate(R.run_harness(bindir, ["plan", wpath])):
            stream.add(reset, evs, group="wakeup", source="needs_wakeup flag subsets/%s" % build, plan_ref=(wpath, i))
            rnd_stats["wakeup_" + build] = {"runs": i + 1, "events": len(evs)}
    # bounded exhaustive exploration of the real code itself (no model in the loop): every feasible sequence
    for (ns, nc, depth) in ([(1, 1, 6), (2, 2, 5)] if quick else [(1, 1, 7), (2, 2, 7), (2, 4, 6), (4, 4, 6)]):
        for build, bindir in bindirs.items():
            cmd = ["explore", ns, nc, depth]
            runs = R.run_harness(bindir, cmd)
            for i, (reset, evs) in enumerate(runs):
                stream.add(reset, evs, group="explore_%dx%d_%s" % (ns, nc, build), source="explore %dx%d depth %d/%s" % (ns, nc, depth, build),
                           random_ref={"cmd": cmd, "run": i})
            rnd_stats["explore_%dx%d_%s" % (ns, nc, build)] = {"depth": depth, "runs": len(runs), "events": sum(len(evs) for _, evs in runs)}
            del runs
    args = [2, 20000 if quick else 300000, chk.seed + 7, 0, 3]
    runs = R.run_harness(bindirs["debug"], ["random"] + args)
    for i, (reset, evs) in enumerate(runs):
        stream.add(reset, evs, group="random_long", source="random-long/debug seed %d" % (chk.seed + 7), random_ref={"args": args, "run": i})
    rnd_stats["random_long"] = {"runs": len(runs), "events": sum(len(evs) for _, evs in runs)}
    del runs
    core.log("phase B (real code: %d runs) %.1fs" % (len(stream.meta), time.time() - t1))
    # ---- phase C: property-level judgement of every run by TLC (B2)
    t2 = time.time()
    bad = stream.judge(parallel=4)
    rejected = R.report_stream(chk, stream, bad, bindirs)
    for pf in stream.planfiles:
        os.unlink(pf)
    per_group = {}
    for k, m in enumerate(stream.meta):
        gname = m["group"]
        d = per_group.setdefault(gname, {"runs_judged": 0, "runs_rejected": 0})
        d["runs_judged"] += 1
        if k in rejected:
            d["runs_rejected"] += 1
        else:
            chk.traces += 1
    for name, st in tour_stats.items():
        st.update(per_group.get("tour_" + name, {}))
    for name, st in sim_stats.items():
        st.update(per_group.get(name, {}))
    for name, st in rnd_stats.items():
        st.update(per_group.get(name, {}))
        chk.evaluations += st["events"]
    core.log("phase C (TLC judge: %d runs, %d rejected) %.1fs" % (len(stream.meta), len(rejected), time.time() - t2))
    # ---- evidence
    chk.nontrivial = total_edges
    chk.rule = ("distinct transitions (edges) of the dumped Ring.tla state graphs, each replayed at least once into the real "
                "IoUring methods in a debug and a release build and compared step by step; every start position 0..2H-1 "
                "(the u32 wrap lies between H-1 and H) is an initial state, so every configuration is driven across the real wrap")
    chk.exhaustive = True
    chk.extra["model_conformance"] = conformance
    chk.extra["tours"] = tour_stats
    chk.extra["simulated"] = sim_stats
    chk.extra["random"] = rnd_stats
    chk.extra["expected_failures_confirmed"] = [x for _, x in r_xf]
    proofs = [o for o in r_obl if o["kind"] == "proof"]
    attempted = [o for o in proofs if o["status"] != "not_run_in_this_tier"]
    chk.extra["obligations"] = len(attempted)
    chk.extra["discharged"] = sum(1 for o in attempted if o["status"] == "discharged")
    chk.extra["checker_cmd"] = "timeout <limit> apalache-mc check --cinit=CInit --init=<Init|IndInit> --inv=<IndInv|Props> --length=<0|1> RingInd.tla (specs/, one run per obligation, see obligation_details)"
    chk.extra["trusted_base"] = ["Apalache 0.58 + Z3", "TLC (refinement Ring => RingInd at width 2H)", "RingInd.tla IndInv/Props as the reading of the property's state predicates"]
    chk.extra["obligation_details"] = r_obl
    chk.extra["obligations_summary"] = "%d of %d proof obligations discharged by Apalache at W = 2^32 with symbolic ring sizes (%s); %d expected rejections and probes confirmed" % (
        sum(1 for o in proofs if o["status"] == "discharged"), len(proofs),
        ", ".join("%s: %s" % (o["name"], o["status"]) for o in proofs),
        sum(1 for o in r_obl if o["status"] == "rejected_as_expected"))
    chk.extra["typed_copy_crosschecks"] = [n for (n, c, m) in xcs]
    chk.extra["exhaustive_scope"] = "state graphs of the listed bounded configurations (ring sizes, H) only; simulated and random runs sample"
    chk.assumptions = [
        "real counter width: RingInd.tla is a typed copy of Ring.tla's actions (TLC checks that every Ring transition is a RingInd transition under the width-2H mapping); Apalache proves its inductive invariant for W = 2^32, every start value and every power-of-two ring size up to 32768, under the read-before-the-kernel-acts discipline; an obligation that hits its time limit is reported as not_discharged and proves nothing",
        "interleaving at call granularity (application call / kernel consume k / kernel post k); a concurrently running kernel thread (SQPOLL) and memory-ordering effects are not explored",
        "model counters 0..2H-1 stand for real 2^32-H+m: exactly one u32 wrap per run in toured configurations; the tours of the small graphs are repeated with the window placed around 2^7, 2^8, 2^15, 2^16, 2^30 and 2^31; random runs start at 2^32-d (d small), at 0, at u32::MAX or far from the wrap",
        "the simulated kernel consumes through sq_array and decides from the shared head/tail words only, like the real one; kernel overflow handling of a full completion ring is not modelled (it does not post)",
        "a ring refusing a slot is admitted only when all ring-size slots are outstanding (a ring of size n holds n entries)",
        "the return value of flush_submission_queue is judged at the property level: it must be the number of published, not yet consumed entries (what the caller hands to io_uring_enter); needs_wakeup() must be the test of the NEED_WAKEUP bit for every value of the flags word",
        "runs counted in traces_validated_against_impl are those the property-level specification accepts completely; runs that reproduce the known finding are judged to their end but not counted",
    ]
    return chk.finish()


def replay(path):
    rp = json.load(open(path))["replay"]
    chk = core.Check("C17", "quick", "model_checking")
    build = rp["reset"]["build"]
    bindir = core.cargo_build(bins=["ring"], release=(build == "release"))
    if rp.get("plan") is None and rp.get("plan_ref"):
        print("this rejection was recorded without its events (same clause and build as earlier ones); see the first replay file of this clause")
        return 0
    if rp.get("plan") and "steps" in rp["plan"]:
        ppath = os.path.join(chk.work, "replay_plan.ndjson")
        core.write_ndjson(ppath, [rp["plan"]])
        runs = R.run_harness(bindir, ["plan", ppath])
    else:
        r = rp["random"]
        runs = R.run_harness(bindir, r.get("cmd") or (["random"] + r["args"]))
        runs = [runs[r["run"]]]
    bad = R.judge(chk, runs, "replay")
    for (reset, evs) in runs:
        last = max([e for (_, e, _) in bad] or [len(evs)])
        for ev in evs[max(0, last - 30):last + 1]:
            print(json.dumps(ev))
    print("verdict:", [(e, why) for (_, e, why) in bad] if bad else "accepted by RingTrace")
    return 1 if bad else 0


def selftest():
    """anti-vacuity of the binding (DESIGN.md 3.3): (1) a recorded run of the real code is accepted, the same run with
    one field corrupted / one event dropped is rejected by RingTrace; (2) a stored negative patch makes the check fail."""
    import copy
    import subprocess
    chk = core.Check("C17", "quick", "model_checking")
    bindir = core.cargo_build(bins=["ring"])
    runs = R.run_harness(bindir, ["random", 3, 400, 11, 0, 2])
    reset, evs = runs[0]
    evs = [e for e in evs if e["ev"] != "skip"]
    variants = {"recorded": evs}
    ci = next(i for i, e in enumerate(evs) if e["ev"] == "consume")
    v = copy.deepcopy(evs)
    v[ci]["stamps"][0] += 1
    variants["consume stamp corrupted"] = v
    fi = next(i for i, e in enumerate(evs) if e["ev"] == "flush" and e["kavail"] > 0)
    variants["flush dropped"] = evs[:fi] + evs[fi + 1:]
    ri = next(i for i, e in enumerate(evs) if e["ev"] == "read")
    v = copy.deepcopy(evs)
    v[ri]["val"] += 1
    variants["read value corrupted"] = v
    pi = next(i for i, e in enumerate(evs) if e["ev"] == "post")
    variants["post dropped"] = evs[:pi] + evs[pi + 1:]
    gi = next(i for i, e in enumerate(evs) if e["ev"] == "get" and e["ret"] >= 0)
    v = copy.deepcopy(evs)
    v[gi]["ret"] = -1
    variants["get answered None with free slots"] = v
    ok = True
    for name, ev in variants.items():
        bad = R.judge(chk, [(reset, ev)], "selftest")
        expect_rejected = name != "recorded"
        print("selftest trace '%s': %s" % (name, "rejected (%s)" % bad[0][2] if bad else "accepted"))
        ok = ok and (bool(bad) == expect_rejected)
    patch = os.path.join(core.VERIF, "seeded", "C17-head-advance-2", "patch.diff")
    p = subprocess.run([os.path.join(core.VERIF, "bin", "mutant-test"), patch, "C17"], stdout=subprocess.PIPE, stderr=subprocess.STDOUT, text=True)
    print("selftest negative patch head-advance-2: %s" % ("detected" if p.returncode == 0 else "NOT detected"))
    ok = ok and p.returncode == 0
    print("C17 selftest", "OK" if ok else "FAILED")
    return 0 if ok else 1
