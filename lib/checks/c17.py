"""C17 - io_uring rings: exactly-once in-order hand-over both ways, across the u32 index wrap.

1. TLC checks Ring.tla (the ring protocol as coded, in product with the property-level monitor
   RingAbs) exhaustively on the bounded configurations and dumps their state graphs.
2. B1: a transition tour of every dumped graph (every edge of the model) is replayed step by step
   into the REAL IoUring methods over harness memory (hook H5) whose counters start at 2^32-H+m, in
   a debug (overflow checks) and a release build; every step is compared with the model.
   Larger configurations: `tlc -simulate` behaviours (RingGen.tla), edge coverage measured.
3. B2: every run - toured, simulated, seeded random - is judged by TLC against the property-level
   trace specification RingTrace.tla.  Only this produces verdicts.
"""
import json
import os
import re

from vlib import core
from checks import ring_common as R

# (name, ns, nc, h, side, atomic) ; invariants chosen by side
QUICK_TOURS = [("sq1", 1, 1, 4, "sq"), ("cq1", 1, 1, 4, "cq"), ("sq2", 2, 2, 8, "sq"), ("cq2", 2, 2, 8, "cq"),
               ("sq4", 4, 4, 8, "sq"), ("cq4", 4, 4, 8, "cq"), ("both1", 1, 2, 4, "both")]
THOROUGH_TOURS = QUICK_TOURS + [("cq8", 8, 8, 16, "cq"), ("sq8", 8, 8, 16, "sq"), ("both2", 2, 2, 4, "both"),
                                ("cq2x4", 2, 4, 8, "cq")]
FLAG_SETS = {"quick": [0, (1 << 1) | (1 << 10) | (1 << 11)], "thorough": [0, 1 << 1, 1 << 10, 1 << 11, (1 << 1) | (1 << 10) | (1 << 11)]}


def invariants_for(side):
    # the completion side as coded releases the slot before the caller reads it: the one clause recorded
    # as a known finding is excluded from the exhaustive run and confirmed separately (expected failure)
    return ("TypeOK", "CountersConsistent", "PropertyHolds" if side == "sq" else "PropertyHoldsButStaleRead")


def mc_and_dump(chk, name, ns, nc, h, side, code=R.CODE_NOW, debug="TRUE", workers=8):
    cfg = os.path.join(chk.work, "Ring_%s.cfg" % name)
    R.write_cfg(cfg, ns=ns, nc=nc, h=h, side=side, sq="AllStarts" if side != "cq" else "OneStart",
                cq="AllStarts" if side != "sq" else "OneStart", wrapping=code["Wrapping"], debug=debug,
                le=code["CqEmptyLE"], invariants=invariants_for(side))
    dot = os.path.join(chk.work, "Ring_%s.dot" % name)
    res = core.run_tlc("Ring_MC.tla", cfg, workers=workers, timeout=1500, dump=dot, xmx="6g")
    core.tlc_must_pass(res, "Ring_MC " + name)
    chk.add_tlc(res)
    return cfg, dot, res


def expect_failure(chk, name, inv, what, **kw):
    """anti-vacuity / documentation runs: TLC MUST find a violation of `inv`"""
    cfg = os.path.join(chk.work, "Ring_X_%s.cfg" % name)
    R.write_cfg(cfg, invariants=(inv,), **kw)
    res = core.run_tlc("Ring_MC.tla", cfg, workers=4, timeout=600)
    chk.add_tlc(res)
    if inv not in res.invariant_violated:
        raise core.ToolError("expected TLC to violate %s on %s (%s) but it did not:\n%s" % (inv, name, what, res.out[-1500:]))
    m = re.findall(r'why \|-> "(\w*)"', res.out)
    return {"config": name, "invariant": inv, "shows": what, "clause": m[-1] if m else ""}


def replay_paths(chk, bindirs, plans, exps, tag, source):
    """run the plans on the real code (each build), compare every step (B1), judge (B2)"""
    ppath = os.path.join(chk.work, "plan_%s.ndjson" % tag)
    core.write_ndjson(ppath, plans)
    stats = {"runs": 0, "steps": 0, "divergent_runs": 0, "first_divergence": None, "rejected_runs": 0}
    for build, bindir in bindirs.items():
        runs = R.run_harness(bindir, ["plan", ppath])
        if len(runs) != len(plans):
            raise core.ToolError("harness returned %d runs for %d plans" % (len(runs), len(plans)))
        bad = R.judge(chk, runs, "%s_%s" % (tag, build))
        rejected = R.report(chk, runs, plans, bad, "%s/%s" % (source, build))
        for k, (reset, evs) in enumerate(runs):
            stats["runs"] += 1
            div = None
            for j, (op, arg, node) in enumerate(exps[k]):
                ev = evs[j] if j < len(evs) else None
                d = R.compare_step(op, arg, node, ev)
                if d:
                    div = (j, d)
                    break
                stats["steps"] += 1
            if div:
                stats["divergent_runs"] += 1
                if stats["first_divergence"] is None:
                    stats["first_divergence"] = {"build": build, "run": k, "step": div[0], "diff": div[1], "plan": plans[k],
                                                 "also_rejected_by_property": k in rejected}
            if k not in rejected:
                chk.traces += 1
        stats["rejected_runs"] += len(rejected)
    return stats


def simulate_paths(chk, name, ns, nc, h, num, depth, seed):
    cfg = os.path.join(chk.work, "RingGen_%s.cfg" % name)
    R.write_cfg(cfg, ns=ns, nc=nc, h=h, side="both", sq="NearWrap", cq="NearWrap", wrapping=R.CODE_NOW["Wrapping"],
                le=R.CODE_NOW["CqEmptyLE"], invariants=("Emit", "PropertyHoldsButStaleRead"), extra_const="  D = %d\n" % depth)
    txt = open(cfg).read().replace("INIT Init", "INIT GInit").replace("NEXT Next", "NEXT GNext")
    open(cfg, "w").write(txt)
    res = core.run_tlc("RingGen.tla", cfg, workers=1, simulate=num, depth=depth + 2, seed=seed, timeout=900)
    core.tlc_must_pass(res, "RingGen " + name)
    m = re.search(r"The number of states generated: (\d+)", res.out)
    chk.transitions += int(m.group(1)) if m else 0
    plans, exps, edges = [], [], set()
    for k, hist in enumerate(res.printed("B")):
        init = hist[0]["o"]
        plan = {"run": k, "ns": ns, "nc": nc, "flags": 0, "h": h, "sq0": init["st"][1], "cq0": init["st"][5], "steps": []}
        exp = []
        prev = json.dumps(init, sort_keys=True)
        for s in hist[1:]:
            op, arg, o = s["op"], s["arg"], s["o"]
            plan["steps"].append([op, arg] if op in ("fill", "consume", "post") else [op])
            node = {"sqSlot": o["sqs"], "cqSlot": o["cqs"], "want": o["want"], "held": o["held"]}
            node.update(dict(zip(R.STVARS, o["st"])))
            exp.append((op, arg, node))
            edges.add((prev, op, arg))
            prev = json.dumps(o, sort_keys=True)
        plans.append(plan)
        exps.append(exp)
    return plans, exps, len(edges)


def run(tier):
    chk = core.Check("C17", tier, "model_checking")
    quick = tier == "quick"
    bindirs = {"debug": core.cargo_build(bins=["ring"]), "release": core.cargo_build(bins=["ring"], release=True)}
    flagsets = FLAG_SETS[tier]
    conformance = True
    tour_stats = {}
    total_edges = 0
    # ---- 1+2: exhaustive model checking, transition tours replayed into the real code
    for (name, ns, nc, h, side) in (QUICK_TOURS if quick else THOROUGH_TOURS):
        cfg, dot, res = mc_and_dump(chk, name, ns, nc, h, side)
        g = R.Graph(dot)
        os.unlink(dot)
        if len(g.nodes) != res.distinct:
            raise core.ToolError("dump of %s has %d nodes, TLC reported %d states" % (name, len(g.nodes), res.distinct))
        paths = g.tour(maxlen=160 if ns >= 8 else 120)
        consts = {"ns": ns, "nc": nc, "h": h}
        plans, exps = [], []
        for fl in (flagsets if ns <= 4 else flagsets[:1]):
            for (init, steps) in paths:
                p, e = R.path_to_run(g, consts, len(plans), init, steps, flags=fl)
                plans.append(p)
                exps.append(e)
        st = replay_paths(chk, bindirs, plans, exps, "tour_" + name, "tour " + name)
        st.update({"model_states": res.distinct, "model_edges": g.nedges, "paths": len(paths), "edges_covered_by_tour": g.nedges})
        tour_stats[name] = st
        total_edges += g.nedges
        if st["divergent_runs"]:
            conformance = False
        chk.evaluations += st["steps"]
        if len(chk.samples) < 3 and plans:
            p = plans[len(plans) // 3]
            chk.sample({"config": name, "start": [p["sq0"], p["cq0"]], "steps": p["steps"][:14]})
    # ---- larger configurations: simulated behaviours
    sims = [("sim4x8", 4, 8, 16, 150 if quick else 1500, 60), ("sim8x8", 8, 8, 16, 150 if quick else 1500, 80)]
    sim_stats = {}
    for (name, ns, nc, h, num, depth) in sims:
        plans, exps, nedges = simulate_paths(chk, name, ns, nc, h, num, depth, chk.seed)
        st = replay_paths(chk, bindirs, plans, exps, name, "simulated " + name)
        st["distinct_model_edges_visited"] = nedges
        sim_stats[name] = st
        if st["divergent_runs"]:
            conformance = False
        chk.evaluations += st["steps"]
    # ---- seeded random long runs on the real code, kernel side acting on the shared words only
    rnd_stats = {}
    for build, bindir in bindirs.items():
        nruns, nsteps = (60, 1500) if quick else (400, 5000)
        # a tenth of the runs lets the kernel act between get_next_cqe and the read through its result
        runs = R.run_harness(bindir, ["random", nruns, nsteps, chk.seed, 100, 3])
        bad = R.judge(chk, runs, "random_" + build)
        rejected = R.report(chk, runs, None, bad, "random/%s seed %d" % (build, chk.seed))
        wrapped = sum(1 for (reset, evs) in runs if evs and max(evs[-1]["st"]) >= reset["h"] > min(reset["sq0"], reset["cq0"]))
        nev = sum(len(evs) for _, evs in runs)
        rnd_stats[build] = {"runs": len(runs), "events": nev, "rejected_runs": len(rejected), "runs_crossing_u32_wrap": wrapped}
        chk.traces += len(runs) - len(rejected)
        chk.evaluations += nev
        if build == "debug":
            one_long = R.run_harness(bindir, ["random", 2, 20000 if quick else 200000, chk.seed + 7, 0, 3])
            bad = R.judge(chk, one_long, "long_" + build)
            rej = R.report(chk, one_long, None, bad, "random-long/%s seed %d" % (build, chk.seed + 7))
            chk.traces += len(one_long) - len(rej)
            chk.evaluations += sum(len(evs) for _, evs in one_long)
            rnd_stats["long"] = {"runs": len(one_long), "events": sum(len(evs) for _, evs in one_long), "rejected_runs": len(rej)}
    # ---- anti-vacuity: runs TLC must fail
    xf = []
    xf.append(expect_failure(chk, "found_debug", "PropertyHolds", "code as found, overflow-checked build: tail + 1 panics at u32::MAX",
                             ns=2, nc=2, h=8, side="sq", cq="OneStart", wrapping="FALSE", debug="TRUE", le="TRUE", atomic="TRUE"))
    xf.append(expect_failure(chk, "found_release", "PropertyHolds", "code as found: `tail <= head` answers None after the tail wrapped",
                             ns=2, nc=2, h=8, side="cq", sq="OneStart", wrapping="FALSE", debug="FALSE", le="TRUE", atomic="TRUE"))
    xf.append(expect_failure(chk, "stale_read", "PropertyHolds", "slot released before the caller reads through the reference (known finding)",
                             ns=2, nc=2, h=8, side="cq", sq="OneStart", atomic="FALSE"))
    for probe, sd in (("ProbeSqFull", "sq"), ("ProbeCqFull", "cq"), ("ProbeHeldAndPost", "cq"), ("ProbeSqWrapped", "sq"), ("ProbeCqPending", "cq")):
        xf.append(expect_failure(chk, probe, probe, "reachability of the antecedent", ns=2, nc=2, h=8, side=sd,
                                 sq="AllStarts" if sd == "sq" else "OneStart", cq="AllStarts" if sd == "cq" else "OneStart"))
    # ---- evidence
    chk.nontrivial = total_edges
    chk.rule = ("distinct transitions (edges) of the dumped Ring.tla state graphs, each replayed at least once into the real "
                "IoUring methods in a debug and a release build and compared step by step; every start position 0..2H-1 "
                "(the u32 wrap lies between H-1 and H) is an initial state, so every configuration is driven across the real wrap")
    chk.exhaustive = True
    chk.extra["model_conformance"] = conformance
    chk.extra["tours"] = tour_stats
    chk.extra["simulated"] = sim_stats
    chk.extra["random"] = rnd_stats
    chk.extra["expected_failures_confirmed"] = xf
    chk.extra["exhaustive_scope"] = "state graphs of the listed bounded configurations (ring sizes, H) only; simulated and random runs sample"
    chk.assumptions = [
        "interleaving at call granularity (application call / kernel consume k / kernel post k); a concurrently running kernel thread (SQPOLL) and memory-ordering effects are not explored",
        "model counters 0..2H-1 stand for real 2^32-H+m: exactly one u32 wrap per run in toured configurations; random runs start at 2^32-d (d small), at 0, at u32::MAX or far from the wrap",
        "the simulated kernel consumes through sq_array and decides from the shared head/tail words only, like the real one; kernel overflow handling of a full completion ring is not modelled (it does not post)",
        "ring refusing a slot is admitted only when all ring-size slots are outstanding (a ring of size n holds n entries)",
        "the return value of flush_submission_queue is compared with the model (B1) but not constrained by the property-level specification",
    ]
    return chk.finish()


def replay(path):
    rp = json.load(open(path))["replay"]
    chk = core.Check("C17", "quick", "model_checking")
    build = rp["reset"]["build"]
    bindir = core.cargo_build(bins=["ring"], release=(build == "release"))
    if "steps" in rp["plan"]:
        ppath = os.path.join(chk.work, "replay_plan.ndjson")
        core.write_ndjson(ppath, [rp["plan"]])
        runs = R.run_harness(bindir, ["plan", ppath])
    else:
        print("random run: re-run ./bin/check C17 with VERIF_SEED=%s" % rp["plan"]["random"].get("seed"))
        return 0
    bad = R.judge(chk, runs, "replay")
    for (reset, evs) in runs:
        for ev in evs:
            print(json.dumps(ev))
    print("verdict:", bad if bad else "accepted by RingTrace")
    return 1 if bad else 0
