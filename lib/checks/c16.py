"""C16 - stream sockets deliver bytes intact; waits, timeouts, try-variants; fd passing.

TLC: (1) model-checks Stream.tla (two endpoints, bounded buffers, blocking / timed / try operations)
and Cmsg.tla (kernel delivery of SCM_RIGHTS into any control-buffer size; the ControlMessageIterator
transcription); (2) generates transfer plans (StreamGen.tla) and control buffers (Cmsg!EmitVec);
(3) judges the recorded runs of the real code: per-connection logs against StreamTrace.tla
(interleaving search under the logical order), descriptor passing and iterator outputs against
CmsgJudge.tla, the system-call logs of try_* calls against StreamTry.tla.
"""
import concurrent.futures
import json
import os
import re
import shutil
import subprocess

from vlib import core

LENS = [0, 1, 4096, 1 << 20, 4 << 20]
LSC = [0, 5, 70000]


# ------------------------------------------------------------------------------------------
# plans
# ------------------------------------------------------------------------------------------
def concrete_plan(p, k):
    n_cs = LENS[p["lcs"] - 1]
    n_sc = LSC[p["lsc"] - 1]

    def wch(n):
        return {1: [max(n, 1)], 2: [4096], 3: [1, 7, 1000, 65536, 30000]}[p["w"]]

    def rch(n):
        return {1: [min(max(n, 1) + 17, 2 << 20)], 2: [4096], 3: [1, 3, 1000, 50000, 9000]}[p["r"]]
    plan = {"fam": p["fam"], "closer": p["closer"], "klass": p,
            "cs": {"n": n_cs, "wchunks": wch(n_cs), "rchunks": rch(n_cs)},
            "sc": {"n": n_sc, "wchunks": wch(n_sc), "rchunks": rch(n_sc)}}
    # which Write / Read entry point of the stream types carries the payload (io::Write::write | write_all |
    # write_fmt, + flush after every payload; io::Read::read | read_exact | read_to_end where the peer closes after it)
    plan["cs"]["wapi"] = ["write", "write_all", "write_fmt"][k % 3]
    plan["sc"]["wapi"] = ["write_all", "write_fmt", "write"][k % 3]
    plan["cs"]["rapi"] = ["read", "read_exact"][(k // 3) % 2]
    plan["sc"]["rapi"] = ["read_exact", "read"][(k // 3) % 2]
    if n_sc == 0 and p["closer"] == "c" and k % 2 == 0:
        plan["cs"]["rapi"] = "read_to_end"
    if p["delay"] == "reader":
        plan["cs"]["reader_delay_ms"] = 20
        plan["sc"]["reader_delay_ms"] = 5
    elif p["delay"] == "writer":
        plan["cs"]["writer_delay_ms"] = 20
        plan["sc"]["writer_delay_ms"] = 5
    if k % 3 != 2:
        # small buffers so that they really fill; big TCP transfers get 64 KiB (4 KiB windows make
        # TCP crawl at ~300 KB/s: Nagle + delayed ACK), still far below the payload
        small = 65536 if (p["fam"] == "tcp" and n_cs >= (1 << 20)) else 4096
        plan["sndbuf"] = small
        plan["rcvbuf"] = small
    acc = p["acc"]
    if acc == "plain":
        plan["accept"] = {"kind": "plain"}
    elif acc == "try":
        plan["accept"] = {"kind": "try"}
    elif acc == "timeout_expires":
        plan["accept"] = {"kind": "timeout", "d_us": [0, 1000, 50000][k % 3], "then": "plain"}
        plan["connect_delay_ms"] = 60 if k % 3 == 2 else 15
    else:
        plan["accept"] = {"kind": "timeout", "d_us": 5000000, "then": "plain"}
    plan["connect"] = {"kind": p["con"], "d_us": 5000000}
    if p["early"]:
        plan["connect_before_listen"] = True
        plan["listen_delay_ms"] = 30
    # limits of the "nothing pending / silent peer" probes: zero, sub-millisecond, mixed units (nanoseconds)
    NS = [0, 1, 999999, 1000000, 20000000, 40000000]
    if p["fam"] == "tcp":
        # phase 0: timed reads on each freshly constructed stream while the peer is silent - they have to RETURN
        plan["silent_ns"] = [NS[k % 6], NS[(k + 3) % 6]]
        if k % 4 == 1:
            plan["connect_probe_ns"] = [0, NS[(k // 4) % 6]]     # connect_with_timeout, nobody answers
    if not p["early"] and k % 2 == 0:
        plan["accept_probe_ns"] = [0, NS[(k // 2) % 6]]          # accept_with_timeout, nobody connects
    if p["tmo"] >= 0 and p["fam"] == "tcp":
        plan["cs"]["read_to_us"] = p["tmo"]
        plan["sc"]["read_to_us"] = p["tmo"]
    return plan


def gen_plans(chk, stride, big):
    cfg = os.path.join(chk.work, "StreamGen.cfg")
    with open(cfg, "w") as f:
        f.write("CONSTANTS\n  Stride = %d\n  Phase = %d\n  Big = %d\nINIT Init\nNEXT Next\nINVARIANT Emit\nCHECK_DEADLOCK FALSE\n"
                % (stride, chk.seed % stride, big))
    res = core.run_tlc("StreamGen.tla", cfg, workers=8, timeout=900)
    core.tlc_must_pass(res, "StreamGen")
    chk.add_tlc(res)
    ps = res.printed("P")
    if not ps:
        raise core.ToolError("StreamGen printed no plan")
    plans = [concrete_plan(p, k) for k, p in enumerate(ps)]
    # timed waits interrupted by TWO OR MORE signals (no-op SIGUSR1 handler without SA_RESTART, tgkill of the
    # waiting thread at the given fractions of the limit): accept_with_timeout that expires, and (TCP) the
    # silent-peer read_with_timeout of both ends
    for fam in ("unix", "tcp"):
        for fracs, d in (([0.3, 0.6, 0.8], 300000), ([0.25, 0.5], 200000), ([0.5, 0.7], 400000)):
            base = {"fam": fam, "lcs": 2, "lsc": 2, "w": 1, "r": 1, "delay": "none", "acc": "timeout_expires", "con": "plain",
                    "early": False, "closer": "c", "tmo": -1, "interrupts": fracs, "limit_us": d}
            pl = concrete_plan(base, 0)
            pl["accept"] = {"kind": "timeout", "d_us": d, "then": "plain"}
            pl["connect_delay_ms"] = d // 1000 + 150
            pl["interrupts"] = fracs
            if fam == "tcp":
                pl["silent_ns"] = [d * 1000]
            pl.pop("accept_probe_ns", None)
            pl.pop("connect_probe_ns", None)
            plans.append(pl)
        # one second and one nanosecond (mixed sec/nsec conversion), once per family
        base = {"fam": fam, "lcs": 2, "lsc": 2, "w": 1, "r": 1, "delay": "none", "acc": "plain", "con": "plain",
                "early": False, "closer": "c", "tmo": -1, "limit_ns": 1000000001}
        pl = concrete_plan(base, 1)
        pl["accept_probe_ns"] = [1000000001]
        pl.pop("connect_probe_ns", None)
        if fam == "tcp":
            pl["silent_ns"] = [1000000001]
        plans.append(pl)
    return plans


# ------------------------------------------------------------------------------------------
# driver runs with crash / hang recovery
# ------------------------------------------------------------------------------------------
def generous(base_s):
    """A wall-clock limit for RE-CONFIRMING a watchdog trip: >= 5x the original, doubled on a busy machine."""
    busy = os.getloadavg()[0] > (os.cpu_count() or 1)
    return base_s * 5 * (2 if busy else 1)


def run_resumable(cmd_prefix, n_items, timeout, per_item_key, max_incidents=400, env=None):
    """Runs `cmd_prefix + [skip]`; on crash ({"crash":i} + exit 42), hang ({"hang":i} + exit 43) or any
    other death resumes after the culprit. Returns (lines, incidents {index: what})."""
    lines = []
    incidents = {}
    skip = 0
    while skip < n_items:
        try:
            p = subprocess.run(cmd_prefix + [str(skip)], stdout=subprocess.PIPE, stderr=subprocess.PIPE, timeout=timeout, text=True, errors="replace",
                               env=dict(os.environ, **(env or {})))
            out, rc, err = p.stdout, p.returncode, p.stderr
        except subprocess.TimeoutExpired as e:
            out = e.stdout.decode("utf-8", "replace") if isinstance(e.stdout, bytes) else (e.stdout or "")
            rc, err = -9, "timeout"
        done = False
        last = skip - 1
        culprit = None
        for line in out.splitlines():
            try:
                v = json.loads(line)
            except ValueError:
                continue
            if "crash" in v:
                culprit = (v["crash"], "crashed")
            elif "hang" in v:
                culprit = (v["hang"], "timedout")
            elif v.get("ev") == "end":
                done = True
            else:
                lines.append(v)
                last = v.get(per_item_key, last)
        if done and rc == 0:
            break
        if culprit is None:
            if "driver panic" in err:
                raise core.ToolError("driver failed: " + err[-1500:])
            culprit = (last + 1, "crashed" if rc != -9 else "timedout")
        incidents[culprit[0]] = culprit[1]
        skip = culprit[0] + 1
        if len(incidents) >= max_incidents:
            break       # enough evidence; the remaining items are not run
    return lines, incidents


def run_stream(chk, bindir, plans, nproc=4, watchdog_s=None, max_incidents=2):
    n = len(plans)
    nproc = max(1, min(nproc, n // 8 or 1))
    # round-robin: the enumeration order puts all the big TCP transfers at the end
    index = [list(range(k, n, nproc)) for k in range(nproc)]

    def job(k):
        path = os.path.join(chk.work, "plans_%d.ndjson" % k)
        core.write_ndjson(path, [plans[i] for i in index[k]])
        wd = os.path.join(chk.work, "sock%d" % k)
        shutil.rmtree(wd, ignore_errors=True)
        os.makedirs(wd)
        lines, inc = run_resumable([os.path.join(bindir, "netops"), "stream", path, wd], len(index[k]), 3600, "id", max_incidents=max_incidents,
                                   env={"VERIF_WATCHDOG_S": str(watchdog_s)} if watchdog_s else None)
        shutil.rmtree(wd, ignore_errors=True)
        return k, lines, inc
    conns = [None] * n
    incidents = {}
    with concurrent.futures.ThreadPoolExecutor(max_workers=nproc) as ex:
        for k, lines, inc in ex.map(job, range(nproc)):
            for v in lines:
                if v.get("ev") == "conn":
                    conns[index[k][v["id"]]] = v
            for i, w in inc.items():
                incidents[index[k][i]] = w
    return conns, incidents


def reconfirm_stream(chk, bindir, plans, conns, incidents):
    """A watchdog trip ("no call completed for 8 s") rests on the wall clock: before it becomes a violation the plan is
    re-run ALONE (nothing else of the check is running any more) with a limit >= 5x as large (more on a busy
    machine); only a plan that fails to return in 2 of 2 re-runs is reported.  Trips that do not reproduce are
    recorded (`watchdog_trips_not_reproduced`), their connections and the plans skipped after them are run and judged."""
    confirmed = {}
    not_reproduced = []
    not_rechecked = []
    limit = generous(8)
    for k, what in sorted(incidents.items()):
        if what != "timedout":
            confirmed[k] = what             # a crash is not a wall-clock verdict
            continue
        if any(w == "timedout" for w in confirmed.values()):
            not_rechecked.append(plans[k]["klass"])      # one confirmed hang is enough for the verdict
            continue
        again = 0
        last = None
        for _ in range(2):
            c2, inc2 = run_stream(chk, bindir, [plans[k]], nproc=1, watchdog_s=limit)
            if inc2:
                again += 1
            else:
                last = c2[0]
                break
        if again == 2:
            confirmed[k] = what
        else:
            conns[k] = last
            not_reproduced.append({"plan": plans[k]["klass"], "what": what, "limit_s": limit})
    if not any(w == "timedout" for w in confirmed.values()):
        todo = [k for k, c in enumerate(conns) if c is None and k not in confirmed]
        if todo:                            # plans skipped after the (false) trips
            c2, inc2 = run_stream(chk, bindir, [plans[k] for k in todo], nproc=2, watchdog_s=limit, max_incidents=1)
            for i, k in enumerate(todo):
                conns[k] = c2[i]
            for i, what in inc2.items():    # a trip in this pass: the same rule, alone, twice
                k = todo[i]
                r = [run_stream(chk, bindir, [plans[k]], nproc=1, watchdog_s=limit) for _ in range(2)]
                if all(x[1] for x in r):
                    confirmed[k] = what
                else:
                    conns[k] = next(x[0][0] for x in r if not x[1])
                    not_reproduced.append({"plan": plans[k]["klass"], "what": what, "limit_s": limit})
    chk.extra["watchdog_trips_not_reproduced"] = {"count": len(not_reproduced), "cases": not_reproduced[:10]}
    if not_rechecked:
        chk.extra["watchdog_trips_not_rechecked_after_a_confirmed_hang"] = not_rechecked[:10]
    return confirmed


def norm_events(evs):
    out = []
    for e in evs:
        out.append({"op": e.get("op", "?"), "res": e.get("res", "?"), "req": e.get("req", 0), "n": e.get("n", 0), "off": e.get("off", 0),
                    "match": bool(e.get("match", True)), "d": e.get("d", -1), "t0": e.get("t0", 0), "t1": e.get("t1", 0),
                    "s": e.get("s", 0), "e": e.get("e", 0), "nonblock": bool(e.get("nonblock", True)), "tolistener": bool(e.get("listening", True))})
    return out


def judge_stream(chk, conns, plans):
    recs = []
    for k, c in enumerate(conns):
        if c is not None:
            recs.append({"id": k, "n_cs": plans[k]["cs"]["n"], "n_sc": plans[k]["sc"]["n"], "c": norm_events(c["c"]), "s": norm_events(c["s"])})
    path = os.path.join(chk.work, "conns.ndjson")
    core.write_ndjson(path, recs)
    res = core.run_tlc("StreamTrace.tla", "StreamTrace.cfg", workers=8, env={"TRACE": path}, timeout=1500, xmx="6g")
    core.tlc_must_pass(res, "StreamTrace")
    chk.add_tlc(res)
    acc = {a["id"] for a in res.printed("ACC")}
    rejected = [r for r in recs if r["id"] not in acc]
    chk.traces += len(acc)
    frontier = {}
    if rejected:
        rpath = os.path.join(chk.work, "conns_rejected.ndjson")
        core.write_ndjson(rpath, rejected[:40])
        res2 = core.run_tlc("StreamTrace.tla", "StreamTrace.cfg", workers=1, env={"TRACE": rpath, "VERBOSE": "1"}, timeout=900, xmx="4g")
        for pr in res2.printed("PROG"):
            cur = frontier.get(pr["id"])
            if cur is None or pr["ic"] + pr["is"] > cur["ic"] + cur["is"]:
                frontier[pr["id"]] = pr
    return acc, rejected, frontier


def judge_ctors(chk, bindir, conns, plans):
    """Every stream any constructor handed out: its O_NONBLOCK / FD_CLOEXEC mode must equal the mode of the
    streams of the plain constructor of the same side and family (StreamCtor.tla).  Records come from a
    dedicated construct-only run (no data operation that could hang) and from all transfer runs."""
    wd = os.path.join(chk.work, "ctors")
    shutil.rmtree(wd, ignore_errors=True)
    os.makedirs(wd)
    p = core.run_cmd([os.path.join(bindir, "netops"), "ctors", wd], check=False, timeout=60)
    shutil.rmtree(wd, ignore_errors=True)
    if p.returncode != 0:
        raise core.ToolError("netops ctors failed: " + p.stderr[-1500:])
    recs = [dict(fam=v["fam"], side=v["side"], ctor=v["ctor"], nonblock=bool(v["nonblock"]), cloexec=bool(v["cloexec"]), conn=-1)
            for v in (json.loads(l) for l in p.stdout.splitlines() if l.startswith("{")) if v.get("ev") == "ctor"]
    for k, c in enumerate(conns):
        if c is None:
            continue
        for side in ("c", "s"):
            for e in c[side]:
                if e.get("res") == "ok" and e.get("op") in ("connect", "try_connect", "connect_to", "accept", "try_accept", "accept_to"):
                    recs.append({"fam": plans[k]["fam"], "side": side, "ctor": e["op"], "nonblock": bool(e.get("s_nonblock")),
                                 "cloexec": bool(e.get("s_cloexec")), "conn": k})
    path = os.path.join(chk.work, "ctors.ndjson")
    core.write_ndjson(path, recs)
    res = core.run_tlc("StreamCtor.tla", "StreamCtor.cfg", workers=1, env={"TRACE": path}, timeout=600, xmx="3g", xss="256m")
    core.tlc_must_pass(res, "StreamCtor")
    j = res.printed("JUDGED")
    if len(j) != 1 or j[0]["n"] != len(recs):
        raise core.ToolError("StreamCtor did not judge all %d records" % len(recs))
    chk.add_tlc(res)
    chk.evaluations += len(recs)
    chk.traces += len(recs) - len(j[0]["bad"])
    seen = set()
    for i in j[0]["bad"]:
        r = recs[i - 1]
        key = (r["fam"], r["ctor"])
        if key in seen:
            continue
        seen.add(key)
        ref = [x for x in recs if x["fam"] == r["fam"] and x["side"] == r["side"] and x["ctor"] == ("connect" if r["side"] == "c" else "accept")]
        chk.violate({"part": "ctor", "fam": r["fam"], "op": r["ctor"], "why": "stream_mode_differs_from_siblings"},
                    "%s stream from %s: O_NONBLOCK=%s FD_CLOEXEC=%s, streams from plain %s have %s" % (
                        r["fam"], r["ctor"], r["nonblock"], r["cloexec"], "connect" if r["side"] == "c" else "accept",
                        sorted({(x["nonblock"], x["cloexec"]) for x in ref}) or "not been observed"),
                    {"mode": "ctors", "plan": plans[r["conn"]] if r["conn"] >= 0 else None, "record": r})
    chk.extra["constructor_modes_judged"] = {"%s/%s" % (f, c): sum(1 for x in recs if x["fam"] == f and x["ctor"] == c)
                                            for f, c in sorted({(x["fam"], x["ctor"]) for x in recs})}


def explain_conn(r, fr):
    """Cheap precise reasons first, the search frontier otherwise."""
    for side in ("c", "s"):
        for e in r[side]:
            if e["res"] == "panic":
                return {"op": e["op"], "why": "panic"}, "%s-side %s panicked" % (side, e["op"])
            if e["op"] in ("read", "read_to") and e["res"] == "ok" and not e["match"]:
                return {"op": "read", "why": "payload_mismatch"}, "%s-side read at offset %d (%d bytes) does not carry the bytes of that position" % (side, e["off"], e["n"])
            if e["res"] == "timeout" and e["t1"] - e["t0"] < e["d"]:
                return {"op": e["op"], "why": "timeout_early"}, "%s-side %s reported Timeout after %d us, limit %d us" % (side, e["op"], e["t1"] - e["t0"], e["d"])
            if e["op"] in ("accept", "try_accept", "accept_to") and not e["nonblock"]:
                return {"op": e["op"], "why": "listener_blocking"}, "listener not in O_NONBLOCK mode at %s" % e["op"]
            if e["op"] == "write" and e["res"] == "ok" and not (1 <= e["n"] <= e["req"]):
                return {"op": "write", "why": "count"}, "write of %d bytes returned %d" % (e["req"], e["n"])
    if fr:
        nc = r["c"][fr["ic"]] if fr["ic"] < len(r["c"]) else None
        ns = r["s"][fr["is"]] if fr["is"] < len(r["s"]) else None
        cand = [x for x in (nc, ns) if x]
        pick = None
        for x in cand:      # the event that is not merely waiting for the other side
            if x["res"] in ("err", "eof") or (x["op"] in ("read", "read_to") and x["res"] == "ok"):
                pick = x
        pick = pick or (cand[0] if cand else None)
        if pick is None:
            return {"op": "end", "why": "incomplete"}, "logs consumed but the transfer is incomplete: sent=%s received=%s expected cs=%d sc=%d" % (
                fr["sent"], fr["recv"], r["n_cs"], r["n_sc"])
        return {"op": pick["op"], "why": "no_spec_step:" + pick["res"]}, \
            "no Stream step matches %s -> %s (n=%d off=%d) with sent=%s received=%s; other side next: %s" % (
                pick["op"], pick["res"], pick["n"], pick["off"], fr["sent"], fr["recv"],
                [(x["op"], x["res"]) for x in cand if x is not pick])
    return {"op": "?", "why": "rejected"}, "no interleaving of the two logs is a behaviour of Stream"


# ------------------------------------------------------------------------------------------
# descriptor passing
# ------------------------------------------------------------------------------------------
def cmsg_len(n):
    return 16 + 4 * n


def fdpass_cases(tier):
    ns = list(range(0, 9)) if tier == "quick" else list(range(0, 9)) + [15, 16, 17, 64, 100, 200, 252, 253]
    cases = []
    for n in ns:
        exact = cmsg_len(n)
        space = (exact + 7) // 8 * 8
        sizes = {-1, 0, 8, 16, exact, space, space + 8, space + 24, exact + 1, exact + 3, exact + 5, exact + 12}
        if n >= 1:
            sizes |= {exact - 4, exact - 1, 20}
        if n >= 3:
            sizes |= {cmsg_len(n // 2)}
        for c in sorted(sizes):
            for hdr in ("stack", "heap"):
                klass = "none" if c < 0 else ("smaller" if c < exact else ("exact" if c in (exact, space) else "larger"))
                cases.append({"n": n, "ctrl": c, "hdr": hdr, "creds": False, "klass": klass})
        if n == 0:      # an SCM_RIGHTS message that carries no descriptor at all
            for c in (-1, 0, 16, 24):
                cases.append({"n": 0, "ctrl": c, "hdr": "stack", "creds": False, "klass": "larger", "empty_rights": True})
        for c in sorted({32, 48, 32 + exact, 32 + space, 32 + space + 8, 32 + exact - 4 if n else 32}):
            if c % 4 == 0:
                cases.append({"n": n, "ctrl": c, "hdr": "stack", "creds": True,
                              "klass": "smaller" if c < 32 + exact else ("exact" if c in (32 + exact, 32 + space) else "larger")})
    return cases


def run_fdpass(chk, bindir, tier):
    cases = fdpass_cases(tier)
    path = os.path.join(chk.work, "fdcases.ndjson")
    core.write_ndjson(path, cases)
    wd = os.path.join(chk.work, "fdfiles")
    shutil.rmtree(wd, ignore_errors=True)
    os.makedirs(wd)
    lines, inc = run_resumable([os.path.join(bindir, "netops"), "fdpass", path, wd], len(cases), 600, "id")
    shutil.rmtree(wd, ignore_errors=True)
    byid = {v["id"]: v for v in lines if v.get("ev") == "fdpass"}
    recs = []
    for k, c in enumerate(cases):
        v = byid.get(k)
        r = {"kind": "fdpass", "n": c["n"], "ctrl": c["ctrl"], "creds": c["creds"], "res": "crashed", "delivered": [], "ctrunc": False,
             "fresh": True, "data_ok": True, "words": [], "out": []}
        if k in inc:
            r["res"] = inc[k]
        elif v is None:
            raise core.ToolError("no result for fdpass case %d" % k)
        elif v["send"]["res"] != "ok":
            r["res"] = "send_" + v["send"]["res"]
        else:
            rv = v["recv"]
            r.update({"res": rv["res"], "delivered": rv.get("delivered", []), "ctrunc": bool(rv.get("ctrunc", False)),
                      "fresh": bool(rv.get("fresh", True)), "data_ok": bool(rv.get("data_ok", True))})
        recs.append(r)
    return cases, recs, byid


def cmsg_vectors(chk, tier):
    maxfds, maxc = (4, 48) if tier == "quick" else (8, 96)
    cfg = os.path.join(chk.work, "Cmsg_fixed.cfg")
    with open(cfg, "w") as f:
        f.write('CONSTANTS\n  MaxFds = %d\n  MaxC = %d\n  Variant = "fixed"\n  Deltas = "none"\nINIT Init\nNEXT Next\n'
                'INVARIANTS DeliveredExactly NoOutOfBuffer NeverPanics IterDeliversExactly EmitVec\nCHECK_DEADLOCK FALSE\n' % (maxfds, maxc))
    res = core.run_tlc("Cmsg.tla", cfg, workers=4, timeout=900)
    core.tlc_must_pass(res, "Cmsg (fixed variant)")
    chk.add_tlc(res)
    vecs = res.printed("V")
    # the pinned transcription, for the record: does the model exhibit the out-of-buffer read?
    cfgp = os.path.join(chk.work, "Cmsg_pinned.cfg")
    with open(cfgp, "w") as f:
        f.write('CONSTANTS\n  MaxFds = 2\n  MaxC = 32\n  Variant = "pinned"\n  Deltas = "layouts"\nINIT Init\nNEXT Next\n'
                'INVARIANTS NoOutOfBuffer NeverPanics\nCHECK_DEADLOCK FALSE\n')
    resp = core.run_tlc("Cmsg.tla", cfgp, workers=2, timeout=300)
    chk.extra["cmsg_model"] = {"fixed_variant_holds": True, "pinned_variant_counterexample_in_model": bool(resp.invariant_violated),
                               "buffers_generated": len(vecs), "max_fds": maxfds, "max_ctrl_bytes": maxc}
    return vecs


def run_cmsgiter(chk, bindir, vecs):
    items = []
    for v in vecs:
        for hdr in ("stack", "heap"):
            items.append({"words": v["words"], "expect": v["expect"], "hdr": hdr, "n": v["n"]})
    path = os.path.join(chk.work, "cmsgvec.ndjson")
    core.write_ndjson(path, items)
    lines, inc = run_resumable([os.path.join(bindir, "netops"), "cmsgiter", path], len(items), 600, "i")
    byid = {v["i"]: v for v in lines if "i" in v}
    recs = []
    for k, it in enumerate(items):
        v = byid.get(k)
        r = {"kind": "iter", "n": it["n"], "ctrl": 4 * len(it["words"]), "creds": False, "res": "crashed", "delivered": [], "ctrunc": False,
             "fresh": True, "data_ok": True, "words": it["words"], "out": []}
        if k in inc:
            r["res"] = inc[k]
        elif v is None:
            raise core.ToolError("no result for cmsg vector %d" % k)
        else:
            r["res"] = v["res"]
            r["out"] = v["out"]
        recs.append(r)
    return items, recs


def judge_cmsg(chk, recs, tag):
    path = os.path.join(chk.work, "cmsg_%s.ndjson" % tag)
    core.write_ndjson(path, recs)
    res = core.run_tlc("CmsgJudge.tla", "CmsgJudge.cfg", workers=1, env={"TRACE": path}, timeout=900, xmx="4g", xss="256m")
    core.tlc_must_pass(res, "CmsgJudge")
    j = res.printed("JUDGED")
    if len(j) != 1 or j[0]["n"] != len(recs):
        raise core.ToolError("CmsgJudge did not judge all %d records: %s" % (len(recs), res.out[-1500:]))
    chk.add_tlc(res)
    chk.traces += len(recs) - len(j[0]["bad"])
    chk.evaluations += len(recs)
    return [i - 1 for i in j[0]["bad"]]


# ------------------------------------------------------------------------------------------
# try_* under strace
# ------------------------------------------------------------------------------------------
def start_racers(chk, bindir, tier):
    wd = os.path.join(chk.work, "racers")
    shutil.rmtree(wd, ignore_errors=True)
    os.makedirs(wd)
    return subprocess.Popen([os.path.join(bindir, "netops"), "racers", wd, "15" if tier == "quick" else "40", "500"],
                            stdout=subprocess.PIPE, stderr=subprocess.PIPE, text=True)


def finish_racers(chk, proc):
    """Several waiters on one socket (3 acceptors on one listener, 2 timed readers on one TCP stream, one peer
    action per round): whatever the losers get, a Timeout must not come before the limit (StreamRace.tla)."""
    try:
        out, err = proc.communicate(timeout=600)
    except subprocess.TimeoutExpired:
        proc.kill()
        args = proc.args
        try:        # the wall-clock verdict is re-confirmed: the same run once more, alone, twice the time
            p2 = subprocess.run(args, stdout=subprocess.PIPE, stderr=subprocess.PIPE, text=True, timeout=generous(240))
            out, err = p2.stdout, p2.stderr
            proc = p2
            chk.extra["racers_timeout_not_reproduced"] = True
        except subprocess.TimeoutExpired:
            chk.violate({"part": "race", "op": "accept_to/read_to", "why": "timedout"},
                        "a timed accept/read with several waiters on one socket never returned (2 of 2 runs)", {"mode": "racers"})
            return
    shutil.rmtree(os.path.join(chk.work, "racers"), ignore_errors=True)
    recs = [v for v in (json.loads(l) for l in out.splitlines() if l.startswith("{")) if v.get("ev") == "race"]
    if proc.returncode != 0 or not recs:
        raise core.ToolError("netops racers failed rc=%s: %s" % (proc.returncode, err[-1500:]))
    path = os.path.join(chk.work, "racers.ndjson")
    core.write_ndjson(path, recs)
    res = core.run_tlc("StreamRace.tla", "StreamRace.cfg", workers=1, env={"TRACE": path}, timeout=300,
                       metadir=os.path.join(core.WORK, "tlc-meta", "StreamRace-%d" % os.getpid()))
    core.tlc_must_pass(res, "StreamRace")
    j = res.printed("JUDGED")[0]
    chk.add_tlc(res)
    chk.evaluations += len(recs)
    chk.traces += len(recs) - len(j["bad"])
    seen = set()
    for i in j["bad"]:
        r = recs[i - 1]
        key = (r["fam"], r["op"], r["res"])
        if key in seen:
            continue
        seen.add(key)
        chk.violate({"part": "race", "fam": r["fam"], "op": r["op"], "why": "timeout_early" if r["res"] == "timeout" else r["res"]},
                    "%s %s with several waiters on one socket (round %d, waiter %d): %s after %d us, limit %d us" % (
                        r["fam"], r["op"], r["round"], r["waiter"], r["res"], r["elapsed"], r["d"] + 1), {"mode": "racers", "record": r})
    hist = {}
    for r in recs:
        k = "%s/%s -> %s" % (r["fam"], r["op"], r["res"] if r["res"] != "err" else "err(%s)" % r["errno"])
        hist[k] = hist.get(k, 0) + 1
    chk.extra["several_waiters_on_one_socket"] = dict(sorted(hist.items()))


def run_tryops(chk, bindir, hang_s=None, probe=False):
    wd = os.path.join(chk.work, "tryops")
    shutil.rmtree(wd, ignore_errors=True)
    os.makedirs(wd)
    log = os.path.join(wd, "strace.log")
    cmd = ["strace", "-f", "-s", "200", "-o", log, "-e", "trace=network,desc,ppoll,poll,select,pselect6,epoll_wait,epoll_pwait,nanosleep,clock_nanosleep,futex,pause",
           os.path.join(bindir, "netops"), "tryops", wd]
    p = core.run_cmd(cmd, check=False, timeout=600, env={"VERIF_TRY_HANG_S": str(hang_s)} if hang_s else None)
    if p.returncode != 0:
        # a try_* call that blocks for ever shows up as a timeout of this command -> ToolError above; other failures:
        raise core.ToolError("strace/tryops failed rc=%d: %s" % (p.returncode, p.stderr[-1500:]))
    reports = [json.loads(l) for l in p.stdout.splitlines() if l.startswith("{")]
    windows = {}
    cur = None          # (name, tid of the thread that made the begin marker): only ITS system calls count
    for line in open(log, errors="replace"):
        m = re.match(r"^(\d+)\s+(\w+)\((.*)", line)
        if not m:
            continue
        tid, name, rest = m.group(1), m.group(2), m.group(3)
        if name == "write" and '"MARK:' in rest:
            mm = re.search(r'MARK:(begin|end):(\w+)', rest)
            if mm and mm.group(1) == "begin":
                cur = (mm.group(2), tid)
                windows[cur[0]] = []
            else:
                cur = None
            continue
        if cur is not None and tid == cur[1]:
            windows[cur[0]].append(name)
    recs = []
    for r in reports:
        if r["name"] not in windows:
            raise core.ToolError("no strace window for " + r["name"])
        recs.append({"name": r["name"], "res": r["res"], "nonblock": bool(r["nonblock"]), "syscalls": windows[r["name"]]})
    shutil.rmtree(wd, ignore_errors=True)
    path = os.path.join(chk.work, "tryops.ndjson")
    if hang_s is None and any(r["res"] == "hang" for r in recs):
        # "did not come back within 3 s" rests on the wall clock: twice more, alone, with a limit >= 5x as large
        r1 = run_tryops(chk, bindir, hang_s=generous(3), probe=True)
        if not any(r["res"] == "hang" for r in r1):
            chk.extra["try_hang_not_reproduced"] = True
            return r1
        return run_tryops(chk, bindir, hang_s=generous(3) + 1)
    if probe:
        return recs
    core.write_ndjson(path, recs)
    res = core.run_tlc("StreamTry.tla", "StreamTry.cfg", workers=1, env={"TRACE": path}, timeout=300)
    core.tlc_must_pass(res, "StreamTry")
    j = res.printed("JUDGED")[0]
    chk.add_tlc(res)
    chk.evaluations += len(recs)
    chk.traces += len(recs) - len(j["bad"])
    for i in j["bad"]:
        r = recs[i - 1]
        chk.violate({"part": "try", "op": r["name"], "why": "blocking_call_or_mode"},
                    "%s: result %s, listener/socket non-blocking=%s, system calls inside the call: %s" % (r["name"], r["res"], r["nonblock"], r["syscalls"]),
                    {"mode": "tryops", "record": r})
    chk.extra["try_calls_judged"] = [{"name": r["name"], "res": r["res"], "syscalls": r["syscalls"]} for r in recs]
    return recs


# ------------------------------------------------------------------------------------------
def run(tier):
    chk = core.Check("C16", tier, "model_checking")
    bindir = core.cargo_build(bins=["netops"])
    nontrivial = set()

    # ---- 1. the designs, exhaustively on small constants
    racers = start_racers(chk, bindir, tier)
    pool = concurrent.futures.ThreadPoolExecutor(max_workers=2)
    fut_stream = pool.submit(core.run_tlc, "Stream.tla", "Stream_MCq.cfg" if tier == "quick" else "Stream_MC.cfg", workers=4,
                             timeout=3000, xmx="8g", metadir=os.path.join(core.WORK, "tlc-meta", "Stream-%d" % os.getpid()))
    vecs = cmsg_vectors(chk, tier)

    # ---- 2. transfers
    plans = gen_plans(chk, 199 if tier == "quick" else 61, 4 if tier == "quick" else 5)
    conns, incidents = run_stream(chk, bindir, plans)
    if incidents:
        # let the background jobs finish first: the re-runs must be alone
        finish_racers(chk, racers)
        racers = None
        fut_stream.result()
        incidents = reconfirm_stream(chk, bindir, plans, conns, incidents)
    else:
        chk.extra["watchdog_trips_not_reproduced"] = {"count": 0, "cases": []}
    acc, rejected, frontier = judge_stream(chk, conns, plans)
    for r in rejected:
        sig, what = explain_conn(r, frontier.get(r["id"]))
        sig.update({"part": "stream", "fam": plans[r["id"]]["fam"]})
        chk.violate(sig, "connection %d (%s): %s" % (r["id"], json.dumps(plans[r["id"]]["klass"]), what),
                    {"mode": "stream", "plan": plans[r["id"]], "client_log": r["c"][:400], "server_log": r["s"][:400]})
    judge_ctors(chk, bindir, conns, plans)
    for k, what in incidents.items():
        chk.violate({"part": "stream", "fam": plans[k]["fam"], "op": "plan", "why": what, "acc": plans[k]["klass"].get("acc"), "con": plans[k]["klass"].get("con")},
                    "a call of the code under test did not return (%s: no call completed for 8 s; re-confirmed alone, 2 of 2 re-runs with a limit of 40 s or more) while running plan %s" % (what, json.dumps(plans[k]["klass"])), {"mode": "stream", "plan": plans[k], "incident": what})
    nev = 0
    for k, c in enumerate(conns):
        if c is None:
            continue
        evs = c["c"] + c["s"]
        nev += len(evs)
        waited = any(e.get("op") == "write" and e.get("t1", 0) - e.get("t0", 0) > 1000 for e in evs) or \
            any(e.get("res") == "timeout" for e in evs) or any(e.get("res") == "none" for e in evs)
        if k in acc and (waited or plans[k]["cs"]["n"] >= 4096):
            nontrivial.add(("conn", k))
    chk.evaluations += nev
    apis = {}
    for k, cc in enumerate(conns):
        if cc:
            for side in ("c", "s"):
                for e in cc[side]:
                    if e.get("op") in ("write", "read", "flush") and e.get("res") in ("ok", "eof"):
                        key = "%s/%s" % (plans[k]["fam"], e.get("api") or (e["op"] if e["op"] == "flush" else
                                         plans[k]["cs" if (side == "s") == (e["op"] == "read") else "sc"].get("rapi" if e["op"] == "read" else "wapi", e["op"])))
                        apis[key] = apis.get(key, 0) + 1
    chk.extra["stream_entry_points_exercised"] = dict(sorted(apis.items()))
    probes = {}
    for k, cc in enumerate(conns):
        if cc:
            for side in ("c", "s"):
                for e in cc[side]:
                    if e.get("nothing_pending") or e.get("nothing_answers") or e.get("silent_peer"):
                        key = "%s/%s d_ns=%s -> %s" % (plans[k]["fam"], "connect_to" if e.get("nothing_answers") else e["op"], e.get("d_ns"), e["res"])
                        probes[key] = probes.get(key, 0) + 1
    chk.extra["timed_calls_with_nothing_pending"] = dict(sorted(probes.items()))
    chk.extra["timed_waits_interrupted_twice_or_more"] = [
        {"fam": plans[k]["fam"], "op": e["op"], "signals": e["signals"], "limit_us": e.get("d"), "elapsed_us": e["t1"] - e["t0"], "res": e["res"]}
        for k, c in enumerate(conns) if c for side in ("c", "s") for e in c[side] if e.get("signals", 0) >= 2]
    chk.extra.update({"transfer_plans": len(plans), "connections_accepted": len(acc), "events_logged": nev,
                      "plans_not_run_after_hangs": sum(1 for k, c in enumerate(conns) if c is None and k not in incidents)})
    chk.sample({"plan": plans[0]["klass"], "client_events": [(e["op"], e.get("req"), e["res"], e.get("n")) for e in (conns[0] or {"c": []})["c"][:6]]})

    # ---- 3. descriptor passing on real sockets, control buffer against a guard page
    cases, recs, byid = run_fdpass(chk, bindir, tier)
    for i in judge_cmsg(chk, recs, "fdpass"):
        c, r = cases[i], recs[i]
        chk.violate({"part": "fdpass", "res": r["res"], "klass": c["klass"], "hdr": c["hdr"]},
                    "passing %d descriptors into a %d-byte control buffer (%s, msghdr on the %s%s): %s, delivered=%s ctrunc=%s" % (
                        c["n"], c["ctrl"], c["klass"], c["hdr"], ", SO_PASSCRED" if c["creds"] else "", r["res"], r["delivered"], r["ctrunc"]),
                    {"mode": "fdpass", "case": c, "result": byid.get(i)})
    for c, r in zip(cases, recs):
        if c["n"] > 0 and r["res"] == "ok":
            nontrivial.add(("fd", c["n"], c["ctrl"], c["hdr"], c["creds"]))
    # ---- 4. the iterator on TLC-generated buffers
    items, irecs = run_cmsgiter(chk, bindir, vecs)
    for i in judge_cmsg(chk, irecs, "iter"):
        it, r = items[i], irecs[i]
        chk.violate({"part": "cmsgiter", "res": r["res"], "hdr": it["hdr"]},
                    "ControlMessageIterator on the %d-byte buffer %s (msghdr on the %s): %s out=%s, definition gives %s" % (
                        4 * len(it["words"]), it["words"], it["hdr"], r["res"], r["out"], it["expect"]),
                    {"mode": "cmsgiter", "vector": it, "result": r})
    for it, r in zip(items, irecs):
        if it["expect"] and r["res"] == "ok":
            nontrivial.add(("iter", json.dumps(it["words"]), it["hdr"]))
    chk.sample({"control_buffer_words": items[len(items) // 2]["words"], "expected_fds": items[len(items) // 2]["expect"]})
    # ---- 5. try_* never block (structural)
    run_tryops(chk, bindir)

    if racers is not None:
        finish_racers(chk, racers)
    res = fut_stream.result()          # the exhaustive run of the design went on in the background
    core.tlc_must_pass(res, "Stream")
    chk.add_tlc(res)
    chk.extra["stream_model_states"] = res.distinct

    chk.nontrivial = len(nontrivial)
    chk.rule = ("accepted connections in which some call had to wait (a write took > 1 ms, a Timeout or a try-None occurred) or >= 4 KiB were "
                "transferred + fd-passing cases with n >= 1 judged ok + iterator runs on buffers that hold descriptors")
    chk.exhaustive = False
    chk.extra.update({"fdpass_cases": len(cases), "iterator_vectors": len(items)})
    chk.assumptions = [
        "loopback only (AF_UNIX stream sockets and TCP 127.0.0.1); no signals (EINTR paths are not driven)",
        "ordering between the two endpoint threads comes from a shared atomic counter read before and after each call, never from the wall clock",
        "for timed calls only a lower bound on the elapsed monotonic time is asserted; a Timeout/None result is never required to be impossible",
        "payload identity is judged by the recorder comparing received bytes with the position-dependent pattern (`match`); TLC judges counts, order, prefix and completeness",
        "Stream.tla model-checked with Cap<=2, <=3 bytes per direction, clock<=2; Cmsg.tla with <=8 descriptors and <=96-byte buffers",
        "kernel delivery of SCM_RIGHTS modelled after net/core/scm.c (Cmsg!Kernel); descriptors compared by fstat (dev, ino)",
    ]
    return chk.finish()


def replay(path):
    rp = json.load(open(path))["replay"]
    chk = core.Check("C16", "quick", "model_checking")
    bindir = core.cargo_build(bins=["netops"])
    if rp["mode"] == "stream":
        conns, inc = run_stream(chk, bindir, [rp["plan"]], nproc=1)
        acc, rejected, frontier = judge_stream(chk, conns, [rp["plan"]])
        print("incidents:", inc, "accepted:", sorted(acc), "rejected:", [explain_conn(r, frontier.get(r["id"]))[1] for r in rejected])
        return 1 if rejected or inc else 0
    if rp["mode"] == "fdpass":
        path2 = os.path.join(chk.work, "replay_case.ndjson")
        core.write_ndjson(path2, [rp["case"]])
        wd = os.path.join(chk.work, "fdfiles_replay")
        os.makedirs(wd, exist_ok=True)
        lines, inc = run_resumable([os.path.join(bindir, "netops"), "fdpass", path2, wd], 1, 60, "id")
        print("result:", lines, "incidents:", inc)
        return 1 if inc else 0
    print("replay of mode %s: rerun ./bin/check C16 quick" % rp["mode"])
    return 0


def selftest():
    """Anti-vacuity: a recorded connection is accepted; corrupted copies are rejected."""
    import copy
    chk = core.Check("C16", "selftest", "model_checking")
    bindir = core.cargo_build(bins=["netops"])
    plan = {"fam": "tcp", "closer": "c", "klass": {}, "accept": {"kind": "timeout", "d_us": 1000, "then": "plain"}, "connect": {"kind": "plain"},
            "connect_delay_ms": 15, "sndbuf": 4096, "rcvbuf": 4096,
            "cs": {"n": 70000, "wchunks": [65536], "rchunks": [4096], "reader_delay_ms": 10, "read_to_us": 1000},
            "sc": {"n": 5, "wchunks": [1], "rchunks": [3], "writer_delay_ms": 5, "read_to_us": 1000}}
    conns, inc = run_stream(chk, bindir, [plan], nproc=1)
    good = conns[0]
    variants = {"unchanged": good}

    def first(side, pred, c):
        return next(e for e in c[side] if pred(e))
    v = copy.deepcopy(good)
    first("s", lambda e: e["op"] in ("read", "read_to") and e["res"] == "ok", v)["match"] = False
    variants["payload_mismatch"] = v
    v = copy.deepcopy(good)
    v["c"].remove([e for e in v["c"] if e["op"] == "write"][-1])
    variants["last_write_event_dropped"] = v
    v = copy.deepcopy(good)
    e = first("s", lambda e: e["res"] == "timeout", v)
    e["t1"] = e["t0"] + e["d"] - 1
    variants["timeout_one_us_early"] = v
    v = copy.deepcopy(good)
    e = [x for x in v["s"] if x["op"] in ("read", "read_to") and x["res"] == "ok"][1]
    e["off"] -= 1
    variants["byte_delivered_twice"] = v
    v = copy.deepcopy(good)
    first("s", lambda e: e["op"].startswith("accept") and e["res"] == "ok", v)["s"] = 0
    first("s", lambda e: e["op"].startswith("accept") and e["res"] == "ok", v)["e"] = 0
    variants["accept_before_anybody_connected"] = v
    ok = True
    for name, c in variants.items():
        acc, rejected, fr = judge_stream(chk, [c], [plan])
        verdict = "accepted" if acc else "rejected (%s)" % explain_conn(rejected[0], fr.get(rejected[0]["id"]))[1][:90]
        print("selftest %-34s %s" % (name, verdict))
        ok &= verdict.startswith("accepted" if name == "unchanged" else "rejected")
    recs = [{"kind": "fdpass", "n": 2, "ctrl": 24, "creds": False, "res": "ok", "delivered": [1, 2], "ctrunc": False, "fresh": True, "data_ok": True, "words": [], "out": []},
            {"kind": "fdpass", "n": 2, "ctrl": 24, "creds": False, "res": "ok", "delivered": [2, 1], "ctrunc": False, "fresh": True, "data_ok": True, "words": [], "out": []},
            {"kind": "fdpass", "n": 2, "ctrl": 20, "creds": False, "res": "ok", "delivered": [1], "ctrunc": False, "fresh": True, "data_ok": True, "words": [], "out": []},
            {"kind": "iter", "n": 1, "ctrl": 20, "creds": False, "res": "ok", "delivered": [], "ctrunc": False, "fresh": True, "data_ok": True, "words": [20, 0, 1, 1, 11], "out": [11, 7777]}]
    bad = judge_cmsg(chk, recs, "selftest")
    print("selftest cmsg judge rejects", bad, "(expected [1, 2, 3])")
    ok &= bad == [1, 2, 3]
    print("C16 selftest", "OK" if ok else "FAILED")
    return 0 if ok else 2
