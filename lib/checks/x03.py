"""X03 (growth check, not one of the 20 listed properties) - signal dispositions, the terminal
state of get_pass, the errno table.

1. rusl::process::add_signal_action: specs/Signal.tla (dispositions, pending sets, handler frames,
   the restorer = Return), model-checked on small constants (Signal_MC*.cfg); specs/SignalGen.tla
   generates operation sequences (random walks); harness/src/bin/sigops.rs executes every sequence
   in a forked child on the real kernel through the API under test; the recorded micro events
   (install / raise / handler entered / handler returned / operation over) are replayed through
   the ACTIONS of Signal.tla by specs/SignalTrace.tla (B2).
2. tiny_std::linux::get_pass::get_pass: specs/GetPass.tla (terminal flags + the steps of the
   function with a fault at each step), TLC enumerates the scenarios (GetPassGen), each is run on a
   real pty pair under tools/bin/sysinj (fault injection), the observed terminal states and the
   result are judged by specs/GetPassTrace.tla.
3. rusl::error::Errno: the table printed by the driver is judged by specs/ErrnoTable.tla."""
import json
import os
import re
import subprocess

from vlib import core

SIGS = ["HUP", "INT", "SEGV", "TERM", "CHLD"]
SIGNO = {"HUP": 1, "INT": 2, "QUIT": 3, "USR1": 10, "SEGV": 11, "USR2": 12, "PIPE": 13, "ALRM": 14, "TERM": 15, "CHLD": 17}
NAME = {v: k for k, v in SIGNO.items()}
PROBES = ["ProbeNested", "ProbeBlockedPending", "ProbeDead"]


# ------------------------------------------------------------------------------------ signals
def sig_model_check(chk, tier):
    out = {}
    cfgs = ["Signal_MCq.cfg", "Signal_MCl.cfg"] + (["Signal_MCt.cfg"] if tier == "thorough" else [])
    for cfg in cfgs:
        res = core.run_tlc("Signal.tla", cfg, workers=4, timeout=1500, xmx="4g")
        core.tlc_must_pass(res, cfg)
        chk.add_tlc(res)
        out[cfg] = res.distinct
    for p in PROBES:
        res = core.run_tlc("Signal.tla", "Signal_MC_%s.cfg" % p, workers=2, timeout=300, xmx="1g")
        if p not in res.invariant_violated:
            raise core.ToolError("Signal probe %s not reachable" % p)
        out[p] = "reachable"
    return out


def sig_generate(chk, tier):
    num = 160 if tier == "quick" else 2500
    depth = 12 if tier == "quick" else 16
    cfg = os.path.join(chk.work, "SignalGen_%s.cfg" % tier)
    with open(cfg, "w") as f:
        f.write('CONSTANTS\n  Sigs = {"HUP", "INT", "SEGV", "TERM", "CHLD"}\n  Hids = {1, 2}\n  Threads = {0, 1}\n  MaxRaise = 0\n'
                '  SelfBlock = TRUE\n  Depth = %d\nINIT GInit\nNEXT GNext\nINVARIANT Emit\nCONSTRAINT Bound\nCHECK_DEADLOCK FALSE\n' % depth)
    res = core.run_tlc("SignalGen.tla", cfg, workers=1, simulate=num, depth=depth + 1, seed=chk.seed * 100 + 3, timeout=900, xmx="2g")
    if res.errors:
        raise core.ToolError("SignalGen failed: %s" % res.out[-1500:])
    m = re.search(r"The number of states generated: (\d+)", res.out)
    if m:
        chk.transitions += int(m.group(1))
    seqs, seen = [], set()
    for ops in res.printed("SEQ"):
        for o in ops:
            o.pop("w", None)
        key = json.dumps(ops, sort_keys=True)
        if key not in seen:
            seen.add(key)
            seqs.append(ops)
    if len(seqs) < 20:
        raise core.ToolError("SignalGen produced only %d sequences" % len(seqs))
    return seqs


def sig_execute(chk, bindir, plan, tag):
    path = os.path.join(chk.work, "sigplan_%s.ndjson" % tag)
    core.write_ndjson(path, plan)
    try:
        p = subprocess.run([os.path.join(bindir, "sigops"), "run", path], stdout=subprocess.PIPE, stderr=subprocess.PIPE, text=True, timeout=1500)
    except subprocess.TimeoutExpired:
        raise core.ToolError("sigops driver exceeded 1500 s")
    if p.returncode != 0:
        raise core.ToolError("sigops run failed (rc=%s): %s" % (p.returncode, p.stderr[-1500:]))
    by_seq = {}
    for line in p.stdout.splitlines():
        try:
            e = json.loads(line)
        except ValueError:
            continue
        by_seq.setdefault(e["seq"], []).append(e)
    return by_seq


def flatten(seq, ops, events):
    """driver events of one sequence -> micro events for SignalTrace (one per action of Signal.tla)"""
    out = [{"m": "reset", "seq": seq, "i": -1}]

    def logs(e, i, died, thr):
        for r in e.get("log", []):
            t = r["t"]
            if t == -1 and died:
                t = 1           # the main thread of a dead child is known (tid = pid), so this was the helper
            if r["ev"] == "enter":
                out.append({"m": "enter", "seq": seq, "i": i, "t": t, "signo": r["signo"], "k": r["k"], "h": r["h"],
                            "isig": r["isig"], "code": r["code"], "pid": r["pid"]})
            elif r["ev"] == "exit":
                out.append({"m": "exit", "seq": seq, "i": i, "t": t, "signo": r["signo"], "k": r["k"], "h": r["h"]})
            elif r["ev"] == "nraise":
                out.append({"m": "raise", "seq": seq, "i": i, "t": t, "sig": NAME.get(r["signo"], "?"), "how": "nested"})
            else:
                raise core.ToolError("torn log record in sequence %d" % seq)

    def head(op, i, e):
        """the action that starts operation i"""
        o = op["op"]
        if o == "install":
            if e is None or "view" not in e:
                return
            view = {s: {"k": v["k"], "h": v["h"], "siginfo": v["siginfo"]} for s, v in e["view"].items()}
            out.append({"m": "install", "seq": seq, "i": i, "t": op["thr"], "sig": op["sig"], "k": op["k"], "h": op["h"],
                        "rc": e["rc"], "view": view})
        elif o in ("raise", "raise_nested"):
            if op.get("fork"):
                if e is not None and "status" in e:
                    st = e["status"]
                    out.append({"m": "fork_raise", "seq": seq, "i": i, "sig": op["sig"], "signaled": st["signaled"], "exited": st["exited"]})
                    out.append({"m": "raise", "seq": seq, "i": i, "t": 0, "sig": "CHLD", "how": "child"})
            else:
                out.append({"m": "raise", "seq": seq, "i": i, "t": op["thr"], "sig": op["sig"], "how": "tgkill"})
        elif o == "raise_async":
            out.append({"m": "raise", "seq": seq, "i": i, "t": 0, "sig": op["sig"], "how": "kill"})
        elif o == "spawn_thread":
            out.append({"m": "spawn", "seq": seq, "i": i})

    for e in sorted(events, key=lambda x: (x["op"] == "died", x["i"])):
        i = e["i"]
        if e["op"] == "died":
            if i < 0 or i >= len(ops):
                out.append({"m": "end", "seq": seq, "i": max(i, 0), "returned": False, "acc_ok": True, "read": "none",
                            "crash": e["crash"] or -1, "hang": e["hang"]})
                continue
            head(ops[i], i, None)
            if ops[i].get("fork") and any(r["ev"] == "enter" and r["signo"] == 17 for r in e.get("log", [])):
                # the forked copy ended (its status was never printed) and SIGCHLD reached the process
                out.append({"m": "raise", "seq": seq, "i": i, "t": 0, "sig": "CHLD", "how": "child"})
            logs(e, i, True, ops[i].get("thr", 0))
            out.append({"m": "end", "seq": seq, "i": i, "returned": False, "acc_ok": True, "read": "none",
                        "crash": e["crash"] or (-1 if not e["hang"] else 0), "hang": e["hang"]})
            continue
        head(ops[i], i, e)
        logs(e, i, False, ops[i].get("thr", 0))
        out.append({"m": "end", "seq": seq, "i": i, "returned": bool(e.get("returned", True)), "acc_ok": bool(e.get("acc_ok", True)),
                    "read": e.get("read", "none") if e.get("read", "none") in ("none", "data", "eintr") else "failed", "crash": 0, "hang": False})
    return out


def sig_canaries():
    """synthetic micro-event sequences, each breaking one clause; SignalTrace must flag every one"""
    view0 = {s: {"k": "dfl", "h": 0, "siginfo": False} for s in SIGNO}

    def view(**kw):
        v = json.loads(json.dumps(view0))
        for s, (k, h) in kw.items():
            v[s] = {"k": k, "h": h, "siginfo": k == "sigaction"}
        return v

    def inst(i, sig, k, h, v, rc=0):
        return [{"m": "install", "i": i, "t": 0, "sig": sig, "k": k, "h": h, "rc": rc, "view": v},
                {"m": "end", "i": i, "returned": True, "acc_ok": True, "read": "none", "crash": 0, "hang": False}]

    def enter(i, signo, k, h, t=0, isig=None, code=-6, pid="self"):
        return {"m": "enter", "i": i, "t": t, "signo": signo, "k": k, "h": h, "isig": signo if isig is None else isig,
                "code": code if k == "sigaction" else 0, "pid": pid if k == "sigaction" else "none"}

    def exit_(i, signo, k, h, t=0):
        return {"m": "exit", "i": i, "t": t, "signo": signo, "k": k, "h": h}

    def end(i, **kw):
        e = {"m": "end", "i": i, "returned": True, "acc_ok": True, "read": "none", "crash": 0, "hang": False}
        e.update(kw)
        return e

    def raise_(i, sig, t=0, how="tgkill"):
        return {"m": "raise", "i": i, "t": t, "sig": sig, "how": how}

    ok_inst = inst(0, "TERM", "sigaction", 1, view(TERM=("sigaction", 1)))
    return [
        (inst(0, "TERM", "handler", 1, view(TERM=("handler", 1)), rc=22), "InstallFailed"),
        (inst(0, "TERM", "handler", 1, view()), "DispositionNotInstalled"),
        (inst(0, "TERM", "handler", 1, view(TERM=("handler", 1), INT=("handler", 1))), "OtherDispositionChanged"),
        (inst(0, "TERM", "handler", 1, view(TERM=("handler", 1), USR1=("ign", 0))), "UnrelatedSignalChanged"),
        (ok_inst + [raise_(1, "TERM"), end(1)], "HandlerNotRun"),
        (ok_inst + [raise_(1, "TERM"), enter(1, 15, "sigaction", 2), exit_(1, 15, "sigaction", 2), end(1)], "WrongHandler"),
        (ok_inst + [raise_(1, "TERM"), enter(1, 2, "sigaction", 1), exit_(1, 2, "sigaction", 1), end(1)], "UnexpectedHandlerRun"),
        (ok_inst + [raise_(1, "TERM"), enter(1, 15, "sigaction", 1, isig=2), exit_(1, 15, "sigaction", 1), end(1)], "WrongSigInfo"),
        (ok_inst + [raise_(1, "TERM"), enter(1, 15, "sigaction", 1, pid="other"), exit_(1, 15, "sigaction", 1), end(1)], "WrongSigInfo"),
        (ok_inst + [raise_(1, "TERM"), enter(1, 15, "sigaction", 1, t=1), exit_(1, 15, "sigaction", 1, t=1), end(1)], "WrongThread"),
        (ok_inst + [raise_(1, "TERM"), enter(1, 15, "sigaction", 1), exit_(1, 15, "sigaction", 1), enter(1, 15, "sigaction", 1),
                    exit_(1, 15, "sigaction", 1), end(1)], "UnexpectedHandlerRun"),
        (ok_inst + [raise_(1, "TERM"), enter(1, 15, "sigaction", 1), end(1)], "HandlerDidNotReturn"),
        (ok_inst + [raise_(1, "TERM"), end(1, crash=11, returned=False)], "CrashOnDelivery"),
        (ok_inst + [raise_(1, "TERM"), enter(1, 15, "sigaction", 1), exit_(1, 15, "sigaction", 1), end(1, crash=11, returned=False)], "CrashOnHandlerReturn"),
        (ok_inst + [raise_(1, "TERM"), enter(1, 15, "sigaction", 1), exit_(1, 15, "sigaction", 1), end(1, acc_ok=False)], "InterruptedComputationCorrupted"),
        (inst(0, "TERM", "ign", 0, view(TERM=("ign", 0))) + [raise_(1, "TERM"), enter(1, 15, "handler", 1), exit_(1, 15, "handler", 1), end(1)],
         "HandlerRunUnderOtherDisposition"),
        ([{"m": "fork_raise", "i": 0, "sig": "TERM", "signaled": 0, "exited": 77}, raise_(0, "CHLD", how="child"), end(0)], "DefaultActionNotTaken"),
        ([{"m": "fork_raise", "i": 0, "sig": "TERM", "signaled": 9, "exited": -1}, raise_(0, "CHLD", how="child"), end(0)], "WrongWaitStatus"),
        (inst(0, "CHLD", "sigaction", 2, view(CHLD=("sigaction", 2))) +
         [{"m": "fork_raise", "i": 1, "sig": "TERM", "signaled": 15, "exited": -1}, raise_(1, "CHLD", how="child"), end(1)], "HandlerNotRun"),
    ]


def sig_part(chk, tier, bindirs):
    mc = sig_model_check(chk, tier)
    seqs = sig_generate(chk, tier)
    plan = [{"seq": n, "ops": ops} for n, ops in enumerate(seqs)]
    runs = []           # (profile, plan entry, events)
    by_seq = sig_execute(chk, bindirs["release"], plan, tier + "_release")
    for p in plan:
        runs.append(("release", p, by_seq.get(p["seq"], [])))
    # the unoptimised build: a sample (the restorer trampoline is compiled code, its shape depends on the profile)
    sample = plan[:: max(1, len(plan) // (12 if tier == "quick" else 40))]
    by_seq = sig_execute(chk, bindirs["debug"], sample, tier + "_debug")
    for p in sample:
        runs.append(("debug", p, by_seq.get(p["seq"], [])))
    trace, meta = [], {}
    for n, (profile, p, evs) in enumerate(runs):
        if not evs:
            raise core.ToolError("no events for sequence %d (%s)" % (p["seq"], profile))
        meta[n] = (profile, p, evs)
        trace += flatten(n, p["ops"], evs)
    CAN = 10 ** 6
    expected = {}
    for n, (c, why) in enumerate(sig_canaries()):
        cid = CAN + n + 1
        trace.append({"m": "reset", "seq": cid, "i": -1})
        trace += [dict(e, seq=cid) for e in c]
        expected[cid] = why
    path = os.path.join(chk.work, "signal_trace_%s.ndjson" % tier)
    core.write_ndjson(path, trace)
    res = core.run_tlc("SignalTrace.tla", "SignalTrace.cfg", workers=1, env={"TRACE": path}, timeout=3000, xmx="4g", deque=True)
    core.tlc_must_pass(res, "SignalTrace")
    chk.add_tlc(res)
    done = res.printed("DONE")
    if len(done) != 1 or done[0]["events"] != len(trace):
        raise core.ToolError("SignalTrace consumed %s of %d events: %s" % (done and done[0]["events"], len(trace), res.out[-1500:]))
    flagged = done[0]["bad"]
    caught = {}
    for b in flagged:
        if b["seq"] >= CAN:
            caught.setdefault(b["seq"], set()).update(b["reasons"])
    missed = [c for c, why in expected.items() if why not in caught.get(c, set())]
    if missed or not expected:
        raise core.ToolError("SignalTrace accepted %d of %d corrupted sequences (vacuous judge): %s" % (len(missed), len(expected), missed))
    chk.extra["signal_corrupted_sequences_rejected"] = len(expected)
    kinds, nontrivial, handler_runs = {}, 0, 0
    for n, (profile, p, evs) in meta.items():
        for e in evs:
            kinds[e["op"]] = kinds.get(e["op"], 0) + 1
            ent = sum(1 for r in e.get("log", []) if r["ev"] == "enter")
            handler_runs += ent
            if ent or "status" in e:
                nontrivial += 1
    chk.traces += len(runs)
    chk.evaluations += sum(len(evs) for _, _, evs in runs)
    chk.nontrivial += nontrivial
    for b in flagged:
        if b["seq"] >= CAN:
            continue
        profile, p, evs = meta[b["seq"]]
        op = p["ops"][b["i"]] if 0 <= b["i"] < len(p["ops"]) else {"op": "?"}
        rec = [e for e in evs if e["i"] == b["i"]]
        for reason in b["reasons"]:
            sig = {"part": "signal", "op": op["op"], "reason": reason, "profile": profile}
            # the disposition kind the operation exercises (what the defect depends on)
            d = {}
            for o in p["ops"][:b["i"] + 1]:
                if o["op"] == "install":
                    d[o["sig"]] = o["k"]
            sig["kind"] = op.get("k") if op["op"] == "install" else d.get(op.get("sig"), "dfl")
            chk.violate(sig, "%s (%s build): %s at operation %d %s of sequence %d; recorded: %s" % (
                op["op"], profile, reason, b["i"], json.dumps(op), p["seq"], json.dumps(rec)[:500]),
                {"part": "signal", "profile": profile, "ops": p["ops"], "upto": b["i"], "recorded": evs[:b["i"] + 2]})
    for profile, p, evs in runs[:3]:
        chk.sample({"profile": profile, "ops": [o["op"] + ":" + o.get("sig", "") + ":" + o.get("k", "") for o in p["ops"]],
                    "handler_runs": sum(1 for e in evs for r in e.get("log", []) if r["ev"] == "enter")})
    chk.extra.update({"signal_sequences": len(plan), "signal_sequences_debug_build": len(sample), "signal_operations_by_kind": kinds,
                      "signal_handler_runs_observed": handler_runs, "signal_micro_events": len(trace), "signal_model_checking": mc,
                      "signal_crashes": sum(1 for _, _, evs in runs for e in evs if e["op"] == "died")})


def run(tier):
    chk = core.Check("X03", tier, "model_checking")
    bindirs = {"debug": core.cargo_build(bins=["sigops"]), "release": core.cargo_build(bins=["sigops"], release=True)}
    sig_part(chk, tier, bindirs)
    chk.rule = ("signals: TLC simulates SignalGen over the five signals and six dispositions of the API; every distinct walk is one operation "
                "sequence executed in a forked child through add_signal_action with raw tgkill/kill raises; every recorded micro event "
                "(install, raise, handler entered, handler returned, operation over, wait status of a forked copy) is one step of Signal.tla "
                "replayed by TLC (SignalTrace). evaluations = operations executed; non-trivial = operations in which a handler ran or a "
                "default action terminated a forked copy")
    chk.assumptions = [
        "x86_64 only; SIGKILL/SIGSTOP cannot be named through CatchSignal (compile-time), so a failing install has no reachable case",
        "the API documents neither the signal mask during a handler nor SA_RESTART: both nesting orders and both outcomes (restart, EINTR) of an interrupted read are admitted",
        "the kernel's view of the dispositions is read with libc's sigaction, signals are raised with raw tgkill/kill; the helper thread blocks every signal except while it raises one at itself",
        "not covered: real-time signals, sigaltstack, SA_RESETHAND/SA_NODEFER (not reachable through the API), faults that re-execute an instruction (SEGV is only raised with tgkill)",
    ]
    return chk.finish()


def replay(path):
    rp = json.load(open(path))["replay"]
    chk = core.Check("X03", "quick", "model_checking")
    bindir = core.cargo_build(bins=["sigops"], release=rp.get("profile") == "release")
    if rp.get("part") == "signal":
        by_seq = sig_execute(chk, bindir, [{"seq": 0, "ops": rp["ops"][:rp["upto"] + 1]}], "replay")
        for e in by_seq.get(0, []):
            print("  ", json.dumps(e)[:400])
    return 0


def selftest():
    from checks import sysinj_common as SJ
    return SJ.selftest_seeded("X03")
