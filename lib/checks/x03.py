"""X03 (growth check, not one of the 20 listed properties) - signal dispositions, the terminal
state of get_pass, the errno table.

1. rusl::process::add_signal_action: specs/Signal.tla (dispositions, pending sets, handler frames,
   the restorer = Return), model-checked on small constants (Signal_MC*.cfg); specs/SignalGen.tla
   generates operation sequences (random walks); harness/src/bin/sigops.rs executes every sequence
   in a forked child on the real kernel through the API under test; the recorded micro events
   (install / raise / handler entered / handler returned / operation over) are replayed through
   the ACTIONS of Signal.tla by specs/SignalTrace.tla (B2).
2. tiny_std::linux::get_pass::get_pass: specs/GetPass.tla (terminal flags + the steps of the
   function with a fault at each step), TLC enumerates the scenarios (GetPassGen), each is run on a
   real pty pair under tools/bin/sysinj (fault injection), the observed terminal states and the
   result are judged by specs/GetPassTrace.tla.
3. rusl::error::Errno: the table printed by the driver is judged by specs/ErrnoTable.tla."""
import json
import os
import re
import subprocess

from vlib import core

SIGS = ["HUP", "INT", "SEGV", "TERM", "CHLD"]
SIGNO = {"HUP": 1, "INT": 2, "QUIT": 3, "USR1": 10, "SEGV": 11, "USR2": 12, "PIPE": 13, "ALRM": 14, "TERM": 15, "CHLD": 17}
NAME = {v: k for k, v in SIGNO.items()}
PROBES = ["ProbeNested", "ProbeBlockedPending", "ProbeDead"]


# ------------------------------------------------------------------------------------ signals
def sig_model_check(chk, tier):
    out = {}
    cfgs = ["Signal_MCq.cfg", "Signal_MCl.cfg"] + (["Signal_MCt.cfg"] if tier == "thorough" else [])
    for cfg in cfgs:
        res = core.run_tlc("Signal.tla", cfg, workers=4, timeout=1500, xmx="4g")
        core.tlc_must_pass(res, cfg)
        chk.add_tlc(res)
        out[cfg] = res.distinct
    for p in PROBES:
        res = core.run_tlc("Signal.tla", "Signal_MC_%s.cfg" % p, workers=2, timeout=300, xmx="1g")
        if p not in res.invariant_violated:
            raise core.ToolError("Signal probe %s not reachable" % p)
        out[p] = "reachable"
    return out


def sig_generate(chk, tier):
    num = 160 if tier == "quick" else 10000
    depth = 12 if tier == "quick" else 20
    cfg = os.path.join(chk.work, "SignalGen_%s.cfg" % tier)
    with open(cfg, "w") as f:
        f.write('CONSTANTS\n  Sigs = {"HUP", "INT", "SEGV", "TERM", "CHLD"}\n  Hids = {1, 2}\n  Threads = {0, 1}\n  MaxRaise = 0\n'
                '  SelfBlock = TRUE\n  Depth = %d\nINIT GInit\nNEXT GNext\nINVARIANT Emit\nCONSTRAINT Bound\nCHECK_DEADLOCK FALSE\n' % depth)
    res = core.run_tlc("SignalGen.tla", cfg, workers=1, simulate=num, depth=depth + 1, seed=chk.seed * 100 + 3, timeout=900, xmx="2g")
    if res.errors:
        raise core.ToolError("SignalGen failed: %s" % res.out[-1500:])
    m = re.search(r"The number of states generated: (\d+)", res.out)
    if m:
        chk.transitions += int(m.group(1))
    seqs, seen = [], set()
    for ops in res.printed("SEQ"):
        for o in ops:
            o.pop("w", None)
        key = json.dumps(ops, sort_keys=True)
        if key not in seen:
            seen.add(key)
            seqs.append(ops)
    if len(seqs) < 20:
        raise core.ToolError("SignalGen produced only %d sequences" % len(seqs))
    return seqs


def sig_execute(chk, bindir, plan, tag):
    path = os.path.join(chk.work, "sigplan_%s.ndjson" % tag)
    core.write_ndjson(path, plan)
    try:
        p = subprocess.run([os.path.join(bindir, "sigops"), "run", path], stdout=subprocess.PIPE, stderr=subprocess.PIPE, text=True, timeout=1500)
    except subprocess.TimeoutExpired:
        raise core.ToolError("sigops driver exceeded 1500 s")
    if p.returncode != 0:
        raise core.ToolError("sigops run failed (rc=%s): %s" % (p.returncode, p.stderr[-1500:]))
    by_seq = {}
    for line in p.stdout.splitlines():
        try:
            e = json.loads(line)
        except ValueError:
            continue
        by_seq.setdefault(e["seq"], []).append(e)
    return by_seq


def flatten(seq, ops, events):
    """driver events of one sequence -> micro events for SignalTrace (one per action of Signal.tla)"""
    out = [{"m": "reset", "seq": seq, "i": -1}]

    def logs(e, i, died, thr):
        for r in e.get("log", []):
            t = r["t"]
            if t == -1 and died:
                t = 1           # the main thread of a dead child is known (tid = pid), so this was the helper
            if r["ev"] == "enter":
                out.append({"m": "enter", "seq": seq, "i": i, "t": t, "signo": r["signo"], "k": r["k"], "h": r["h"],
                            "isig": r["isig"], "code": r["code"], "pid": r["pid"]})
            elif r["ev"] == "exit":
                out.append({"m": "exit", "seq": seq, "i": i, "t": t, "signo": r["signo"], "k": r["k"], "h": r["h"]})
            elif r["ev"] == "nraise":
                out.append({"m": "raise", "seq": seq, "i": i, "t": t, "sig": NAME.get(r["signo"], "?"), "how": "nested"})
            else:
                raise core.ToolError("torn log record in sequence %d" % seq)

    def head(op, i, e):
        """the action that starts operation i"""
        o = op["op"]
        if o == "install":
            if e is None or "view" not in e:
                return
            view = {s: {"k": v["k"], "h": v["h"], "siginfo": v["siginfo"]} for s, v in e["view"].items()}
            out.append({"m": "install", "seq": seq, "i": i, "t": op["thr"], "sig": op["sig"], "k": op["k"], "h": op["h"],
                        "rc": e["rc"], "view": view})
        elif o in ("raise", "raise_nested"):
            if op.get("fork"):
                if e is not None and "status" in e:
                    st = e["status"]
                    out.append({"m": "fork_raise", "seq": seq, "i": i, "sig": op["sig"], "signaled": st["signaled"], "exited": st["exited"]})
                    out.append({"m": "raise", "seq": seq, "i": i, "t": 0, "sig": "CHLD", "how": "child"})
            else:
                out.append({"m": "raise", "seq": seq, "i": i, "t": op["thr"], "sig": op["sig"], "how": "tgkill"})
        elif o == "raise_async":
            out.append({"m": "raise", "seq": seq, "i": i, "t": 0, "sig": op["sig"], "how": "kill"})
        elif o == "spawn_thread":
            out.append({"m": "spawn", "seq": seq, "i": i})

    for e in sorted(events, key=lambda x: (x["op"] == "died", x["i"])):
        i = e["i"]
        if e["op"] == "died":
            if i < 0 or i >= len(ops):
                out.append({"m": "end", "seq": seq, "i": max(i, 0), "returned": False, "acc_ok": True, "read": "none",
                            "crash": e["crash"] or -1, "hang": e["hang"]})
                continue
            head(ops[i], i, None)
            if ops[i].get("fork") and any(r["ev"] == "enter" and r["signo"] == 17 for r in e.get("log", [])):
                # the forked copy ended (its status was never printed) and SIGCHLD reached the process
                out.append({"m": "raise", "seq": seq, "i": i, "t": 0, "sig": "CHLD", "how": "child"})
            logs(e, i, True, ops[i].get("thr", 0))
            out.append({"m": "end", "seq": seq, "i": i, "returned": False, "acc_ok": True, "read": "none",
                        "crash": e["crash"] or (-1 if not e["hang"] else 0), "hang": e["hang"]})
            continue
        head(ops[i], i, e)
        logs(e, i, False, ops[i].get("thr", 0))
        out.append({"m": "end", "seq": seq, "i": i, "returned": bool(e.get("returned", True)), "acc_ok": bool(e.get("acc_ok", True)),
                    "read": e.get("read", "none") if e.get("read", "none") in ("none", "data", "eintr") else "failed", "crash": 0, "hang": False})
    return out


def sig_canaries():
    """synthetic micro-event sequences, each breaking one clause; SignalTrace must flag every one"""
    view0 = {s: {"k": "dfl", "h": 0, "siginfo": False} for s in SIGNO}

    def view(**kw):
        v = json.loads(json.dumps(view0))
        for s, (k, h) in kw.items():
            v[s] = {"k": k, "h": h, "siginfo": k == "sigaction"}
        return v

    def inst(i, sig, k, h, v, rc=0):
        return [{"m": "install", "i": i, "t": 0, "sig": sig, "k": k, "h": h, "rc": rc, "view": v},
                {"m": "end", "i": i, "returned": True, "acc_ok": True, "read": "none", "crash": 0, "hang": False}]

    def enter(i, signo, k, h, t=0, isig=None, code=-6, pid="self"):
        return {"m": "enter", "i": i, "t": t, "signo": signo, "k": k, "h": h, "isig": signo if isig is None else isig,
                "code": code if k == "sigaction" else 0, "pid": pid if k == "sigaction" else "none"}

    def exit_(i, signo, k, h, t=0):
        return {"m": "exit", "i": i, "t": t, "signo": signo, "k": k, "h": h}

    def end(i, **kw):
        e = {"m": "end", "i": i, "returned": True, "acc_ok": True, "read": "none", "crash": 0, "hang": False}
        e.update(kw)
        return e

    def raise_(i, sig, t=0, how="tgkill"):
        return {"m": "raise", "i": i, "t": t, "sig": sig, "how": how}

    ok_inst = inst(0, "TERM", "sigaction", 1, view(TERM=("sigaction", 1)))
    return [
        (inst(0, "TERM", "handler", 1, view(TERM=("handler", 1)), rc=22), "InstallFailed"),
        (inst(0, "TERM", "handler", 1, view()), "DispositionNotInstalled"),
        (inst(0, "TERM", "handler", 1, view(TERM=("handler", 1), INT=("handler", 1))), "OtherDispositionChanged"),
        (inst(0, "TERM", "handler", 1, view(TERM=("handler", 1), USR1=("ign", 0))), "UnrelatedSignalChanged"),
        (ok_inst + [raise_(1, "TERM"), end(1)], "HandlerNotRun"),
        (ok_inst + [raise_(1, "TERM"), enter(1, 15, "sigaction", 2), exit_(1, 15, "sigaction", 2), end(1)], "WrongHandler"),
        (ok_inst + [raise_(1, "TERM"), enter(1, 2, "sigaction", 1), exit_(1, 2, "sigaction", 1), end(1)], "UnexpectedHandlerRun"),
        (ok_inst + [raise_(1, "TERM"), enter(1, 15, "sigaction", 1, isig=2), exit_(1, 15, "sigaction", 1), end(1)], "WrongSigInfo"),
        (ok_inst + [raise_(1, "TERM"), enter(1, 15, "sigaction", 1, pid="other"), exit_(1, 15, "sigaction", 1), end(1)], "WrongSigInfo"),
        (ok_inst + [raise_(1, "TERM"), enter(1, 15, "sigaction", 1, t=1), exit_(1, 15, "sigaction", 1, t=1), end(1)], "WrongThread"),
        (ok_inst + [raise_(1, "TERM"), enter(1, 15, "sigaction", 1), exit_(1, 15, "sigaction", 1), enter(1, 15, "sigaction", 1),
                    exit_(1, 15, "sigaction", 1), end(1)], "UnexpectedHandlerRun"),
        (ok_inst + [raise_(1, "TERM"), enter(1, 15, "sigaction", 1), end(1)], "HandlerDidNotReturn"),
        (ok_inst + [raise_(1, "TERM"), end(1, crash=11, returned=False)], "CrashOnDelivery"),
        (ok_inst + [raise_(1, "TERM"), enter(1, 15, "sigaction", 1), exit_(1, 15, "sigaction", 1), end(1, crash=11, returned=False)], "CrashOnHandlerReturn"),
        (ok_inst + [raise_(1, "TERM"), enter(1, 15, "sigaction", 1), exit_(1, 15, "sigaction", 1), end(1, acc_ok=False)], "InterruptedComputationCorrupted"),
        (inst(0, "TERM", "ign", 0, view(TERM=("ign", 0))) + [raise_(1, "TERM"), enter(1, 15, "handler", 1), exit_(1, 15, "handler", 1), end(1)],
         "HandlerRunUnderOtherDisposition"),
        ([{"m": "fork_raise", "i": 0, "sig": "TERM", "signaled": 0, "exited": 77}, raise_(0, "CHLD", how="child"), end(0)], "DefaultActionNotTaken"),
        ([{"m": "fork_raise", "i": 0, "sig": "TERM", "signaled": 9, "exited": -1}, raise_(0, "CHLD", how="child"), end(0)], "WrongWaitStatus"),
        (inst(0, "CHLD", "sigaction", 2, view(CHLD=("sigaction", 2))) +
         [{"m": "fork_raise", "i": 1, "sig": "TERM", "signaled": 15, "exited": -1}, raise_(1, "CHLD", how="child"), end(1)], "HandlerNotRun"),
    ]


def sig_part(chk, tier, bindirs):
    mc = sig_model_check(chk, tier)
    seqs = sig_generate(chk, tier)
    plan = [{"seq": n, "ops": ops} for n, ops in enumerate(seqs)]
    runs = []           # (profile, plan entry, events)
    by_seq = sig_execute(chk, bindirs["release"], plan, tier + "_release")
    for p in plan:
        runs.append(("release", p, by_seq.get(p["seq"], [])))
    # the unoptimised build: a sample (the restorer trampoline is compiled code, its shape depends on the profile)
    sample = plan[:: max(1, len(plan) // (12 if tier == "quick" else 40))]
    by_seq = sig_execute(chk, bindirs["debug"], sample, tier + "_debug")
    for p in sample:
        runs.append(("debug", p, by_seq.get(p["seq"], [])))
    trace, meta = [], {}
    for n, (profile, p, evs) in enumerate(runs):
        if not evs:
            raise core.ToolError("no events for sequence %d (%s)" % (p["seq"], profile))
        meta[n] = (profile, p, evs)
        trace += flatten(n, p["ops"], evs)
    CAN = 10 ** 6
    expected = {}
    for n, (c, why) in enumerate(sig_canaries()):
        cid = CAN + n + 1
        trace.append({"m": "reset", "seq": cid, "i": -1})
        trace += [dict(e, seq=cid) for e in c]
        expected[cid] = why
    path = os.path.join(chk.work, "signal_trace_%s.ndjson" % tier)
    core.write_ndjson(path, trace)
    res = core.run_tlc("SignalTrace.tla", "SignalTrace.cfg", workers=1, env={"TRACE": path}, timeout=3000, xmx="4g", deque=True)
    core.tlc_must_pass(res, "SignalTrace")
    chk.add_tlc(res)
    done = res.printed("DONE")
    if len(done) != 1 or done[0]["events"] != len(trace):
        raise core.ToolError("SignalTrace consumed %s of %d events: %s" % (done and done[0]["events"], len(trace), res.out[-1500:]))
    flagged = done[0]["bad"]
    caught = {}
    for b in flagged:
        if b["seq"] >= CAN:
            caught.setdefault(b["seq"], set()).update(b["reasons"])
    missed = [c for c, why in expected.items() if why not in caught.get(c, set())]
    if missed or not expected:
        raise core.ToolError("SignalTrace accepted %d of %d corrupted sequences (vacuous judge): %s" % (len(missed), len(expected), missed))
    chk.extra["signal_corrupted_sequences_rejected"] = len(expected)
    kinds, nontrivial, handler_runs = {}, 0, 0
    for n, (profile, p, evs) in meta.items():
        for e in evs:
            kinds[e["op"]] = kinds.get(e["op"], 0) + 1
            ent = sum(1 for r in e.get("log", []) if r["ev"] == "enter")
            handler_runs += ent
            if ent or "status" in e:
                nontrivial += 1
    # measured variety: which (signal, kind) pairs had a handler run / were discarded / terminated a copy, and how many handler
    # runs happened on a thread other than the one that installed the disposition (process-wide effect)
    pairs, cross = set(), 0
    for n, (profile, p, evs) in meta.items():
        cur = {}
        byi = {e["i"]: e for e in evs}
        for i_, o in enumerate(p["ops"]):
            e = byi.get(i_)
            if e is None or e["op"] == "died":
                break
            if o["op"] == "install":
                cur[o["sig"]] = (o["k"], o["thr"])
            elif o["op"] in ("raise", "raise_nested", "raise_async"):
                k, by = cur.get(o["sig"], ("dfl", 0))
                ran = [r for r in e.get("log", []) if r["ev"] == "enter" and r["signo"] == SIGNO[o["sig"]]]
                pairs.add((o["sig"], k, "run" if ran else "fork" if "status" in e else "quiet"))
                cross += sum(1 for r in ran if r["t"] != by)
    chk.extra["signal_pairs_exercised"] = sorted("%s/%s/%s" % x for x in pairs)
    chk.extra["signal_handler_runs_on_a_thread_other_than_the_installer"] = cross
    chk.traces += len(runs)
    chk.evaluations += sum(len(evs) for _, _, evs in runs)
    chk.nontrivial += nontrivial
    for b in flagged:
        if b["seq"] >= CAN:
            continue
        profile, p, evs = meta[b["seq"]]
        op = p["ops"][b["i"]] if 0 <= b["i"] < len(p["ops"]) else {"op": "?"}
        rec = [e for e in evs if e["i"] == b["i"]]
        for reason in b["reasons"]:
            sig = {"part": "signal", "op": op["op"], "reason": reason, "profile": profile}
            # the disposition kind the operation exercises (what the defect depends on)
            d = {}
            for o in p["ops"][:b["i"] + 1]:
                if o["op"] == "install":
                    d[o["sig"]] = o["k"]
            sig["kind"] = op.get("k") if op["op"] == "install" else d.get(op.get("sig"), "dfl")
            chk.violate(sig, "%s (%s build): %s at operation %d %s of sequence %d; recorded: %s" % (
                op["op"], profile, reason, b["i"], json.dumps(op), p["seq"], json.dumps(rec)[:500]),
                {"part": "signal", "profile": profile, "ops": p["ops"], "upto": b["i"], "recorded": evs[:b["i"] + 2]})
    for profile, p, evs in runs[:3]:
        chk.sample({"profile": profile, "ops": [o["op"] + ":" + o.get("sig", "") + ":" + o.get("k", "") for o in p["ops"]],
                    "handler_runs": sum(1 for e in evs for r in e.get("log", []) if r["ev"] == "enter")})
    chk.extra.update({"signal_sequences": len(plan), "signal_sequences_debug_build": len(sample), "signal_operations_by_kind": kinds,
                      "signal_handler_runs_observed": handler_runs, "signal_micro_events": len(trace), "signal_model_checking": mc,
                      "signal_crashes": sum(1 for _, _, evs in runs for e in evs if e["op"] == "died")})


# ------------------------------------------------------------------------------------ get_pass
BUFLEN = 8
TYPED_SHORT = b"pw1\n"


def gp_realise(scn):
    """scenario (path of GetPass.tla) -> (typed bytes or None, sysinj rules, description)"""
    typed = None
    rules = []
    nread = 0
    faulted = False
    for st in scn["path"]:
        step, out = st["step"], st["out"]
        if step == "get" and out == "fail":
            rules.append("win=getpass,nr=ioctl,k=1,ret=-25")
        elif step == "set" and out == "fail":
            rules.append("win=getpass,nr=ioctl,k=2,ret=-5")
        elif step == "restore" and out == "fail":
            rules.append("win=getpass,nr=ioctl,k=3,ret=-5")
        elif step == "read":
            nread = 1
            if out == "short":
                typed = TYPED_SHORT
            elif out == "exact":
                typed = b"abcdefg\n"
            elif out == "eof":
                typed = b"\x04"
            elif out == "badutf8":
                typed = b"\xff\xfe\n"
            elif out == "full":
                typed = b"abcdefgh"
            else:
                # the forced read does not wait for input: nothing is typed (typing after the function is done would be
                # echoed by the restored terminal, which is as it should be)
                typed = None
                faulted = True
                rules.append("win=getpass,nr=read,k=1,ret=%d" % {"zero": 0, "eio": -5, "eintr": -4}[out])
        elif step == "drain":
            nread += 1
            if out == "more":
                typed += b"ijklmnop"
            elif out == "short":
                typed += b"xy\n"
            elif out == "nl_last":
                typed += b"1234567\n"
            else:
                typed += b"zz\n"
                faulted = True
                rules.append("win=getpass,nr=read,k=%d,ret=%d" % (nread, 0 if out == "zero" else -5))
    return typed, rules, faulted


def gp_run_one(chk, binp, scn, n):
    """one scenario on a fresh pty pair; returns the event list for GetPassTrace"""
    import select
    import termios
    import time
    from checks import sysinj_common as SJ
    typed, rules, faulted = gp_realise(scn)
    m, s = os.openpty()
    try:
        a = termios.tcgetattr(s)
        lf = a[3] & ~(termios.ECHO | termios.ECHONL)
        if scn["orig"]["echo"]:
            lf |= termios.ECHO
        if scn["orig"]["echonl"]:
            lf |= termios.ECHONL
        a[3] = lf
        termios.tcsetattr(s, termios.TCSANOW, a)
        orig = termios.tcgetattr(m)
        log = os.path.join(chk.work, "gp_%d.ndjson" % n)
        if os.path.exists(log):
            os.unlink(log)
        cmd = [SJ.SYSINJ, "-o", log, "-t", "20", "-w"]
        for r in rules:
            cmd += ["-r", r]
        cmd += ["--", binp, "getpass", "0" if scn["empty"] else str(BUFLEN)]
        p = subprocess.Popen(cmd, stdin=s, stdout=subprocess.PIPE, stderr=subprocess.PIPE, bufsize=0)   # unbuffered: select() sees what readline() has not taken
        during = None
        # the child prints {"ready":true} right before it calls get_pass (robust under load: only the two ptraced ioctls
        # of the function lie between that line and the read)
        first = b""
        if select.select([p.stdout], [], [], 15.0)[0]:
            first = p.stdout.readline()
        if b"ready" not in first:
            p.kill()
            raise core.ToolError("getpass child did not start: %r %s" % (first, p.stderr.read()[-500:]))
        answered = False
        if typed is not None:
            # wait until the function has switched echo off (or has already answered)
            t0 = time.time()
            while time.time() - t0 < 1.0:
                lnow = termios.tcgetattr(m)[3]
                if not (lnow & termios.ECHO) and (lnow & termios.ECHONL):
                    during = lnow
                    break
                if select.select([p.stdout], [], [], 0.0005)[0]:
                    answered = True
                    break
            if not answered:
                if during is None:
                    during = termios.tcgetattr(m)[3]
                os.write(m, typed)
        line = b""
        if select.select([p.stdout], [], [], 5.0)[0]:
            line = p.stdout.readline()
        hang = not line
        if hang:
            p.kill()
        try:
            p.wait(timeout=10)
        except subprocess.TimeoutExpired:
            p.kill()
            p.wait()
        p.stdout.close()
        p.stderr.close()
        echoed = b""
        while select.select([m], [], [], 0.002)[0]:
            try:
                chunk = os.read(m, 4096)
            except OSError:
                break
            if not chunk:
                break
            echoed += chunk
        final = termios.tcgetattr(m)
    finally:
        os.close(m)
        os.close(s)
    from checks import sysinj_common as SJ2
    sysev = [e for e in SJ2.read_log(log) if e.get("ev") == "sys" and e.get("win") == 1 and e.get("src") == "exe"]
    ev = [{"e": "start", "seq": n, "orig": scn["orig"], "empty": scn["empty"]}, {"e": "begin"}]
    cur = 0
    first_read = True
    first_bytes = None
    tb = typed or b""
    for e in sysev:
        if e["name"] == "ioctl" and e["args"][0] == 0:
            req = e["args"][1]
            ev.append({"e": "ioctl", "req": "TCGETS" if req == 0x5401 else "TCSETS" if req in (0x5402, 0x5403, 0x5404) else "other", "ok": e["ret"] == 0})
        elif e["name"] == "read" and e["args"][0] == 0:
            if first_read and during is not None:
                ev.append({"e": "during", "echo": bool(during & termios.ECHO), "echonl": bool(during & termios.ECHONL)})
            ret = e["ret"]
            if ret < 0:
                cls = "err"
                got = b""
            else:
                got = tb[cur:cur + ret] if "inj" not in e else b""
                if "inj" not in e:
                    cur += ret
                cls = "full" if (ret == e["args"][2] and ret > 0 and not got.endswith(b"\n")) else "fits"
            if first_read:
                first_bytes = got
            first_read = False
            ev.append({"e": "read", "cls": cls})
        else:
            ev.append({"e": "ioctl", "req": "other", "ok": True})
    res = {}
    if line:
        try:
            res = json.loads(line)
        except ValueError:
            res = {}
    leak = any(b not in b"\r\n" for b in echoed)
    ev.append({"e": "echoed", "leak": bool(leak)})
    rk = "hang" if hang else res.get("res", "none")
    got = bytes(res.get("bytes", [])) if rk == "ok" else b""
    try:
        (first_bytes or b"").decode("utf-8")
        valid = True
    except UnicodeDecodeError:
        valid = False
    ev.append({"e": "ret", "res": rk, "bytes_ok": rk == "ok" and first_bytes is not None and got == first_bytes, "valid_utf8": valid,
               "left": len(res.get("left", [])), "faulted": faulted})
    same = final == orig
    ev.append({"e": "final", "same": bool(same), "echo": bool(final[3] & termios.ECHO), "echonl": bool(final[3] & termios.ECHONL)})
    info = {"scenario": scn, "typed": list(tb), "rules": rules, "result": res, "echoed": list(echoed),
            "lflag_orig": orig[3], "lflag_during": during, "lflag_final": final[3],
            "syscalls": [[e["name"], e["args"][1] if e["name"] == "ioctl" else e["args"][2], e["ret"], "inj" in e] for e in sysev]}
    return ev, info


def gp_canaries():
    st = {"e": "start", "orig": {"echo": True, "echonl": False}, "empty": False}
    g, s_, r_ = ({"e": "ioctl", "req": "TCGETS", "ok": True}, {"e": "ioctl", "req": "TCSETS", "ok": True}, {"e": "read", "cls": "fits"})
    dur = {"e": "during", "echo": False, "echonl": True}
    ech = {"e": "echoed", "leak": False}

    def ret(**kw):
        e = {"e": "ret", "res": "ok", "bytes_ok": True, "valid_utf8": True, "left": 0, "faulted": False}
        e.update(kw)
        return e

    def fin(same=True):
        return {"e": "final", "same": same, "echo": True, "echonl": False}
    b = {"e": "begin"}
    return [
        ([st, b, g, s_, dur, {"e": "read", "cls": "err"}, ech, ret(res="err"), fin(False)], "ReturnWithoutRestore"),
        ([st, b, g, s_, dur, {"e": "read", "cls": "err"}, ech, ret(res="err"), fin(False)], "NotRestored"),
        ([st, b, g, s_, dict(dur, echo=True), r_, s_, ech, ret(), fin()], "EchoOnWhileReading"),
        ([st, b, g, s_, dur, r_, s_, {"e": "echoed", "leak": True}, ret(), fin()], "PasswordEchoed"),
        ([st, b, g, r_, ech, ret(), fin()], "UnexpectedSyscall"),
        ([st, b, g, s_, dur, {"e": "read", "cls": "full"}, r_, s_, ech, ret(), fin()], "OkWithoutLine"),
        ([st, b, g, s_, dur, {"e": "read", "cls": "full"}, s_, ech, ret(res="err", left=5), fin()], "UnexpectedSyscall"),
        ([st, b, g, s_, dur, {"e": "read", "cls": "full"}, r_, s_, ech, ret(res="err", left=5), fin()], "NotDrained"),
        ([st, b, g, s_, dur, r_, s_, ech, ret(bytes_ok=False), fin()], "WrongBytes"),
        ([st, b, g, s_, dur, r_, s_, ech, ret(res="err"), fin()], "ErrForGoodLine"),
        ([st, b, g, s_, dur, r_, s_, ech, ret(valid_utf8=False), fin()], "OkForInvalidUtf8"),
        ([st, b, g, s_, dur, r_, s_, ech, ret(), fin(False)], "NotRestored"),
        ([st, b, ech, ret(res="ok"), fin()], "ReturnedEarly"),
        ([st, b, g, s_, dur, r_, s_, ech, ret(res="panic"), fin()], "Panicked"),
    ]


def gp_part(chk, tier, bindir):
    from checks import sysinj_common as SJ
    SJ.build_tracer()
    out = {}
    res = core.run_tlc("GetPass.tla", "GetPass_MC.cfg", workers=1, timeout=300, xmx="1g")
    core.tlc_must_pass(res, "GetPass_MC")
    chk.add_tlc(res)
    out["GetPass_MC"] = res.distinct
    for p in ("ProbeSmall", "ProbeRestoreFailed"):
        res = core.run_tlc("GetPass.tla", "GetPass_MC_%s.cfg" % p, workers=1, timeout=300, xmx="1g")
        if p not in res.invariant_violated:
            raise core.ToolError("GetPass probe %s not reachable" % p)
    cfg = os.path.join(chk.work, "GetPassGen_%s.cfg" % tier)
    with open(cfg, "w") as f:
        f.write("CONSTANTS\n  MaxDrain = %d\nINIT GInit\nNEXT GNext\nINVARIANT Emit\nCHECK_DEADLOCK FALSE\n" % (1 if tier == "quick" else 2))
    res = core.run_tlc("GetPassGen.tla", cfg, workers=1, timeout=300, xmx="1g")
    core.tlc_must_pass(res, "GetPassGen")
    chk.add_tlc(res)
    scns = res.printed("SCN")
    if len(scns) < 40 or len({json.dumps(x, sort_keys=True) for x in scns}) != len(scns):
        raise core.ToolError("GetPassGen produced %d scenarios" % len(scns))
    binp = os.path.join(bindir, "sigops")
    trace, infos = [], {}
    for n, scn in enumerate(scns):
        ev, info = gp_run_one(chk, binp, scn, n)
        infos[n] = info
        trace += ev
    CAN = 10 ** 6
    expected = {}
    for n, (c, why) in enumerate(gp_canaries()):
        cid = CAN + n + 1
        trace += [dict(e, seq=cid) if e["e"] == "start" else e for e in c]
        expected[cid] = why
    path = os.path.join(chk.work, "getpass_trace_%s.ndjson" % tier)
    core.write_ndjson(path, trace)
    res = core.run_tlc("GetPassTrace.tla", "GetPassTrace.cfg", workers=1, env={"TRACE": path}, timeout=900, xmx="2g", deque=True)
    core.tlc_must_pass(res, "GetPassTrace")
    chk.add_tlc(res)
    done = res.printed("DONE")
    if len(done) != 1 or done[0]["events"] != len(trace):
        raise core.ToolError("GetPassTrace consumed %s of %d events: %s" % (done and done[0]["events"], len(trace), res.out[-1500:]))
    caught = {}
    for b in done[0]["bad"]:
        if b["seq"] >= CAN:
            caught.setdefault(b["seq"], set()).update(b["reasons"])
    missed = [(c, why) for c, why in expected.items() if why not in caught.get(c, set())]
    if missed:
        raise core.ToolError("GetPassTrace accepted corrupted sequences (vacuous judge): %s" % missed)
    chk.extra["getpass_corrupted_sequences_rejected"] = len(expected)
    for b in done[0]["bad"]:
        if b["seq"] >= CAN:
            continue
        info = infos[b["seq"]]
        path_ = info["scenario"]["path"]
        last = path_[-1] if path_ else {"step": "none", "out": "none"}
        # the step whose outcome leads to the rejected exit path
        odd = [st for st in path_ if st["out"] in ("fail", "eio", "eintr")]
        where = odd[0] if odd else last
        for reason in b["reasons"]:
            sig = {"part": "getpass", "reason": reason, "step": where["step"], "outcome": where["out"]}
            chk.violate(sig, "get_pass: %s (at the recorded '%s' event, required state %s); scenario %s typed %s rules %s; syscalls %s; lflag orig=%x during=%s final=%x; result %s" % (
                reason, b["e"], b["pc"], json.dumps(path_), bytes(info["typed"]), info["rules"], info["syscalls"], info["lflag_orig"],
                "%x" % info["lflag_during"] if info["lflag_during"] is not None else "-", info["lflag_final"], json.dumps(info["result"])[:200]),
                {"part": "getpass", "scenario": info["scenario"], "typed": info["typed"], "rules": info["rules"]})
    chk.traces += len(scns)
    chk.evaluations += len(scns)
    chk.nontrivial += sum(1 for sc in scns if sc["path"] and any(st["step"] == "read" for st in sc["path"]))
    chk.sample({"getpass_scenario": scns[len(scns) // 2]["path"], "recorded": infos[len(scns) // 2]["syscalls"],
                "lflags": [infos[len(scns) // 2]["lflag_orig"], infos[len(scns) // 2]["lflag_during"], infos[len(scns) // 2]["lflag_final"]]})
    chk.extra.update({"getpass_scenarios": len(scns), "getpass_model_checking": out,
                      "getpass_scenarios_with_fault": sum(1 for i_ in infos.values() if i_["rules"])})


# ------------------------------------------------------------------------------------ errno
def errno_reference():
    """number -> set of names, from the kernel's uapi headers (aliases included)"""
    ref, alias = {}, {}
    for h in ("/usr/include/asm-generic/errno-base.h", "/usr/include/asm-generic/errno.h"):
        for line in open(h):
            m = re.match(r"#define\s+(E[A-Z0-9]+)\s+(\S+)", line)
            if not m:
                continue
            if m.group(2).isdigit():
                ref.setdefault(int(m.group(2)), set()).add(m.group(1))
                alias[m.group(1)] = int(m.group(2))
            elif m.group(2) in alias:
                ref[alias[m.group(2)]].add(m.group(1))
    if len(ref) < 130:
        raise core.ToolError("errno reference table has only %d entries" % len(ref))
    return ref


def errno_part(chk, tier, bindir):
    p = core.run_cmd([os.path.join(bindir, "sigops"), "errno"], timeout=60)
    ref = errno_reference()
    rows = []
    for line in p.stdout.splitlines():
        r = json.loads(line)
        m = re.match(r"^(E[A-Z0-9]+): ", r["as_str"])
        rows.append({"code": r["code"], "raw": r["raw"], "panic": r["panic"], "eq_self": r["eq_self"], "recognised": bool(m),
                     "name": m.group(1) if m else "", "refs": sorted(ref.get(r["code"], [])),
                     "display_ok": r["display"] == "[%d]: %s" % (r["code"], r["as_str"])})
    if len(rows) < 200:
        raise core.ToolError("errno table has only %d rows" % len(rows))
    # anti-vacuity: corrupted rows that must be listed
    CAN = 5000
    base = {"panic": False, "eq_self": True, "recognised": True, "display_ok": True}
    can = [dict(base, code=CAN + 1, raw=7, name="ECANA", refs=["ECANA"]),
           dict(base, code=CAN + 2, raw=CAN + 2, name="ECANB", refs=["ECANB"], panic=True),
           dict(base, code=CAN + 3, raw=CAN + 3, name="ECANC", refs=["ENOENT"]),
           dict(base, code=CAN + 4, raw=CAN + 4, name="ECAND", refs=["ECAND"], display_ok=False),
           dict(base, code=CAN + 5, raw=CAN + 5, name="ECANE", refs=["ECANE"]),
           dict(base, code=CAN + 6, raw=CAN + 6, name="ECANE", refs=["ECANE"])]
    path = os.path.join(chk.work, "errno_rows.ndjson")
    core.write_ndjson(path, rows + can)
    res = core.run_tlc("ErrnoTable.tla", "ErrnoTable.cfg", workers=1, env={"TRACE": path}, timeout=300, xmx="1g")
    core.tlc_must_pass(res, "ErrnoTable")
    out = res.printed("ERRNO")
    if len(out) != 1 or out[0]["rows"] != len(rows) + len(can):
        raise core.ToolError("ErrnoTable judged %s rows of %d" % (out and out[0]["rows"], len(rows) + len(can)))
    bad = out[0]["bad"]
    bad = list(bad.values()) if isinstance(bad, dict) else bad
    if {b["code"] for b in bad if b["code"] > CAN} != {CAN + 1, CAN + 2, CAN + 3, CAN + 4, CAN + 5, CAN + 6}:
        raise core.ToolError("ErrnoTable accepted corrupted rows (vacuous judge): %s" % bad)
    for b in bad:
        if b["code"] > CAN:
            continue
        row = [r for r in rows if r["code"] == b["code"]][0]
        for reason in b["reasons"]:
            chk.violate({"part": "errno", "reason": reason, "code": b["code"]},
                        "Errno::new(%d): %s - as_str names %r, the kernel's names for %d are %s" % (b["code"], reason, row["name"], b["code"], row["refs"]),
                        {"part": "errno", "code": b["code"]})
    rec = sum(1 for r in rows if r["recognised"])
    chk.evaluations += len(rows)
    chk.nontrivial += rec
    missing = sorted(c for c in ref if not any(r["code"] == c and r["recognised"] for r in rows))
    chk.extra.update({"errno_rows": len(rows), "errno_codes_with_a_name": rec, "errno_kernel_codes_without_a_name": missing})


def run(tier):
    chk = core.Check("X03", tier, "model_checking")
    bindirs = {"debug": core.cargo_build(bins=["sigops"]), "release": core.cargo_build(bins=["sigops"], release=True)}
    sig_part(chk, tier, bindirs)
    gp_part(chk, tier, bindirs["release"])
    errno_part(chk, tier, bindirs["release"])
    chk.rule = ("signals: TLC simulates SignalGen over the five signals and six dispositions of the API; every distinct walk is one operation "
                "sequence executed in a forked child through add_signal_action with raw tgkill/kill raises (optimised build; a sample also in the "
                "unoptimised build); every recorded micro event (install, raise, handler entered, handler returned, operation over, wait status of a "
                "forked copy) is one step of Signal.tla replayed by TLC (SignalTrace). get_pass: every complete behaviour of GetPass.tla (fault at "
                "each system call, line shapes, 4 initial flag combinations) is one scenario run on a real pty pair under the ptrace injector; the "
                "recorded system calls, the flags sampled from the master side, the echoed bytes and the result are replayed by TLC (GetPassTrace). "
                "errno: one row per code judged by ErrnoTable. evaluations = signal operations + get_pass scenarios + errno rows; non-trivial = "
                "operations in which a handler ran or a default action terminated a forked copy + scenarios that reach the read + codes with a name")
    chk.assumptions = [
        "x86_64 only; SIGKILL/SIGSTOP cannot be named through CatchSignal (compile-time), so a failing install has no reachable case",
        "the API documents neither the signal mask during a handler nor SA_RESTART: both nesting orders and both outcomes (restart, EINTR) of an interrupted read are admitted",
        "the kernel's view of the dispositions is read with libc's sigaction, signals are raised with raw tgkill/kill; the helper thread blocks every signal except while it raises one at itself",
        "signals not covered: real-time signals, sigaltstack, SA_RESETHAND/SA_NODEFER (not reachable through the API), faults that re-execute an instruction (SEGV is only raised with tgkill)",
        "get_pass: the terminal is a pty pair in canonical mode, 8-byte buffer; faults are forced results of the function's own ioctl/read calls (ptrace); "
        "a failed restoring tcsetattr excuses a terminal that is not restored; Ok/Err is judged, the error text is not",
        "get_pass: 'echo off while reading' is observed from the master side (flags sampled once the function has switched them, bytes echoed back to the master)",
        "errno: names are compared with the kernel's uapi headers (aliases admitted); a kernel code without a name in the table is reported, not a violation",
    ]
    return chk.finish()


def replay(path):
    rp = json.load(open(path))["replay"]
    chk = core.Check("X03", "quick", "model_checking")
    bindir = core.cargo_build(bins=["sigops"], release=rp.get("profile", "release") == "release")
    if rp.get("part") == "signal":
        by_seq = sig_execute(chk, bindir, [{"seq": 0, "ops": rp["ops"][:rp["upto"] + 1]}], "replay")
        for e in by_seq.get(0, []):
            print("  ", json.dumps(e)[:400])
    elif rp.get("part") == "getpass":
        from checks import sysinj_common as SJ
        SJ.build_tracer()
        ev, info = gp_run_one(chk, os.path.join(bindir, "sigops"), rp["scenario"], 0)
        for e in ev:
            print("  ", json.dumps(e))
        print("  ", json.dumps({k: info[k] for k in ("rules", "syscalls", "lflag_orig", "lflag_during", "lflag_final", "result")}))
    elif rp.get("part") == "errno":
        p = core.run_cmd([os.path.join(bindir, "sigops"), "errno"], timeout=60)
        for line in p.stdout.splitlines():
            if json.loads(line)["code"] == rp["code"]:
                print("  ", line)
    return 0


def selftest():
    from checks import sysinj_common as SJ
    return SJ.selftest_seeded("X03")
