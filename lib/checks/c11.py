"""C11 - UnixStr search and path operations agree with their byte-string definitions."""
import random

from vlib import core
from checks import ustr_common as U

ALPHA = [97, 98, 47, 46]  # a b / .


def run(tier):
    chk = core.Check("C11", tier, "exploration")
    maxlen = 3 if tier == "quick" else 4
    bindir = core.cargo_build(bins=["ustr"])
    vecs = U.gen_vectors(chk, "pair", ALPHA, maxlen)
    results, crashes = U.run_driver(chk, bindir, "pair", vecs, "c11")
    nontrivial = set()
    for i, v in enumerate(vecs):
        r = results.get(i)
        for op in U.PAIR_OPS_RUN:
            allowed = v[U.ALIAS.get(op, op)]
            if r is None or op not in r:
                continue
            chk.evaluations += 1
            act = r[op]
            if U.ALIAS.get(op, op) in U.STRING_OPS:
                ok = U.view(act) in [U.view(x) for x in allowed]
            else:
                ok = act in allowed
            if v["b"] and (op not in ("find", "find_buf") or allowed != [[0]]):
                nontrivial.add((op, tuple(v.get("a", [])), tuple(v["b"])))
            if not ok:
                chk.violate({"op": op, "kind": "panic" if act == [3] else "mismatch",
                             "shape": "%s->%s" % (U.shape(allowed[0]), U.shape(act))},
                            "%s(a=%s, b=%s) returned %s, definition admits %s" % (
                                op, bytes(v.get("a", [])), bytes(v["b"]), act, allowed),
                            {"mode": "pair", "op": op, "a": v.get("a", []), "b": v["b"], "actual": act, "allowed": allowed})
        if i % 997 == 0 and r:
            chk.sample({"a": bytes(v["a"]).decode(), "b": bytes(v["b"]).decode(),
                        "find": r.get("find"), "path_join": r.get("path_join"), "parent_path": r.get("parent_path")})
    for c in crashes:
        v = vecs[c["crash"]]
        chk.violate({"op": c["op"], "kind": "crash", "shape": U.crash_shape(c)[0]},
                    "%s(a=%s, b=%s) %s" % (c["op"], bytes(v["a"]), bytes(v["b"]), U.crash_shape(c)[1]),
                    {"mode": "pair", "op": c["op"], "a": v["a"], "b": v["b"], "actual": "SIGSEGV"})
    # random long operands, judged by TLC
    rng = random.Random(chk.seed)
    n_rand = 300 if tier == "quick" else 3000
    L = 48 if tier == "quick" else 300
    rv = U.random_pairs(rng, ALPHA, n_rand, L) + U.random_paths(rng, n_rand // 2, L)
    results, crashes2 = U.run_driver(chk, bindir, "pair", rv, "c11rand")
    recs = []
    for i, v in enumerate(rv):
        r = results.get(i)
        if not r:
            continue
        for op in U.PAIR_OPS_RUN:
            if op in r:
                recs.append(U.rec(op, v["a"], v["b"], r[op], "content"))
    # find_buf with byte needles that contain NUL (a &[u8] may): every (a, b) with a over {a,b},
    # b over {a,b,NUL}, both up to length 3, plus planted long ones
    fb = []
    import itertools
    for la in range(0, 4):
        for a in itertools.product([97, 98], repeat=la):
            for lb in range(0, 4):
                for b in itertools.product([97, 98, 0], repeat=lb):
                    if 0 in b:
                        fb.append({"a": list(a), "b": list(b)})
    for _ in range(n_rand // 3):
        a = [rng.choice([97, 98]) for _ in range(rng.randint(0, L))]
        k = rng.randint(1, 4)
        b = (a[-k:] if a else []) + [0] + [rng.choice([97, 98, 0]) for _ in range(rng.randint(0, 3))]
        fb.append({"a": a, "b": b})
    fres, fcr = U.run_driver(chk, bindir, "findbuf", fb, "c11fb")
    for i, v in enumerate(fb):
        r = fres.get(i)
        if r and "find_buf" in r:
            recs.append({"op": "find_buf", "a": v["a"], "b": v["b"], "out": r["find_buf"], "view": "content"})
    for c in fcr:
        v = fb[c["crash"]]
        chk.violate({"op": "find_buf", "kind": "crash", "shape": U.crash_shape(c)[0]},
                    "find_buf(a=%s, needle=%s) %s" % (bytes(v["a"]), bytes(v["b"]), U.crash_shape(c)[1]),
                    {"mode": "findbuf", "op": "find_buf", "a": v["a"], "b": v["b"]})
    # aliased operands: find(x, tail of x's own memory) for every tail start (round 10: a
    # shortcut for "the needle is a tail of the haystack" answered the tail's offset, which need
    # not be the first occurrence)
    al = [{"a": [], "b": list(b"a/b/a/b")}, {"a": [], "b": list(b"ab/ab/ab")}, {"a": [], "b": list(b"aaaa")}]
    al += [{"a": [], "b": v["b"]} for v in rv if 2 <= len(v["b"]) <= 24][:120]
    ares, acr = U.run_driver(chk, bindir, "pair", al, "c11alias")
    for i, v in enumerate(al):
        r = ares.get(i)
        if r and "find_tails" in r:
            for k, out in enumerate(r["find_tails"]):
                x = U.rec("find", v["b"], v["b"][k:], out, "content")
                x["via"] = "find(x, tail of x)"
                recs.append(x)
    for c in acr:
        v = al[c["crash"]]
        chk.violate({"op": c["op"], "kind": "crash", "shape": U.crash_shape(c)[0]},
                    "%s %s (aliased operands)" % (c["op"], U.crash_shape(c)[1]), {"mode": "pair", "op": c["op"], "a": v["a"], "b": v["b"]})
    # Thue-Morse words and their complements: absent needles that collide under every
    # polynomial hash modulo a power of two (a rolling-hash search must verify its candidates)
    def tm(n, flip=False):
        return [(97 if (bin(k).count("1") % 2 == 0) != flip else 98) for k in range(n)]
    th = []
    for n in ([32, 64, 128, 256, 512, 1024] if tier == "quick" else [32, 64, 128, 256, 512, 1024, 2048, 4096]):
        th.append({"a": [98] + tm(n, True) + [97], "b": tm(n)})                  # absent, collides
        th.append({"a": [98] + tm(n, True) + [97] + tm(n) + [98], "b": tm(n)})   # occurs later
        th.append({"a": tm(n) + tm(n, True), "b": tm(n, True)})
    tres, tcr = U.run_driver(chk, bindir, "pair", th, "c11tm")
    for i, v in enumerate(th):
        r = tres.get(i)
        if not r:
            continue
        for op in ("find", "find_buf"):
            if op in r:
                recs.append(U.rec(op, v["a"], v["b"], r[op], "content"))
    for c in tcr:
        v = th[c["crash"]]
        chk.violate({"op": c["op"], "kind": "crash", "shape": U.crash_shape(c)[0]},
                    "%s %s (Thue-Morse operands)" % (c["op"], U.crash_shape(c)[1]), {"mode": "pair", "op": c["op"], "a": v["a"], "b": v["b"]})
    # needles of every length around table / buffer sizes an implementation might use, planted
    # in a haystack one byte longer at each end: once occurring, once with the last byte changed
    # (round 9: a skip table was wrong for needles of exactly 256 bytes; an unsuccessful search
    # then never returned)
    if tier == "quick":
        nlens = list(range(1, 71)) + list(range(120, 137)) + list(range(250, 263)) + list(range(506, 519)) + list(range(1020, 1031))
    else:
        nlens = list(range(1, 1101))
    lf = []
    for n in nlens:
        nd = [rng.choice([97, 98]) for _ in range(n)]
        lf.append({"a": [98] + nd + [97], "b": nd})
        miss = nd[:-1] + [47]
        lf.append({"a": [98] + miss + [97] + nd[:-1], "b": nd})
        lf.append({"a": nd[:-1], "b": nd})
    lres, lcr = U.run_driver(chk, bindir, "pair", lf, "c11len")
    for i, v in enumerate(lf):
        r = lres.get(i)
        if not r:
            continue
        for op in ("find", "find_buf", "ends_with", "match_up_to", "match_up_to_str"):
            if op in r:
                recs.append(U.rec(op, v["a"], v["b"], r[op], "content"))
    for c in lcr:
        v = lf[c["crash"]]
        chk.violate({"op": c["op"], "kind": "crash", "shape": U.crash_shape(c)[0]},
                    "%s %s (needle of %d bytes)" % (c["op"], U.crash_shape(c)[1], len(v["b"])), {"mode": "pair", "op": c["op"], "a": v["a"], "b": v["b"]})
    # match_up_to_str with texts that contain NUL (a &str may): self over {a,b}, text over
    # {a,b,NUL}, both up to length 3, plus longer ones with a NUL exactly where self ends
    ms = []
    for la in range(0, 4):
        for a in itertools.product([97, 98], repeat=la):
            for lb in range(0, 4):
                for b in itertools.product([97, 98, 0], repeat=lb):
                    if 0 in b:
                        ms.append({"a": list(a), "b": list(b)})
    for _ in range(n_rand // 3):
        a = [rng.choice([97, 98]) for _ in range(rng.randint(0, L))]
        k = rng.randint(0, len(a))
        b = a[:k] + ([0] if rng.random() < 0.8 else []) + [rng.choice([97, 98, 0]) for _ in range(rng.randint(0, 6))]
        ms.append({"a": a, "b": b})
    mres, mcr = U.run_driver(chk, bindir, "mstr", ms, "c11ms")
    for i, v in enumerate(ms):
        r = mres.get(i)
        if r and "match_up_to_str" in r:
            recs.append(U.rec("match_up_to_str", v["a"], v["b"], r["match_up_to_str"], "content"))
    for c in mcr:
        v = ms[c["crash"]]
        chk.violate({"op": "match_up_to_str", "kind": "crash", "shape": U.crash_shape(c)[0]},
                    "match_up_to_str(a=%s, text=%s) %s" % (bytes(v["a"]), bytes(v["b"]), U.crash_shape(c)[1]),
                    {"mode": "mstr", "op": "match_up_to_str", "a": v["a"], "b": v["b"]})
    # multi-byte UTF-8 operands (tokens a / é 日 😀 and the lone Latin-1 / lead bytes on the left side)
    toks_b = [[97], [47], [195, 169], [230, 151, 165], [240, 159, 152, 128], [46]]
    toks_a = toks_b + [[233], [195], [230, 151]]
    ub = []
    for _ in range(n_rand):
        # the second operand is the path of parent_path / path_file_name: in half of the cases it
        # carries bytes that are not UTF-8 (a path is a byte string; round 8: a file name taken
        # through as_str() answered None for them)
        bb = sum((rng.choice(toks_a if rng.random() < 0.5 else toks_b) for _ in range(rng.randint(0, 5))), [])
        m = rng.randint(0, 3)
        if m == 0:
            aa = sum((rng.choice(toks_a) for _ in range(rng.randint(0, 6))), [])
        elif m == 1:
            aa = bb + sum((rng.choice(toks_a) for _ in range(rng.randint(0, 3))), [])
        elif m == 2:
            aa = bb[:rng.randint(0, len(bb))] + sum((rng.choice(toks_a) for _ in range(rng.randint(0, 3))), [])
        else:
            aa = sum((rng.choice(toks_a) for _ in range(rng.randint(0, 3))), []) + bb
        ub.append({"a": aa, "b": bb})
    # path-shaped second operands with non-UTF-8 components
    for _ in range(n_rand // 2):
        comps = [sum((rng.choice([[97], [233], [255], [195, 169], [128], [46]]) for _ in range(rng.randint(1, 4))), [])
                 for _ in range(rng.randint(1, 4))]
        bb = ([47] if rng.random() < 0.5 else []) + sum(([47] + c for c in comps), [])[1:] + ([47] if rng.random() < 0.3 else [])
        ub.append({"a": sum((rng.choice(toks_a) for _ in range(rng.randint(0, 3))), []), "b": bb})
    # every total length around the small-buffer sizes an implementation might use (0..600):
    # base of length n with a one-byte text, and a one-byte base with a text of length n
    sweep = range(0, 601) if tier != "quick" else list(range(0, 140)) + list(range(250, 262)) + list(range(506, 520))
    for n in sweep:
        ub.append({"a": [97 + (k % 3) for k in range(n)], "b": [120]})
        ub.append({"a": [120], "b": [97 + (k % 3) for k in range(n)]})
    ures, ucr = U.run_driver(chk, bindir, "pair", ub, "c11utf8")
    for i, v in enumerate(ub):
        r = ures.get(i)
        if not r:
            continue
        for op in U.PAIR_OPS_RUN:
            if op in r:
                recs.append(U.rec(op, v["a"], v["b"], r[op], "content"))
    for c in ucr:
        v = ub[c["crash"]]
        chk.violate({"op": c["op"], "kind": "crash", "shape": U.crash_shape(c)[0]},
                    "%s %s (multi-byte operands)" % (c["op"], U.crash_shape(c)[1]), {"mode": "pair", "op": c["op"], "a": v["a"], "b": v["b"]})
    bad = U.judge_with_tlc(chk, recs, "c11")
    chk.evaluations += len(recs)
    for k in bad:
        r = recs[k]
        chk.violate({"op": r.get("via", r["op"]), "kind": "panic" if r["out"] == [3] else "mismatch", "shape": "long->%s" % U.shape(r["out"])},
                    "%s on long operands (|a|=%d,|b|=%d) returned %s, rejected by UnixStrJudge" % (r.get("via", r["op"]), len(r["a"]), len(r["b"]), r["out"]),
                    {"mode": "judge", "record": r})
    for c in crashes2:
        v = rv[c["crash"]]
        chk.violate({"op": c["op"], "kind": "crash", "shape": U.crash_shape(c)[0]},
                    "%s %s (long operands)" % (c["op"], U.crash_shape(c)[1]), {"mode": "pair", "op": c["op"], "a": v["a"], "b": v["b"]})
    for r in recs:
        nontrivial.add((r["op"], tuple(r["a"]), tuple(r["b"])))
    chk.nontrivial = len(nontrivial)
    chk.exhaustive = True
    chk.rule = ("TLC (UnixStrGen.tla) enumerates every pair of strings of length <= %d over {a,b,/,.} (%d pairs) and "
                "prints the admissible results of 9 operations; each is run on the real code with operands placed "
                "against a PROT_NONE page; plus %d random long operand pairs (len <= %d) judged by TLC (UnixStrJudge.tla). "
                "non-trivial = distinct (op, a, b) with a non-empty second operand, and for find/find_buf a needle that occurs"
                % (maxlen, len(vecs), len(rv), L))
    chk.assumptions = ["string results are compared as the API shows them (stored bytes minus the last one); termination is C10's subject",
                       "where the API text leaves an answer open (trailing separator, no separator) every documented reading is admitted"]
    chk.extra["tlc_generated_vectors"] = len(vecs)
    chk.extra["tlc_judged_records"] = len(recs)
    return chk.finish()


def replay(path):
    import json, os
    rp = json.load(open(path))["replay"]
    chk = core.Check("C11", "quick", "exploration")
    bindir = core.cargo_build(bins=["ustr"])
    res, crashes = U.run_driver(chk, bindir, "pair", [{"a": rp.get("a", rp.get("record", {}).get("a", [])), "b": rp.get("b", rp.get("record", {}).get("b", []))}], "replay")
    print("replayed:", res, crashes)
    return 0
