"""C02 - RwLock: writer exclusion, reader sharing, visibility, no lost wake-up, try variants.

Same machinery as C01 (lib/checks/sync_common.py): specs/RwLock.tla (algorithm level, exhaustive
TLC) bound to tiny_std::sync::RwLock by B1 (transition tour of the dumped state graphs replayed
step by step under the controlled scheduler) and B2 (every recorded execution judged by TLC at
property level, specs/SyncTrace.tla).
"""
from vlib import core
from checks import sync_common as S

RAU, WAU, TRAU, TWAU = ["R", "A", "U"], ["W", "A", "U"], ["TR", "A", "U"], ["TW", "A", "U"]
PROGS = {
    "A_WR": [WAU, RAU], "A_WW": [WAU, WAU], "A_WTR": [WAU, TRAU], "A_RTW": [RAU, TWAU], "A_TT": [TWAU, TRAU],
    "B_1": [WAU + RAU, RAU + WAU], "B_2": [WAU + TRAU, TWAU + RAU],
    "C_WWR": [WAU, WAU, RAU], "C_WRR": [WAU, RAU, RAU], "C_WWW": [WAU, WAU, WAU], "C_WRT": [WAU, RAU, TWAU],
    "E_1": [WAU + RAU, RAU + WAU, TWAU + TRAU], "F_WWRR": [WAU, WAU, RAU, RAU],
    "G_RWRT": [RAU, WAU, RAU, TWAU], "G_WWRT": [WAU, WAU, RAU, TRAU],
}
AR, RR, RELR = ("Acquire", "Relaxed"), ("Relaxed", "Relaxed"), ("Release", "Relaxed")
DEFAULT_ORD = {
    "ReadLoad": RR, "ReadCasWeak": AR, "SpinLoad": RR, "RcCasWeak": AR, "RcSetRw": RR, "WaitFastLoad": RR,
    "ReadUnlockFetchSub": RELR, "WriteCasWeak": AR, "WcCasWeak": AR, "WcSetWw": RR, "WcLoadSeq": AR, "WcReloadState": RR,
    "WriteUnlockFetchSub": RELR, "KCasWritersOnly": RR, "KCasBoth": RR, "KCasReadersOnly": RR, "KwFetchAdd": RELR,
    "TryReadLoad": RR, "TryReadCasWeak": AR, "TryWriteLoad": RR, "TryWriteCasWeak": AR,
}
INVARIANTS = "TypeOK WriterExclusive RaceFree TryNeverBlocks NoLostWakeup AssertsHold WordAgrees Progress"
RW, WW, WL = 8, 16, 7
SITE = {"RcSpinLoad": "SpinLoad", "WcSpinLoad": "SpinLoad", "RcWaitFastLoad": "WaitFastLoad", "WcWaitFastLoad": "WaitFastLoad"}


def or_rw(s):
    return s if (s // 8) % 2 else s + RW


def or_ww(s):
    return s if (s // 16) % 2 else s + WW


class RwBinding(S.Binding):
    kind = "rwlock"

    def step(self, g, edge):
        name, a = S.split_label(edge[2])
        t = a[0]
        if name.endswith("Spur"):
            return [t, "f"]
        if name == "KwWakeOne":
            return [t, "w", [a[1]]]
        if name == "KwWakeNone":
            return [t, "w", []]
        if name == "KWakeAllReaders":
            return [t, "w", sorted(g.state(edge[0])["qs"])]
        if name == "SpuriousWake":
            return [t, "s"]
        if name == "Eintr":
            return [t, "i"]
        return [t]

    def expect(self, g, edge):
        src, dst, lbl = edge
        name, a = S.split_label(lbl)
        t = a[0]
        s = g.state(src)
        word, notify = s["state"], s["notify"]
        st, seq, wst, oww = s["st"][t - 1], s["seq"][t - 1], s["wst"][t - 1], s["oww"][t - 1]
        spur = name.endswith("Spur")
        base = name[:-4] if spur else name
        site = SITE.get(base, base)

        def cas(exp, new, weak):
            return {"ev": "cas", "t": t, "loc": "state", "weak": weak, "exp": exp, "new": new, "old": word,
                    "ok": word == exp and not spur, "sp": spur, "_site": site}
        if base in ("ReadLoad", "RcSpinLoad", "WcSpinLoad", "WcReloadState", "TryReadLoad", "TryWriteLoad", "RcWaitFastLoad"):
            return {"ev": "load", "t": t, "loc": "state", "val": word, "_site": site}
        if base in ("WcLoadSeq", "WcWaitFastLoad"):
            return {"ev": "load", "t": t, "loc": "notify", "val": notify, "_site": site}
        if base in ("ReadCasWeak", "RcCasWeak", "TryReadCasWeak"):
            return cas(st, st + 1, True)
        if base == "RcSetRw":
            return cas(st, st + RW, False)
        if base == "WriteCasWeak":
            return cas(0, WL, True)
        if base == "WcCasWeak":
            return cas(st, or_ww(st + WL) if oww == WW else st + WL, True)
        if base == "WcSetWw":
            return cas(st, st + WW, False)
        if base == "TryWriteCasWeak":
            return cas(st, st + WL, True)
        if base == "KCasWritersOnly":
            return cas(wst, 0, False)
        if base == "KCasBoth":
            return cas(wst, RW, False)
        if base == "KCasReadersOnly":
            return cas(wst, 0, False)
        if base == "ReadUnlockFetchSub":
            return {"ev": "fsub", "t": t, "loc": "state", "arg": 1, "old": word, "_site": site}
        if base == "WriteUnlockFetchSub":
            return {"ev": "fsub", "t": t, "loc": "state", "arg": WL, "old": word, "_site": site}
        if base == "KwFetchAdd":
            return {"ev": "fadd", "t": t, "loc": "notify", "arg": 1, "old": notify, "_site": site}
        if base == "KwWakeOne":
            return {"ev": "wake", "t": t, "loc": "notify", "n": 1, "woken": [a[1]]}
        if base == "KwWakeNone":
            return {"ev": "wake", "t": t, "loc": "notify", "n": 1, "woken": []}
        if base == "KWakeAllReaders":
            return {"ev": "wake", "t": t, "loc": "state", "n": 2147483647, "woken": sorted(s["qs"])}
        if base == "RcFutexWait":
            return {"ev": "wait", "t": t, "loc": "state", "exp": or_rw(st), "res": "parked" if word == or_rw(st) else "eagain"}
        if base == "WcFutexWait":
            return {"ev": "wait", "t": t, "loc": "notify", "exp": seq, "res": "parked" if notify == seq else "eagain"}
        if base == "AccessWrite":
            return {"ev": "data", "t": t, "kind": "write"}
        if base == "AccessRead":
            return {"ev": "data", "t": t, "kind": "read"}
        if base == "SpuriousWake":
            return {"ev": "woken", "t": t, "cause": "spurious"}
        if base == "Eintr":
            return {"ev": "woken", "t": t, "cause": "eintr"}
        raise core.ToolError("unknown RwLock action label " + lbl)

    def project(self, st):
        return {"w": [st["state"], st["notify"]], "q": [sorted(st["qs"]), sorted(st["qn"])],
                "g": [sorted(st["readers"]), sorted(st["writers"])]}


def nontrivial_run(r):
    """a run with contention: some thread waited, set a waiting bit, or a try variant failed"""
    return any(e["ev"] == "wait" or (e["ev"] == "ret" and not e["ok"]) or (e["ev"] == "cas" and e["ok"] and e["new"] - e["exp"] in (RW, WW))
               for e in r["events"])


def bad_state(st):
    if st["race"] or st["assertBad"] or len(st["writers"]) > 1 or (st["writers"] and st["readers"]):
        return True
    parked = [p in ("rc_parked", "wc_parked") for p in st["pc"]]
    return any(parked) and all(pk or (p == "idle" and not pr) for pk, p, pr in zip(parked, st["pc"], st["prog"]))


LC = S.LockCheck(
    "C02", "rwlock", "RwLock", RwBinding(), PROGS, DEFAULT_ORD, INVARIANTS, ["MaxSpur", "MaxEintr", "MaxWeak"], nontrivial_run, bad_state,
    rule=("evaluations = recorded executions of the real RwLock (B1 tour paths + DFS schedules + random schedules), each judged "
          "event by event by TLC (SyncTrace.tla); non-trivial = executions with contention (a FUTEX_WAIT, a waiting bit set, "
          "or a failed try_read/try_write)"),
    assumptions=S.COMMON_ASSUMPTIONS + [
        "the state word is logged and modelled with scaled constants (count 0..6, WRITE_LOCKED=7 for 2^30-1, READERS_WAITING=8, WRITERS_WAITING=16); reader counts near 2^30 (the overflow assert) are not reached",
        "bounded: 2-4 threads, 1-2 acquisitions per thread, <=1 spurious wake / EINTR / weak-CAS failure per thread where budgeted, DFS preemption bounds as listed under coverage.exploration"],
    all_actions=["ReadLoad", "ReadCasWeak", "ReadCasWeakSpur", "RcSpinLoad", "RcCasWeak", "RcCasWeakSpur", "RcSetRw", "RcWaitFastLoad", "RcFutexWait",
                 "ReadUnlockFetchSub", "WriteCasWeak", "WriteCasWeakSpur", "WcSpinLoad", "WcCasWeak", "WcCasWeakSpur", "WcSetWw", "WcLoadSeq",
                 "WcReloadState", "WcWaitFastLoad", "WcFutexWait", "WriteUnlockFetchSub", "KCasWritersOnly", "KCasBoth", "KwFetchAdd", "KwWakeOne",
                 "KwWakeNone", "KCasReadersOnly", "KWakeAllReaders", "TryReadLoad", "TryReadCasWeak", "TryReadCasWeakSpur", "TryWriteLoad",
                 "TryWriteCasWeak", "TryWriteCasWeakSpur", "AccessWrite", "AccessRead", "SpuriousWake", "Eintr"])


def run(tier):
    if tier == "quick":
        tours = [("wr", 2, "A_WR", (1, 1, 1)), ("ww", 2, "A_WW", (1, 1, 1)), ("wtr", 2, "A_WTR", (1, 1, 1)),
                 ("rtw", 2, "A_RTW", (1, 1, 1)), ("tt", 2, "A_TT", (0, 0, 1))]
        configs = [("wrt", 3, "C_WRT", (0, 0, 0))]      # wwr is model-checked (and partially toured) as rare_tours
        configs_if_differs = [("wr", 2, "A_WR", (1, 1, 1)), ("ww", 2, "A_WW", (1, 1, 1))]
        specs = [
            ("dfs_a_wr", {"progs": PROGS["A_WR"], "preempt": 3, "max_runs": 800, "spur": 1, "eintr": 1, "weak": 1, "graph": "wr"}),
            ("dfs_wr", {"progs": PROGS["B_1"], "preempt": 2, "max_runs": 2500, "spur": 0, "eintr": 0, "weak": 0}),
            ("dfs_try", {"progs": PROGS["B_2"], "preempt": 2, "max_runs": 800, "spur": 1, "eintr": 0, "weak": 1}),
            ("dfs_wwr", {"progs": PROGS["C_WWR"], "preempt": 2, "max_runs": 1200, "spur": 0, "eintr": 0, "weak": 0}),
            ("dfs_wrr", {"progs": PROGS["C_WRR"], "preempt": 2, "max_runs": 1200, "spur": 0, "eintr": 0, "weak": 0}),
            # try variants against a word with a holder and both waiting bits (needs 4 threads)
            ("dfs_www", {"progs": PROGS["C_WWW"], "preempt": 1, "max_runs": 600, "spur": 0, "eintr": 0, "weak": 0}),
            # coverage-guided (novel (state, choice) pairs first): reaches the words with a holder and both
            # waiting bits within a few runs, which a capped DFS with 4 threads does not
            ("cov_rwrt", {"mode": "cover", "progs": PROGS["G_RWRT"], "runs": 250, "spur": 0, "eintr": 0, "weak": 0}),
            ("cov_wwrt", {"mode": "cover", "progs": PROGS["G_WWRT"], "runs": 250, "spur": 0, "eintr": 0, "weak": 0}),
            ("cov4", {"mode": "cover", "progs": [WAU + RAU, RAU + WAU, TWAU + RAU, RAU + TRAU], "runs": 300, "spur": 1, "eintr": 1, "weak": 1}),
            ("hold_wrw", {"mode": "hold", "progs": [WAU, RAU, WAU], "spur": 0, "eintr": 0, "weak": 0, "max_steps": 200}),
            ("hold_rww", {"mode": "hold", "progs": [RAU, WAU, TRAU + RAU], "spur": 0, "eintr": 0, "weak": 0, "max_steps": 200}),
            ("rnd4", {"progs": [WAU + RAU, RAU + WAU, TWAU + RAU, RAU + TRAU], "runs": 150, "spur": 1, "eintr": 1, "weak": 1}),
        ]
    else:
        tours = [("wr", 2, "A_WR", (1, 1, 1)), ("ww", 2, "A_WW", (1, 1, 1)), ("wtr", 2, "A_WTR", (1, 1, 1)),
                 ("rtw", 2, "A_RTW", (1, 1, 1)), ("tt", 2, "A_TT", (0, 0, 1)), ("wrt", 3, "C_WRT", (0, 0, 0))]
        configs = [("b1", 2, "B_1", (1, 0, 1)), ("b2", 2, "B_2", (1, 0, 1)), ("wrr", 3, "C_WRR", (0, 0, 0)),
                   ("www", 3, "C_WWW", (1, 0, 0)), ("wwr1", 3, "C_WWR", (1, 0, 1)),
                   # the two biggest ones run under a time cap (TLC reports what it explored)
                   ("e1", 3, "E_1", (0, 0, 0), 100), ("rwrt", 4, "G_RWRT", (0, 0, 0), 100)]
        configs_if_differs = [("wr", 2, "A_WR", (1, 1, 1)), ("ww", 2, "A_WW", (1, 1, 1))]
        specs = [
            ("dfs_a_wr", {"progs": PROGS["A_WR"], "preempt": 4, "max_runs": 5000, "spur": 1, "eintr": 1, "weak": 1, "graph": "wr"}),
            ("dfs_a_ww", {"progs": PROGS["A_WW"], "preempt": 4, "max_runs": 5000, "spur": 1, "eintr": 1, "weak": 1, "graph": "ww"}),
            ("dfs_a_wtr", {"progs": PROGS["A_WTR"], "preempt": 4, "max_runs": 5000, "spur": 1, "eintr": 1, "weak": 1, "graph": "wtr"}),
            ("dfs_wr", {"progs": PROGS["B_1"], "preempt": 3, "max_runs": 5000, "spur": 1, "eintr": 0, "weak": 1}),
            ("dfs_try", {"progs": PROGS["B_2"], "preempt": 3, "max_runs": 5000, "spur": 1, "eintr": 1, "weak": 1}),
            ("dfs_wwr", {"progs": PROGS["C_WWR"], "preempt": 3, "max_runs": 5000, "spur": 0, "eintr": 0, "weak": 0}),
            ("dfs_wrr", {"progs": PROGS["C_WRR"], "preempt": 3, "max_runs": 5000, "spur": 0, "eintr": 0, "weak": 0}),
            ("dfs_wwrr", {"progs": PROGS["F_WWRR"], "preempt": 2, "max_runs": 5000, "spur": 0, "eintr": 0, "weak": 0}),
            ("dfs_www", {"progs": PROGS["C_WWW"], "preempt": 3, "max_runs": 4000, "spur": 0, "eintr": 0, "weak": 0}),
            ("dfs_rwrt", {"progs": PROGS["G_RWRT"], "preempt": 2, "max_runs": 4000, "spur": 0, "eintr": 0, "weak": 0}),
            ("dfs_wwrt", {"progs": PROGS["G_WWRT"], "preempt": 2, "max_runs": 4000, "spur": 0, "eintr": 0, "weak": 0}),
            ("cov_rwrt", {"mode": "cover", "progs": PROGS["G_RWRT"], "runs": 2500, "spur": 1, "eintr": 0, "weak": 1}),
            ("cov_wwrt", {"mode": "cover", "progs": PROGS["G_WWRT"], "runs": 2500, "spur": 1, "eintr": 0, "weak": 1}),
            ("cov4", {"mode": "cover", "progs": [WAU + RAU, RAU + WAU, TWAU + RAU, RAU + TRAU], "runs": 3000, "spur": 1, "eintr": 1, "weak": 1}),
            ("hold_wrw", {"mode": "hold", "progs": [WAU, RAU, WAU], "spur": 0, "eintr": 0, "weak": 0, "max_steps": 200}),
            ("hold_rww", {"mode": "hold", "progs": [RAU, WAU, TRAU + RAU], "spur": 0, "eintr": 0, "weak": 0, "max_steps": 200}),
            ("rnd4", {"progs": [WAU + RAU, RAU + WAU, TWAU + RAU, RAU + TRAU], "runs": 3000, "spur": 1, "eintr": 1, "weak": 1}),
        ]
    stress = {"threads": 4, "sections": 1500} if tier == "quick" else {"threads": 8, "sections": 10000}
    rare = [("wwr", 3, "C_WWR", (0, 0, 0))] if tier == "quick" else []     # thorough tours the 3-thread graph wrt completely
    rel = [(t, sp) for t, sp in specs if t in (("cov4", "hold_wrw") if tier == "quick" else ("dfs_wr", "dfs_wwr", "cov4", "hold_wrw"))]
    return LC.run(tier, tours, configs, configs_if_differs, specs, stress=stress, rare_tours=rare, release_specs=rel,
                  probe_scenarios=["rww_before", "rwr_before", "rww_after", "rwr_after", "rww_after@fifo", "rwr_after@fifo"],
                  directed=[("tog_www", 3, "C_WWW", (0, 0, 0), "NotifyToggle <- ToggleOn",
                             "writer_notify as a toggle instead of a counter (NotifyDistinct): ABA inside a writer's sample->wait window")])


def replay(path):
    return LC.replay(path)


def selftest():
    import os
    return LC.selftest(("wtr", 2, "A_WTR", (1, 1, 1)), seeded=os.environ.get("VERIF_SELFTEST_SEEDED", "1") == "1")
