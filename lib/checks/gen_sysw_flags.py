"""Generates harness/src/bin/sysw_flags.inc: one C09 driver entry per (wrapper, flag-typed parameter,
constant of that flag type), read from the rusl source.  Run by hand when rusl's flag types change:
    python3 lib/checks/gen_sysw_flags.py
lib/checks/sysw_table.flag_coverage() compares source and driver on every run of the check and lists
constants without an entry, so a stale file shows up in the evidence."""
import os
import re
import sys

sys.path.insert(0, os.path.join(os.path.dirname(os.path.abspath(__file__)), ".."))
from vlib import core  # noqa: E402


def flag_types(repo=None):
    """{type name: [constants]} for transparent_bitflags! types and `impl T { pub const X: Self }` types"""
    root = os.path.join(repo or core.REPO, "rusl", "src")
    out = {}
    for d, _, files in os.walk(root):
        for n in files:
            if not n.endswith(".rs") or n == "test.rs":
                continue
            t = open(os.path.join(d, n)).read()
            for m in re.finditer(r"pub struct (\w+)\s*:\s*[\w:]+\s*\{(.*?)\n\s*\}\s*\n\s*\}", t, re.S):
                cs = [c for c in re.findall(r"const (\w+)\s*=", m.group(2)) if c != "DEFAULT"]
                if cs:
                    out.setdefault(m.group(1), [])
                    out[m.group(1)] += [c for c in cs if c not in out[m.group(1)]]
            for m in re.finditer(r"impl (\w+) \{(.*?)\n\}", t, re.S):
                cs = re.findall(r"pub const (\w+): Self\s*=", m.group(2))
                if len(cs) >= 2:
                    out.setdefault(m.group(1), [])
                    out[m.group(1)] += [c for c in cs if c not in out[m.group(1)]]
    return out


# (entry base id, "file:fn", syscall, kind, flag type, call with {F} = the constant)
P = "path"
TEMPLATES = [
    ("unistd.open_raw", "unistd/open.rs:open_raw", "openat", "i32", "OpenFlags", "v(unsafe { rusl::unistd::open_raw(path.as_ptr() as usize, {F}) }.map(|x| s32(x.value())))"),
    ("unistd.open", "unistd/open.rs:open", "openat", "i32", "OpenFlags", "v(rusl::unistd::open(path, {F}).map(|x| s32(x.value())))"),
    ("unistd.open_mode", "unistd/open.rs:open_mode", "openat", "i32", "OpenFlags", "v(rusl::unistd::open_mode(path, {F}, mode).map(|x| s32(x.value())))"),
    ("unistd.open_at", "unistd/open.rs:open_at", "openat", "i32", "OpenFlags", "v(rusl::unistd::open_at(fd, path, {F}).map(|x| s32(x.value())))"),
    ("unistd.open_at_mode", "unistd/open.rs:open_at_mode", "openat", "i32", "OpenFlags", "v(rusl::unistd::open_at_mode(fd, path, {F}, mode).map(|x| s32(x.value())))"),
    ("unistd.open_mode", "unistd/open.rs:open_mode", "openat", "i32", "Mode", "v(rusl::unistd::open_mode(path, OpenFlags::O_CREAT | OpenFlags::O_WRONLY, {F}).map(|x| s32(x.value())))"),
    ("unistd.open_at_mode", "unistd/open.rs:open_at_mode", "openat", "i32", "Mode", "v(rusl::unistd::open_at_mode(fd, path, OpenFlags::O_CREAT | OpenFlags::O_WRONLY, {F}).map(|x| s32(x.value())))"),
    ("unistd.mkdir", "unistd/mkdir.rs:mkdir", "mkdirat", "unit", "Mode", "u(rusl::unistd::mkdir(path, {F}))"),
    ("unistd.mkdir_at", "unistd/mkdir.rs:mkdir_at", "mkdirat", "unit", "Mode", "u(rusl::unistd::mkdir_at(fd, path, {F}))"),
    ("unistd.fcntl_set_file_status", "unistd/fcntl.rs:fcntl_set_file_status", "fcntl", "unit", "OpenFlags", "u(rusl::unistd::fcntl_set_file_status(fd, {F}))"),
    ("unistd.lseek", "unistd/seek.rs:lseek", "lseek", "i64", "Whence", "v(rusl::unistd::lseek(fd, 0x2000, {F}).map(|x| x as u64))"),
    ("time.clock_get_time", "time/clock_get_time.rs:clock_get_time", "clock_gettime", "unit", "ClockId", "u(rusl::time::clock_get_time({F}))"),
    ("process.wait_pid", "process/wait.rs:wait_pid", "wait4", "i32", "WaitPidFlags", "v(rusl::process::wait_pid(0, {F}).map(|r| s32(r.pid)))"),
    # mmap with a requested address and length that differ from every forced success value
    ("unistd.mmap", "unistd/mmap.rs:mmap", "mmap", "usize", "MemoryProtection",
     "v(unsafe { rusl::unistd::mmap(Some(0x7000_0000), NonZeroUsize::new(0x3000).unwrap(), {F}, MapRequiredFlag::MapPrivate, MapAdditionalFlags::MAP_ANONYMOUS, None, 0) }.map(|x| x as u64))"),
    ("unistd.mmap", "unistd/mmap.rs:mmap", "mmap", "usize", "MapAdditionalFlags",
     "v(unsafe { rusl::unistd::mmap(Some(0x7000_0000), NonZeroUsize::new(0x3000).unwrap(), MemoryProtection::PROT_READ, MapRequiredFlag::MapPrivate, {F}, Some(fd), 0x1000) }.map(|x| x as u64))"),
    ("futex.futex_wait", "futex.rs:futex_wait", "futex", "unit", "FutexFlags", "u(rusl::futex::futex_wait(fut, 0, {F}, None))"),
    ("unistd.rename_flags", "unistd/rename.rs:rename_flags", "renameat2", "unit", "RenameFlags", "u(rusl::unistd::rename_flags(path, path2, {F}))"),
    ("unistd.rename_at2", "unistd/rename.rs:rename_at2", "renameat2", "unit", "RenameFlags", "u(rusl::unistd::rename_at2(fd, path, fd2, path2, {F}))"),
    ("network.socket", "network/socket.rs:socket", "socket", "i32", "AddressFamily", "v(rusl::network::socket({F}, SocketOptions::new(SocketType::SOCK_STREAM, SocketFlags::SOCK_CLOEXEC), 0).map(|x| s32(x.value())))"),
    ("network.socket", "network/socket.rs:socket", "socket", "i32", "SocketType", "v(rusl::network::socket(AddressFamily::AF_INET, SocketOptions::new({F}, SocketFlags::empty()), 0).map(|x| s32(x.value())))"),
    ("network.socket", "network/socket.rs:socket", "socket", "i32", "SocketFlags", "v(rusl::network::socket(AddressFamily::AF_UNIX, SocketOptions::new(SocketType::SOCK_DGRAM, {F}), 0).map(|x| s32(x.value())))"),
    ("network.accept_unix", "network/accept.rs:accept_unix", "accept4", "i32", "SocketFlags", "v(rusl::network::accept_unix(fd, {F}).map(|(x, _)| s32(x.value())))"),
    ("network.accept_inet", "network/accept.rs:accept_inet", "accept4", "i32", "SocketFlags", "v(rusl::network::accept_inet(fd, {F}).map(|(x, _)| s32(x.value())))"),
    ("io_uring.io_uring_enter", "io_uring.rs:io_uring_enter", "io_uring_enter", "usize", "IoUringEnterFlags", "v(rusl::io_uring::io_uring_enter(fd, 1, 1, {F}).map(|x| x as u64))"),
    ("unistd.unshare", "unistd/unshare.rs:unshare", "unshare", "unit", "CloneFlags", "u(rusl::unistd::unshare({F}))"),
    ("process.clone", "process/clone.rs:clone", "clone", "i32", "CloneFlags", "v(unsafe { rusl::process::clone(&CloneArgs::new({F})) }.map(s32))"),
    ("process.clone3", "process/clone.rs:clone3", "clone3", "u64", "CloneFlags", "v(unsafe { rusl::process::clone3(&mut Clone3Args::new({F})) })"),
    ("unistd.mount.nodata", "unistd/mount.rs:mount", "mount", "unit", "FilesystemType", "u(rusl::unistd::mount(path, path2, {F}, Mountflags::empty(), None))"),
    ("unistd.mount.data", "unistd/mount.rs:mount", "mount", "unit", "Mountflags", "u(rusl::unistd::mount(path, path2, FilesystemType::TMPFS, {F}, Some(path)))"),
    ("unistd.mount.nodata", "unistd/mount.rs:mount", "mount", "unit", "Mountflags", "u(rusl::unistd::mount(path, path2, FilesystemType::TMPFS, {F}, None))"),
    ("select.epoll_ctl", "select/epoll.rs:epoll_ctl", "epoll_ctl", "unit", "EpollEventMask", "u(rusl::select::epoll_ctl(fd, EpollOp::Add, fd2, &EpollEvent::new(7, {F})))"),
    ("io_uring.io_uring_setup", "io_uring.rs:io_uring_setup", "io_uring_setup", "i32", "IoUringParamFlags", "v(rusl::io_uring::io_uring_setup(4, &mut IoUringParams::new({F}, 0, 0)).map(|x| s32(x.value())))"),
]
# wrapper parameters of a flag type that are deliberately not enumerated (reason in the evidence)
EXCLUDED = {
    ("unistd/pipe.rs:pipe2", "OpenFlags"): "successes of pipe2 run the real call (the descriptors it writes are validated): only the flags pipe2 accepts are driven by hand (O_CLOEXEC, O_NONBLOCK, O_DIRECT)",
}


def generate():
    types = flag_types()
    lines = ["// GENERATED by lib/checks/gen_sysw_flags.py from the flag types of rusl/src - do not edit.",
             "// One entry per (wrapper, flag-typed parameter, constant): variant = \"Type::CONST\".", "{"]
    n = 0
    for base, fn, nr, kind, ty, call in TEMPLATES:
        consts = types.get(ty)
        if not consts:
            raise SystemExit("flag type %s not found in the source" % ty)
        items = ", ".join('"%s::%s" => %s::%s' % (ty, c, ty, c) for c in consts)
        lines.append('    var!("%s", "%s", "%s", "%s", [%s], |f| %s);' % (base, fn, nr, kind, items, call.replace("{F}", "f")))
        n += len(consts)
    lines.append("}")
    path = os.path.join(core.VERIF, "harness", "src", "bin", "sysw_flags.inc")
    open(path, "w").write("\n".join(lines) + "\n")
    print("wrote %s: %d entries" % (path, n))


if __name__ == "__main__":
    generate()
