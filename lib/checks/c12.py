"""C12 - no public operation leaks, double-closes or steals a file descriptor, on success or on
failure of any underlying system call.

Specification: specs/FdTable.tla (descriptor ownership across one operation; obligations
DoubleClose, ForeignClose, Leak, HandedClosed, HandedOnError, HandedForeign, NotConsumed),
model-checked on a small universe (FdTable_MC*.cfg); specs/FdTableTrace.tla replays the windows
recorded from the real code.  Instrument: tools/sysinj logs every system call of
harness/src/bin/fdops.rs between markers, fails call k of the window per plan, snapshots
/proc/<pid>/fd at the markers."""
import json
import os
import shutil
import tempfile
from concurrent.futures import ThreadPoolExecutor

from vlib import core
from checks import sysinj_common as SJ

ERRNO = {"EPERM": 1, "ENOENT": 2, "EINTR": 4, "EIO": 5, "EBADF": 9, "EAGAIN": 11, "ENOMEM": 12, "EACCES": 13,
         "EBUSY": 16, "EEXIST": 17, "ENOTDIR": 20, "EINVAL": 22, "ENFILE": 23, "EMFILE": 24, "ENOTTY": 25, "ENOSPC": 28,
         "EADDRINUSE": 98, "ECONNREFUSED": 111, "ECONNABORTED": 103, "ECHILD": 10, "EINPROGRESS": 115}
TYPICAL = {"openat": "EMFILE", "socket": "EMFILE", "pipe2": "EMFILE", "accept4": "EMFILE", "epoll_create1": "EMFILE",
           "io_uring_setup": "ENOMEM", "mmap": "ENOMEM", "munmap": "EINVAL", "fork": "EAGAIN", "connect": "ECONNREFUSED",
           "bind": "EADDRINUSE", "listen": "EADDRINUSE", "read": "EIO", "write": "ENOSPC", "ioctl": "ENOTTY", "close": "EIO",
           "wait4": "ECHILD", "getdents64": "EIO", "unlinkat": "EACCES", "mkdirat": "EACCES", "newfstatat": "EACCES",
           "copy_file_range": "EIO", "ppoll": "ENOMEM", "epoll_ctl": "ENOMEM", "epoll_pwait": "EINVAL", "fcntl": "EINVAL"}
COMMON = ["EMFILE", "ENOMEM", "EINTR", "EACCES"]
# errnos the code under test branches on (would-block paths of the socket helpers)
BRANCHY = ["EAGAIN", "EINPROGRESS"]

# odd *successful* answers that select other arms of the code (end of file, short transfer, time-out)
VALUE_FAULTS = {"read": [0, 1, 3], "write": [0, 1], "copy_file_range": [0], "ppoll": [0], "epoll_pwait": [0],
                "getdents64": [0], "wait4": [0], "readv": [0], "recvmsg": [0], "sendmsg": [0]}

CREATE1 = {"open", "openat", "openat2", "creat", "socket", "accept", "accept4", "dup", "epoll_create", "epoll_create1",
           "eventfd", "eventfd2", "timerfd_create", "signalfd", "signalfd4", "memfd_create", "io_uring_setup",
           "inotify_init", "inotify_init1", "userfaultfd", "perf_event_open", "pidfd_open", "fanotify_init", "memfd_secret"}
PAIR = {"pipe", "pipe2", "socketpair"}
MC_PROBES = ["ProbeDouble", "ProbeForeign", "ProbeLeak", "ProbeHandedClosed", "ProbeNotConsumed", "ProbeDone"]


def model_check(chk, tier):
    out = {}
    fds = "{0, 1, 2}" if tier == "quick" else "{0, 1, 2, 3}"
    for name, spec, invs in (("arbitrary_operation", "Spec", "TypeOK EndRestores NoSilentTheft"),
                             ("disciplined_operation", "DSpec", "TypeOK DisciplineSafe EndRestores")):
        cfg = os.path.join(chk.work, "FdTable_MC_%s.cfg" % name)
        with open(cfg, "w") as f:
            f.write("CONSTANTS Fds = %s\nSPECIFICATION %s\nINVARIANTS %s\nCHECK_DEADLOCK FALSE\n" % (fds, spec, invs))
        res = core.run_tlc("FdTable.tla", cfg, workers=6, timeout=1500, xmx="6g")
        core.tlc_must_pass(res, "FdTable " + name)
        chk.add_tlc(res)
        out[name] = {"states": res.distinct, "fds": fds}
    for p in MC_PROBES:
        res = core.run_tlc("FdTable.tla", "FdTable_MC_%s.cfg" % p, workers=2, timeout=300, xmx="1g")
        if p not in res.invariant_violated:
            raise core.ToolError("FdTable probe %s not reachable (vacuous obligation?)\n%s" % (p, res.out[-1200:]))
        out[p] = "reachable"
    return out


def algorithm_models(chk):
    """FdOps: every failure position of the modelled multi-call operations.  The programs as they
    are now must be leak-free in the model; the programs of the pinned tree must leak (TLC finds
    the positions first, the binding confirmed them on the real code - see notes/C12.md)."""
    res = core.run_tlc("FdOps_MC.tla", "FdOps_MC_fixed.cfg", workers=1, timeout=300, xmx="1g")
    core.tlc_must_pass(res, "FdOps fixed")
    chk.add_tlc(res)
    fixed = res.printed("F")
    res2 = core.run_tlc("FdOps_MC.tla", "FdOps_MC_pinned.cfg", workers=1, timeout=300, xmx="1g")
    core.tlc_must_pass(res2, "FdOps pinned (enumeration)")
    pinned = res2.printed("F")
    res3 = core.run_tlc("FdOps_MC.tla", "FdOps_MC_pinned_noleak.cfg", workers=1, timeout=300, xmx="1g")
    if "NoLeak" not in res3.invariant_violated:
        raise core.ToolError("FdOps: TLC finds no leak in the pinned programs (vacuous model)")
    if len(fixed) != res.distinct - len({v["prog"] for v in fixed}) * 0 and not fixed:
        raise core.ToolError("FdOps printed no vectors")
    return fixed, pinned


INPUT_SCENARIO = {"unix_connect": "unix_connect_long_path", "unix_bind": "unix_bind_long_path",
                  "unix_try_connect": "unix_try_connect_long_path"}


def conformance(fixed, dry, results):
    """compare the model's vectors with the recorded runs. results: {(scenario, k): (leak?, closes_after, errname)}"""
    div = []
    compared = 0
    progs = {}
    for v in fixed:
        progs.setdefault(v["prog"], []).append(v)
    for prog, vs in progs.items():
        if prog not in dry:
            div.append({"prog": prog, "what": "no such scenario"})
            continue
        model_calls = [c for c in vs[0]["calls"] if c]
        real_calls = [c["name"] for c in dry[prog][2] if c["phase"] == "op"]
        # the drops at the successful return are implicit in the model (Finish): the real run may
        # end with the close calls of the dropped OwnedFds
        rest = real_calls[len(model_calls):]
        if model_calls != real_calls[:len(model_calls)] or any(c != "close" for c in rest):
            div.append({"prog": prog, "what": "call sequence", "model": model_calls, "real": real_calls})
            continue
        for v in vs:
            if v["input"]:
                sc = INPUT_SCENARIO.get(prog)
                if sc and (sc, None) in results:
                    compared += 1
                    leak, _, _ = results[(sc, None)]
                    ncalls = len([c for c in v["calls"][:v["failstep"] - 1] if c])
                    real_n = len([c for c in dry[sc][2] if c["phase"] == "op"])
                    if leak != (v["leaked"] > 0) or ncalls != real_n:
                        div.append({"prog": prog, "what": "input failure", "model": {"leak": v["leaked"] > 0, "calls": ncalls},
                                    "real": {"leak": leak, "calls": real_n}})
                continue
            key = (prog, v["k"] if v["failstep"] else None)
            if key not in results:
                continue
            leak, closes, errname = results[key]
            if errname == "EINTR":
                continue   # retried by the code: a different path than "this call fails"
            compared += 1
            if leak != (v["leaked"] > 0) or (v["failstep"] and closes != v["closed_after"]):
                div.append({"prog": prog, "k": v["k"], "what": "outcome", "model": {"leak": v["leaked"] > 0, "closed_after": v["closed_after"]},
                            "real": {"leak": leak, "closed_after": closes, "errno": errname}})
    return compared, div


SCENARIO_SOURCES = [
    (("spawn_", "child_"), ["tiny-std/src/process.rs"]),
    (("unix_", "tcp_"), ["tiny-std/src/net.rs", "tiny-std/src/sock.rs"]),
    (("epoll",), ["tiny-std/src/linux/epoll.rs"]),
    (("getpwuid",), ["tiny-std/src/unix/passwd/getpw_r.rs"]),
    (("openpty",), ["tiny-std/src/unix/misc/openpty.rs"]),
    (("io_uring",), ["rusl/src/io_uring.rs", "rusl/src/platform/compat/io_uring.rs"]),
    (("random",), ["tiny-std/src/unix/random.rs", "tiny-std/src/fs.rs"]),
    (("",), ["tiny-std/src/fs.rs", "tiny-std/src/io.rs"]),
]
_special_cache = {}


def errno_nr(name):
    import errno as pyerrno
    return ERRNO.get(name) or getattr(pyerrno, name)


def special_errnos(scenario):
    """the errnos that the source files implementing the scenario's operation mention (read from
    the tree under test on every run, test modules excluded)"""
    import errno as pyerrno
    import re
    for prefixes, files in SCENARIO_SOURCES:
        if any(scenario.startswith(p) for p in prefixes):
            break
    key = tuple(files)
    if key not in _special_cache:
        names = []
        for f in files:
            try:
                text = open(os.path.join(core.REPO, f)).read()
            except OSError:
                continue
            cut = text.find("#[cfg(test)]\nmod ")
            if cut > 0 and "\nmod test;" not in text[cut:cut + 40]:
                text = text[:cut]
            for n in re.findall(r"Errno::(E[A-Z0-9]+)", text):
                if n not in names and (n in ERRNO or hasattr(pyerrno, n)):
                    names.append(n)
        _special_cache[key] = names
    return _special_cache[key]


def scenarios(bindir):
    p = core.run_cmd([os.path.join(bindir, "fdops"), "list"])
    return [l.strip() for l in p.stdout.splitlines() if l.strip()]


def run_one(chk, bindir, scen, k=None, errno=None, tag="dry", value=None, call=None, second=None, prior=None, limit=None):
    root = tempfile.mkdtemp(prefix="fdops-", dir=chk.work)
    log = os.path.join(chk.work, "log_%s_%s.ndjson" % (scen, tag))
    rules = []
    if k is not None and value is not None:
        # (a write is executed and only its result replaced: the peer still gets its data)
        rules.append("win=%s,task=1,src=exe,k=%d,ret=%d,mode=%s" % (scen, k, value, "p" if "write" in (call or "") or call == "sendmsg" else "s"))
    elif k is not None:
        rules.append("win=%s,task=1,src=exe,k=%d,ret=-%d" % (scen, k, errno))
    if second is not None:
        # fault pair: a later call of the same window (typically of the clean-up path) fails too
        rules.append("win=%s,task=1,src=exe,k=%d,ret=-%d" % (scen, second["k"], second["errno"]))
    cmd = [os.path.join(bindir, "fdops"), "run", scen, root] + ([prior] if prior else [])
    try:
        rc, so, se, ev = SJ.run_traced(cmd, log, rules=rules, timeout=int(limit or 25 * SJ.load_factor()))
    finally:
        # (rm copes with the 2 000-level directory trees of the extreme-path scenarios, shutil does not)
        import subprocess
        subprocess.run(["rm", "-rf", root], stdout=subprocess.DEVNULL, stderr=subprocess.DEVNULL)
    res = None
    for line in so.splitlines():
        try:
            res = json.loads(line)
        except ValueError:
            pass
    return {"rc": rc, "res": res, "events": ev, "stderr": se[-600:], "log": log}


def window(run):
    """sysinj events -> (FdTable events, calls before `returned`, status)"""
    ev = run["events"]
    out, calls = [], []
    state = "before"
    injected = None
    foreign_marks = 0
    closes_after = 0
    for e in ev:
        if e["ev"] == "mark":
            if e.get("foreign"):
                foreign_marks += 1
                continue
            if e["task"] != 1:
                continue
            if e["phase"] == "begin":
                owned = [int(x) for x in e["rest"].split("=", 1)[1].split(",") if x]
                out.append({"ev": "begin", "pre": e["fds"], "owned": owned})
                state = "op"
            elif e["phase"] == "returned":
                parts = e["rest"].split(":")
                handed = [int(x) for x in parts[1].split(",") if x] if len(parts) > 1 else []
                out.append({"ev": "return", "res": parts[0], "handed": handed, "exact": "inexact" not in parts[2:], "snap": e["fds"]})
                state = "returned"
            elif e["phase"] == "end":
                out.append({"ev": "end", "snap": e["fds"]})
                state = "done"
        elif e["ev"] == "sys" and e["task"] == 1 and state in ("op", "returned"):
            name, ret, args = e["name"], e["ret"], e["args"]
            inj = e.get("inj")
            real = inj["real"] if inj else ret
            if e["src"] == "exe":
                calls.append({"k": e["k"], "name": name, "ret": ret, "phase": "op" if state == "op" else "drop"})
            if inj:
                injected = {"k": e["k"], "name": name, "ret": ret, "mode": inj["mode"], "closes_after": 0}
            elif injected is not None and state == "op" and name == "close" and real in (0, -9):
                injected["closes_after"] += 1
            executed = not (inj and inj["mode"] == "s")
            if not executed:
                continue
            if name in CREATE1 and real >= 0:
                out.append({"ev": "create", "fds": [real], "call": name})
            elif name == "fcntl" and args[1] in (0, 1030) and real >= 0:
                out.append({"ev": "create", "fds": [real], "call": name})
            elif name in PAIR and real == 0 and "out" in e:
                out.append({"ev": "create", "fds": e["out"], "call": name})
            elif name in ("dup2", "dup3") and real >= 0 and (args[0] & 0xffffffff) != (args[1] & 0xffffffff):
                out.append({"ev": "replace", "fd": real, "call": name})
            elif name == "close":
                fd = args[0] & 0xffffffff
                if fd < (1 << 31):
                    # Linux releases the descriptor whatever close reports, except EBADF (it was not open)
                    out.append({"ev": "close", "fd": fd, "src": e["src"], "kernel": real})
        elif e["ev"] == "timeout":
            state = "timeout"
    status = "complete" if state == "done" else ("timeout" if state == "timeout" else "incomplete:" + state)
    return out, calls, status, injected, foreign_marks


def nth_of(calls, k):
    name = None
    n = 0
    for c in calls:
        if c["k"] <= k:
            if c["k"] == k:
                name = c["name"]
                n = sum(1 for d in calls if d["name"] == name and d["k"] <= k)
    return name, n


def run(tier):
    chk = core.Check("C12", tier, "model_checking")
    SJ.build_tracer()
    bindir = core.cargo_build(bins=["fdops"])
    mc = model_check(chk, tier)
    fixed_vecs, pinned_vecs = algorithm_models(chk)
    scens = scenarios(bindir)
    boundary = {x for x in scens if x.startswith(("wrongkind_", "extreme_")) or "_peer_" in x or "_pathlen_" in x or "_entries_" in x or "_buf_" in x or x.endswith(("_empty", "_large", "_zero_buf"))}
    # 1. dry runs: the calls each scenario performs
    plan = []
    dry = {}
    skipped = []
    sampled = {}
    with ThreadPoolExecutor(max_workers=8) as ex:
        for s, r in zip(scens, ex.map(lambda s: run_one(chk, bindir, s), scens)):
            evs, calls, status, _, fm = window(r)
            if status != "complete":
                r = run_one(chk, bindir, s, limit=max(125, 125 * SJ.load_factor()))   # once more, alone, long limit
                evs, calls, status, _, fm = window(r)
            if status != "complete":
                # the environment does not support the scenario's set-up (no loopback, no /dev/ptmx, ...)
                skipped.append({"scenario": s, "status": status, "stderr": r["stderr"][-300:]})
                continue
            dry[s] = (r, evs, calls)
            plan.append({"scenario": s, "k": None, "errno": None})
            special = special_errnos(s)
            # an operation that issues a great many calls (create_dir_all over a 2 000-component path):
            # the first ten, the last five and an evenly spaced sample of the calls in between are failed
            ks = [c["k"] for c in calls]
            if len(ks) > 40:
                step = max(1, len(ks) // 15)
                keep_k = set(ks[:10]) | set(ks[-5:]) | set(ks[::step])
                sampled[s] = {"calls": len(ks), "failed": len(keep_k)}
            else:
                keep_k = set(ks)
            for c in calls:
                if c["k"] not in keep_k:
                    continue
                names = [TYPICAL.get(c["name"], "EINVAL")]
                if c["phase"] == "op":
                    # the errnos the operation's own source special-cases (errno-specific arms such as
                    # EAGAIN => Ok(None), EINPROGRESS, EINTR => retry) fail every call of the operation
                    names += [n for n in special if n not in names]
                    if tier != "quick" and s in boundary:
                        names += [n for n in COMMON if n not in names]   # argument-variation scenarios: the common set only
                    if tier != "quick" and s not in boundary:
                        names += [n for n in COMMON + BRANCHY if n not in names]
                        # ... and every other errno number the kernel defines (an errno-specific arm need
                        # not be spelled Errno::E..)
                        import errno as pyerrno
                        have = {errno_nr(n) for n in names}
                        names += [pyerrno.errorcode[e] for e in range(1, 134) if e in pyerrno.errorcode and e not in have]
                else:
                    # while the caller drops the result: close failing must not close twice, an unmap
                    # failing must not skip the close
                    if c["name"] == "close":
                        names += ["EINTR"]
                    if tier != "quick":
                        names += [n for n in COMMON if n not in names]
                for n in names:
                    plan.append({"scenario": s, "k": c["k"], "errno": errno_nr(n), "errname": n, "call": c["name"], "phase": c["phase"]})
                if c["phase"] == "op":
                    for val in VALUE_FAULTS.get(c["name"], []):
                        if val != c["ret"]:
                            plan.append({"scenario": s, "k": c["k"], "errno": 0, "errname": "=%d" % val, "value": val,
                                         "call": c["name"], "phase": "op"})
    # prior-state variation of the descriptor table: the same operations when the standard
    # descriptors are closed, so that what the operation opens gets the numbers 0, 1, 2
    for s in list(dry):
        calls = dry[s][2]
        plan.append({"scenario": s, "k": None, "errno": None, "prior": "0"})
        plan.append({"scenario": s, "k": None, "errno": None, "prior": "012"})
        for c in calls[:40]:
            if c["phase"] == "op" and (tier != "quick" or s not in boundary):
                n = TYPICAL.get(c["name"], "EINVAL")
                plan.append({"scenario": s, "k": c["k"], "errno": errno_nr(n), "errname": n, "call": c["name"], "phase": "op", "prior": "012"})
    if len(dry) < 40:
        raise core.ToolError("only %d of %d scenarios complete without faults: %s" % (len(dry), len(scens), json.dumps(skipped[:5])))
    scens = [s for s in scens if s in dry]
    # 2. faulted runs
    def exec_item(it, limit=None):
        if it["k"] is None and not it.get("prior") and limit is None:
            return dry[it["scenario"]][0]
        tagp = ("p" + it["prior"] + "_") if it.get("prior") else ""
        if it["k"] is None:
            return run_one(chk, bindir, it["scenario"], tag=tagp + "nofault", prior=it.get("prior"), limit=limit)
        if "value" in it:
            return run_one(chk, bindir, it["scenario"], it["k"], 0, tagp + "k%d_v%d" % (it["k"], it["value"]), value=it["value"], call=it["call"], limit=limit)
        sec = it.get("second")
        return run_one(chk, bindir, it["scenario"], it["k"], it["errno"],
                       tagp + "k%d_e%d" % (it["k"], it["errno"]) + ("_k%d_e%d" % (sec["k"], sec["errno"]) if sec else ""),
                       second=sec, prior=it.get("prior"), limit=limit)

    with ThreadPoolExecutor(max_workers=8) as ex:
        runs = list(ex.map(exec_item, plan))
    # 2b. fault pairs: after failing call k, each LATER call of the same (faulted) run fails too -
    # clean-up paths (close / unlink / munmap after an error) are where a second failure is plausible
    pairs = []
    for it, r in zip(list(plan), list(runs)):
        if it["k"] is None or it.get("prior") or "value" in it or it.get("phase") != "op" or it["scenario"] in boundary:
            continue
        if it["errname"] != TYPICAL.get(it["call"], "EINVAL"):
            continue
        _, rcalls, status, injected, _ = window(r)
        if status != "complete" or injected is None:
            continue
        later = [c for c in rcalls if c["k"] > it["k"]]
        if tier == "quick" and len(rcalls) > 8:
            later = later[:3]
        for c in later:
            n2 = "EINTR" if c["name"] == "close" else TYPICAL.get(c["name"], "EINVAL")
            pairs.append(dict(it, second={"k": c["k"], "errno": errno_nr(n2), "errname": n2, "call": c["name"], "phase": c["phase"]}))
    with ThreadPoolExecutor(max_workers=8) as ex:
        runs += list(ex.map(exec_item, pairs))
    plan += pairs
    # wall-clock: a window cut short by the tracer's time limit is never a verdict (it is listed as
    # incomplete); to keep the coverage under load such a run is repeated ALONE with a >= 5x limit
    trips = []
    for n, (it, r) in enumerate(zip(plan, runs)):
        if window(r)[2] == "complete":
            continue
        for _ in range(2):
            r2 = exec_item(it, limit=max(125, 125 * SJ.load_factor()))
            if window(r2)[2] == "complete":
                runs[n] = r2
                trips.append({"scenario": it["scenario"], "k": it["k"], "errno": it.get("errname")})
                break
    chk.extra["wall_clock_trips_not_reproduced"] = trips
    # 3. trace for TLC
    trace, meta = [], {}
    incomplete = []
    not_hit = 0
    for n, (it, r) in enumerate(zip(plan, runs)):
        evs, calls, status, injected, fm = window(r)
        it["status"] = status
        if it["k"] is not None and injected is None:
            not_hit += 1
        if status != "complete":
            incomplete.append({"scenario": it["scenario"], "k": it["k"], "errno": it.get("errname"), "status": status,
                               "rc": r["rc"], "stderr": r["stderr"][-200:]})
            continue
        for e in evs:
            if e["ev"] in ("begin", "end"):
                e["run"] = n
        trace += evs
        meta[n] = (it, evs, calls, injected, r)
        try:
            os.unlink(r["log"]) if it["k"] is not None else None
        except OSError:
            pass
    # anti-vacuity: three synthetic windows that break one obligation each must be reported
    CANARY = 10 ** 6
    trace += [
        {"ev": "begin", "run": CANARY + 1, "pre": [0, 1, 2], "owned": []}, {"ev": "create", "fds": [3], "call": "socket"},
        {"ev": "return", "res": "err", "handed": [], "exact": True, "snap": [0, 1, 2, 3]}, {"ev": "end", "run": CANARY + 1, "snap": [0, 1, 2, 3]},
        {"ev": "begin", "run": CANARY + 2, "pre": [0, 1, 2], "owned": []}, {"ev": "create", "fds": [3], "call": "socket"},
        {"ev": "close", "fd": 3}, {"ev": "close", "fd": 3},
        {"ev": "return", "res": "err", "handed": [], "exact": True, "snap": [0, 1, 2]}, {"ev": "end", "run": CANARY + 2, "snap": [0, 1, 2]},
        {"ev": "begin", "run": CANARY + 3, "pre": [0, 1, 2, 3], "owned": []}, {"ev": "close", "fd": 3},
        {"ev": "return", "res": "ok", "handed": [], "exact": True, "snap": [0, 1, 2]}, {"ev": "end", "run": CANARY + 3, "snap": [0, 1, 2]},
    ]
    path = os.path.join(chk.work, "fdtable_trace_%s.ndjson" % tier)
    core.write_ndjson(path, trace)
    res = core.run_tlc("FdTableTrace.tla", "FdTableTrace.cfg", workers=1, env={"TRACE": path}, timeout=1800, xmx="4g", deque=True)
    core.tlc_must_pass(res, "FdTableTrace")
    chk.add_tlc(res)
    verdicts = {w["run"]: w for w in res.printed("W")}
    canary = {n: verdicts.pop(n, {"bad": []})["bad"] for n in (CANARY + 1, CANARY + 2, CANARY + 3)}
    if canary != {CANARY + 1: ["Leak"], CANARY + 2: ["DoubleClose"], CANARY + 3: ["ForeignClose"]}:
        raise core.ToolError("FdTableTrace did not report the synthetic violations: %s" % canary)
    chk.extra["synthetic_windows_rejected"] = 3
    if not res.printed("DONE") or len(verdicts) != len(meta):
        raise core.ToolError("FdTableTrace consumed %d of %d windows: %s" % (len(verdicts), len(meta), res.out[-1500:]))
    chk.traces = len(verdicts)
    chk.evaluations = len(plan)
    nontrivial = set()
    drift = []
    for n, w in sorted(verdicts.items()):
        it, evs, calls, injected, r = meta[n]
        bad = sorted(set(w["bad"]) | set(w["snapbad"]))
        if w["drift"]:
            drift.append({"scenario": it["scenario"], "k": it["k"], "model_open": w["open"]})
        if it["k"] is not None and injected is not None:
            nontrivial.add((it["scenario"], it["k"], it["errname"], json.dumps(it.get("second")), it.get("prior")))
        fname, nth = (None, 0) if it["k"] is None else nth_of(dry[it["scenario"]][2], it["k"])
        for kind in bad:
            sig = {"scenario": it["scenario"], "kind": kind, "fail_call": fname or "none", "fail_nth": nth,
                   "phase": it.get("phase") or "none"}
            if it.get("second"):
                sig["second_call"] = it["second"]["call"]
            if it.get("prior"):
                sig["prior"] = "closed_" + it["prior"]
            ret = [e for e in evs if e["ev"] == "return"][0]
            chk.violate(sig, "%s: %s with %s -> result %s, table %s -> %s at return -> %s after drop (handed %s)" % (
                it["scenario"], kind,
                "no fault" if it["k"] is None else "call %d (%s #%d%s) answering %s" % (
                    it["k"], fname, nth, ", while the result is dropped" if it.get("phase") == "drop" else "", it["errname"])
                + (" and then call %d (%s) failing with %s" % (it["second"]["k"], it["second"]["call"], it["second"]["errname"]) if it.get("second") else "")
                + (" [descriptors %s closed beforehand]" % it["prior"] if it.get("prior") else ""),
                ret["res"], evs[0]["pre"], ret["snap"], evs[-1]["snap"], ret["handed"]),
                {"scenario": it["scenario"], "k": it["k"], "errno": it["errno"], "value": it.get("value"), "second": it.get("second"),
                 "prior": it.get("prior"), "events": evs})
        if n % 37 == 0:
            chk.sample({"scenario": it["scenario"], "fail_call_index": it["k"], "fail_call": fname, "errno": it.get("errname"),
                        "calls": [c["name"] for c in calls], "broken": bad})
    # algorithm-level conformance (never a verdict): FdOps vectors vs the recorded runs
    results = {}
    for n, w in verdicts.items():
        it, evs, calls, injected, r = meta[n]
        if it.get("prior") or it.get("second"):
            continue
        if it["k"] is not None and (injected is None or it.get("errname") != TYPICAL.get(it.get("call"), "EINVAL")
                                    or it.get("phase") == "drop" or it.get("second") or it.get("prior")):
            continue
        leak = "Leak" in w["bad"] or "Leak" in w["snapbad"]
        results[(it["scenario"], it["k"])] = (leak, injected["closes_after"] if injected else 0, it.get("errname"))
    compared, divergences = conformance(fixed_vecs, dry, results)
    chk.extra["model_conformance"] = not divergences
    chk.extra["algorithm_model"] = {"programs": sorted({v["prog"] for v in fixed_vecs}), "failure_positions": len(fixed_vecs),
                                    "compared_with_real_runs": compared, "divergences": divergences[:10],
                                    "pinned_tree_leaks_predicted": sorted({"%s@%s" % (v["prog"], "input" if v["input"] else ("success" if not v["failstep"] else "%s#k%d" % (v["calls"][v["failstep"] - 1], v["k"])))
                                                                           for v in pinned_vecs if v["leaked"]})}
    if divergences:
        core.log("model drift (FdOps vs real runs), not a verdict:", json.dumps(divergences[:3]))
    chk.nontrivial = len(nontrivial)
    chk.exhaustive = True
    chk.rule = ("%d scenarios (public descriptor-creating operations of tiny-std fs/net/process/epoll/passwd/openpty and rusl "
                "io_uring set-up, incl. invalid arguments) x every system call k the operation issues before it returns x %s; one traced "
                "process per (scenario, k, errno); every window is replayed by TLC through FdTable.tla (FdTableTrace) and, independently, "
                "judged on the /proc/<pid>/fd snapshots. non-trivial = distinct (scenario, k, errno) whose fault was actually delivered"
                % (len(scens), "the call's typical errno and every errno the operation's source special-cases (Errno::E.. in its files), also for the calls issued while the caller drops the result" if tier == "quick" else "every errno 1..133 for the calls of the operation; typical + EMFILE, ENOMEM, EINTR, EACCES for the calls of the drop phase"))
    chk.assumptions = [
        "faults are injected at the system-call boundary of the main task only (parent side; the forked child of spawn belongs to C13)",
        "a failing close still releases the descriptor (Linux semantics): close is executed and only its result is overwritten",
        "Stdio::RawFd is read as passing ownership of the descriptor to spawn (the lenient reading: otherwise every use is a foreign close)",
        "values whose descriptors the API does not expose (Directory, listeners, EpollDriver) are judged after the driver dropped them",
        "not reached: descriptors received via SCM_RIGHTS (C16), io_uring registered files, the child side of spawn (C13)",
    ]
    chk.extra.update({"scenarios": len(scens), "scenarios_skipped": skipped, "scenarios_with_sampled_fault_positions": sampled, "plan_items": len(plan), "windows_judged": len(verdicts),
                      "faults_not_delivered": not_hit, "incomplete_windows": incomplete[:20], "incomplete_count": len(incomplete),
                      "model_vs_proc_drift": drift[:10], "model_checking": mc,
                      "calls_per_scenario": {s: [c["name"] + ("" if c["phase"] == "op" else "(drop)") for c in dry[s][2]] for s in scens}})
    if drift:
        core.log("note: %d windows where the syscall-derived table differs from /proc (judged on both)" % len(drift))
    return chk.finish()


def replay(path):
    rp = json.load(open(path))["replay"]
    chk = core.Check("C12", "quick", "model_checking")
    SJ.build_tracer()
    bindir = core.cargo_build(bins=["fdops"])
    r = run_one(chk, bindir, rp["scenario"], rp["k"], rp["errno"], "replay", value=rp.get("value"), second=rp.get("second"), prior=rp.get("prior"))
    evs, calls, status, injected, fm = window(r)
    print("replayed:", rp["scenario"], "k=%s errno=%s" % (rp["k"], rp["errno"]), "status", status)
    for e in evs:
        if e["ev"] in ("begin", "end"):
            e["run"] = 1
        print("  ", json.dumps(e))
    if status == "complete":
        path = os.path.join(chk.work, "fdtable_trace_replay.ndjson")
        core.write_ndjson(path, evs)
        res = core.run_tlc("FdTableTrace.tla", "FdTableTrace.cfg", workers=1, env={"TRACE": path}, timeout=300, xmx="1g")
        for w in res.printed("W"):
            print("FdTableTrace verdict: broken obligations %s, on /proc snapshot %s" % (w["bad"], w["snapbad"]))
    return 0


def selftest():
    return SJ.selftest_seeded("C12")
