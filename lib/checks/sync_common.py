"""Shared machinery of C01 (Mutex) and C02 (RwLock): instrument I1 (harness bin `sched`),
B1 transition-tour replay of TLC state graphs, B2 judging of recorded traces by TLC
(specs/SyncTrace.tla), model-guided replay of counterexamples."""
import collections
import json
import os
import re
import time

from vlib import core

JVM_OPTS = "-XX:ParallelGCThreads=2 -XX:TieredStopAtLevel=1"

# ---------------------------------------------------------------------------------------------
# TLA+ value parser (state labels of `tlc -dump dot`)
# ---------------------------------------------------------------------------------------------
_TOK = re.compile(r'\s*(<<|>>|\|->|:>|@@|[{}\[\](),]|"(?:[^"\\]|\\.)*"|-?\d+|[A-Za-z_][A-Za-z0-9_]*)')


def _tokens(s):
    pos = 0
    out = []
    while pos < len(s):
        m = _TOK.match(s, pos)
        if not m:
            if s[pos:].strip() == "":
                break
            raise ValueError("cannot tokenise TLA value at %r" % s[pos:pos + 30])
        out.append(m.group(1))
        pos = m.end()
    return out


def _parse(toks, i):
    t = toks[i]
    if t == "<<":
        i += 1
        xs = []
        while toks[i] != ">>":
            v, i = _parse(toks, i)
            xs.append(v)
            if toks[i] == ",":
                i += 1
        return xs, i + 1
    if t == "{":
        i += 1
        xs = []
        while toks[i] != "}":
            v, i = _parse(toks, i)
            xs.append(v)
            if toks[i] == ",":
                i += 1
        return sorted(xs, key=repr), i + 1
    if t == "[":
        i += 1
        d = {}
        while toks[i] != "]":
            k = toks[i]
            assert toks[i + 1] == "|->", toks[i:i + 3]
            v, i = _parse(toks, i + 2)
            d[k] = v
            if toks[i] == ",":
                i += 1
        return d, i + 1
    if t == "(":
        i += 1
        d = {}
        while toks[i] != ")":
            k, i = _parse(toks, i)
            assert toks[i] == ":>"
            v, i = _parse(toks, i + 1)
            d[k] = v
            if toks[i] == "@@":
                i += 1
        return d, i + 1
    if t.startswith('"'):
        return t[1:-1], i + 1
    if t == "TRUE":
        return True, i + 1
    if t == "FALSE":
        return False, i + 1
    if re.match(r"-?\d+$", t):
        return int(t), i + 1
    return t, i + 1


def parse_value(s):
    toks = _tokens(s)
    v, i = _parse(toks, 0)
    return v


def parse_state(label, want=None):
    """label: '/\\ a = 1\n/\\ b = <<...>>' -> dict"""
    d = {}
    for part in re.split(r"(?:^|\n)/\\ ", label):
        if not part.strip():
            continue
        k, _, v = part.partition(" = ")
        k = k.strip()
        if want is None or k in want:
            d[k] = parse_value(v.replace("\n", " "))
    return d


class Graph:
    def __init__(self, path):
        self.label = {}
        self.edges = []          # (src, dst, action label)
        self.out = collections.defaultdict(list)   # src -> [edge index]
        self.init = None
        self._state = {}
        node_re = re.compile(r'^(-?\d+) \[label="((?:[^"\\]|\\.)*)"(.*)\]\s*;?\s*$')
        edge_re = re.compile(r'^(-?\d+) -> (-?\d+) \[label="([^"]*)"')
        with open(path) as f:
            for line in f:
                m = edge_re.match(line)
                if m:
                    e = (m.group(1), m.group(2), m.group(3))
                    self.out[e[0]].append(len(self.edges))
                    self.edges.append(e)
                    continue
                m = node_re.match(line)
                if m:
                    nid = m.group(1)
                    if nid not in self.label:
                        self.label[nid] = m.group(2).replace('\\"', '"').replace("\\n", "\n").replace("\\\\", "\\")
                    if "filled" in m.group(3) and self.init is None:
                        self.init = nid
        if self.init is None:
            raise core.ToolError("no initial state in " + path)

    def state(self, nid, want=None):
        s = self._state.get(nid)
        if s is None:
            s = parse_state(self.label[nid], want)
            self._state[nid] = s
        return s

    def bfs_parents(self):
        par = {self.init: None}
        dq = collections.deque([self.init])
        while dq:
            u = dq.popleft()
            for ei in self.out.get(u, ()):
                v = self.edges[ei][1]
                if v not in par:
                    par[v] = ei
                    dq.append(v)
        return par

    def path_to(self, par, nid):
        p = []
        while par[nid] is not None:
            ei = par[nid]
            p.append(ei)
            nid = self.edges[ei][0]
        p.reverse()
        return p


def transition_tour(g, max_paths=None, max_steps=None, only=None):
    """Paths (lists of edge indices) from the initial state that together cover every edge
    (or as many as the budgets allow).  Each path walks from the initial state, takes an uncovered
    edge whenever the current node has one and otherwise heads for the nearest node that still has
    one (distance map by reverse BFS, refreshed as coverage grows), until nothing uncovered is
    reachable any more.  Returns (paths, covered_edge_count, edge_count)."""
    par = g.bfs_parents()
    n_edges = len(g.edges)
    uncovered = [g.edges[i][0] in par and (only is None or i in only) for i in range(n_edges)]
    total = sum(uncovered)
    n_unc = total
    rev = collections.defaultdict(list)
    for i, e in enumerate(g.edges):
        rev[e[1]].append(e[0])

    def dist_map():
        dist = {}
        dq = collections.deque()
        for i, e in enumerate(g.edges):
            if uncovered[i] and e[0] not in dist:
                dist[e[0]] = 0
                dq.append(e[0])
        while dq:
            v = dq.popleft()
            for u in rev.get(v, ()):
                if u not in dist:
                    dist[u] = dist[v] + 1
                    dq.append(u)
        return dist

    paths = []
    steps = 0
    dist = dist_map()
    since = 0
    while n_unc > 0:
        if max_paths is not None and len(paths) >= max_paths:
            break
        if max_steps is not None and steps >= max_steps:
            break
        if since > max(20, total // 40):
            dist = dist_map()
            since = 0
        cur = g.init
        p = []
        new = 0
        seen_nodes = 0
        while True:
            outs = g.out.get(cur, ())
            nxt = None
            for x in outs:
                if uncovered[x]:
                    nxt = x
                    break
            if nxt is None:
                best = None
                for x in outs:
                    d = dist.get(g.edges[x][1])
                    if d is not None and (best is None or d < best[0]):
                        best = (d, x)
                if best is None:
                    break
                nxt = best[1]
            else:
                uncovered[nxt] = False
                n_unc -= 1
                new += 1
            p.append(nxt)
            cur = g.edges[nxt][1]
            seen_nodes += 1
            if seen_nodes > 5000:
                break
        if new == 0:
            if since == 0:
                break  # fresh map and still nothing new: the rest is unreachable
            dist = dist_map()
            since = 0
            continue
        paths.append(p)
        steps += len(p)
        since += new
    return paths, total - n_unc, total


# ---------------------------------------------------------------------------------------------
# harness
# ---------------------------------------------------------------------------------------------
def run_sched(bindir, mode, arg_path, timeout=1200):
    p = core.run_cmd([os.path.join(bindir, "sched"), mode, arg_path], timeout=timeout, check=False)
    if p.returncode != 0:
        raise core.ToolError("sched %s failed rc=%s: %s" % (mode, p.returncode, p.stderr[-2000:]))
    runs = []
    cur = None
    info = {}
    for line in p.stdout.splitlines():
        e = json.loads(line)
        ev = e["ev"]
        if ev == "reset":
            cur = {"reset": e, "events": [], "end": None}
            runs.append(cur)
        elif ev == "explored":
            info = e
        elif ev == "end":
            cur["end"] = e
        else:
            cur["events"].append(e)
    for r in runs:
        if r["end"] is None:
            raise core.ToolError("sched %s: run %s has no end event" % (mode, r["reset"].get("run")))
    return runs, info


JUDGE_KEEP = {"ev", "t", "fn", "ok", "loc", "ord", "os", "of", "res", "woken", "kind", "run", "blocked", "cut", "cause",
              "try_ok", "get_mut", "into_inner", "fact", "compiles", "n"}


def judge_runs(chk, runs, tag, batch=150000):
    """B2: all runs through specs/SyncTrace.tla.  Returns {run index in `runs`: violation record}."""
    verdicts = {}
    i = 0
    part = 0
    while i < len(runs):
        path = os.path.join(chk.work, "judge_%s_%d.ndjson" % (tag, part))
        n_ev = 0
        first = i
        linemap = []
        start = {}
        with open(path, "w") as f:
            while i < len(runs) and (n_ev < batch or i == first):
                r = runs[i]
                evs = [dict(r["reset"], run=i)] + r["events"] + [r["end"]]
                start[i] = len(linemap) + 1      # 1-based line of the reset event
                for e in evs:
                    f.write(json.dumps({k: v for k, v in e.items() if k in JUDGE_KEEP}, separators=(",", ":")) + "\n")
                    linemap.append(i)
                n_ev += len(evs)
                i += 1
        res = core.run_tlc("SyncTrace.tla", "SyncTrace.cfg", workers=1, env={"TRACE": path, "JAVA_TOOL_OPTIONS": JVM_OPTS},
                           timeout=3000, xmx="4g", xss="256m")
        core.tlc_must_pass(res, "SyncTrace " + tag)
        j = res.printed("JUDGED")
        if len(j) != 1 or j[0]["events"] != n_ev or j[0]["runs"] != i - first:
            raise core.ToolError("SyncTrace did not judge all of %d events / %d runs: %s" % (n_ev, i - first, res.out[-1500:]))
        chk.add_tlc(res)
        chk.extra["tlc_states_trace_judging"] = chk.extra.get("tlc_states_trace_judging", 0) + res.distinct
        j = j[0]
        for b in j["bad"]:
            b["index"] = b["line"] - start[b["run"]] - 1   # index into runs[run]["events"] (len = the end event)
            verdicts[b["run"]] = b
        if j["nviol"] > len(j["bad"]):
            chk.extra["violating_runs_not_listed"] = chk.extra.get("violating_runs_not_listed", 0) + j["nviol"] - len(j["bad"])
        chk.extra["runs_cut_by_step_bound"] = chk.extra.get("runs_cut_by_step_bound", 0) + j["cut"]
        chk.traces += (i - first) - j["nviol"]
        part += 1
    return verdicts


def report_violations(chk, lock, runs, verdicts, source):
    for ri, b in sorted(verdicts.items()):
        r = runs[ri]
        progs = r["reset"]["progs"]
        t = b.get("t", 0)
        upto = r["events"][:b["index"] + 1]
        cur = {}          # thread -> call it is inside / acquired its guard with
        for e in upto:
            if e["ev"] == "call" and e["fn"] != "unlock":
                cur[e["t"]] = e["fn"]
        fn = cur.get(t, "")
        if b["code"] in ("lost_wakeup", "deadlock_with_holder"):
            fn = "+".join(sorted({cur.get(x, "?") for x in r["end"]["blocked"]}))
        sig = {"lock": lock, "code": b["code"], "op": fn}
        what = "%s %s: %s (threads=%d progs=%s, source=%s, %d events)" % (
            lock, b["code"], describe(b["code"], fn, r), len(progs), json.dumps(progs, separators=(",", ":")), source, len(r["events"]))
        if r.get("static"):
            ev = r["events"][0]
            chk.violate({"lock": lock, "code": b["code"], "op": "static:" + r["static"]},
                        "%s %s: `%s` %s against tiny_std::sync (std::sync: the opposite) %s" % (
                            lock, b["code"], r["static"], "compiles" if ev["compiles"] else "does not compile", "; ".join(ev.get("errors", []))),
                        {"mode": "static", "fact": r["static"], "compiles": ev["compiles"], "errors": ev.get("errors", [])})
            continue
        if r.get("probe"):
            chk.violate(dict(sig, op="probe:%s:%s" % (r["probe"], fn)), what,
                        {"mode": "probe", "scenario": r["probe"], "code": b["code"], "trace": r["events"], "end": r["end"]})
            continue
        chk.violate(sig, what, {"kind": lock, "progs": progs, "sched": r["end"]["sched"], "code": b["code"],
                                "source": source, "trace": r["events"][-60:], "end": r["end"],
                                "release_build": "release build" in source})


def describe(code, fn, r):
    return {
        "exclusion": "a guard was handed out by %s while an excluding guard existed" % fn,
        "race": "an access through the guard does not happen-after the previous conflicting access (orderings as passed by the code)",
        "try_dishonest": "try_lock returned None although nobody held the mutex during the call (or: the quiescent lock could not be taken after the run although no guard is outstanding)",
        "try_blocks": "%s called FUTEX_WAIT" % fn,
        "lost_wakeup": "run ended with thread(s) %s parked in FUTEX_WAIT inside %s, every other thread finished and no guard outstanding" % (r["end"]["blocked"], fn),
        "deadlock_with_holder": "run ended with thread(s) %s inside %s that never returned while a holder that would release exists (real futex, SCHED_FIFO on one cpu: the waiter never parks and starves the holder; or all parked)" % (r["end"]["blocked"], fn),
        "panic": "a lock operation panicked: %s" % next((e.get("msg") for e in r["events"] if e["ev"] == "panic"), ""),
        "unbounded_spin": "%s re-reads the unchanged lock word >= 4096 times in a row without ever parking (a holder that is not scheduled meanwhile is starved: SCHED_FIFO on one CPU never returns)" % fn,
        "data_lost": "get_mut / into_inner on the quiescent lock do not deliver the value the write accesses left",
        "access_without_guard": "harness accessed data without a guard",
    }.get(code, code)


# ---------------------------------------------------------------------------------------------
# B1: replay of model paths
# ---------------------------------------------------------------------------------------------
LABEL = re.compile(r"^(\w+)\(([\d, ]*)\)$")


def split_label(lbl):
    m = LABEL.match(lbl)
    if not m:
        return lbl, []
    return m.group(1), [int(x) for x in m.group(2).split(",") if x.strip()]


class Binding:
    """Per-lock knowledge the replay needs: how an edge label becomes a schedule step, what
    event it must produce, how a model state projects on what the harness can observe."""
    kind = "mutex"

    def step(self, g, edge):
        raise NotImplementedError

    def expect(self, g, edge):
        raise NotImplementedError

    def project(self, state):
        raise NotImplementedError


def track_guards(held, unl, e):
    """guard projection from the recorded events: a guard exists from the return of the acquiring
    call to the first operation of its drop (the model drops it at that operation)."""
    ev = e["ev"]
    # Debug formatting of the lock: an internal guard from its successful CAS to its releasing swap
    if ev == "call" and e["fn"] == "debug":
        unl.add(("dbg", e["t"]))
    elif ev == "ret" and e["fn"] == "debug":
        unl.discard(("dbg", e["t"]))
        held.pop(e["t"], None)
    elif "t" in e and ("dbg", e["t"]) in unl:
        if ev == "cas" and e.get("ok"):
            held[e["t"]] = "w"
        elif ev == "swap" and e.get("new") == 0:
            held.pop(e["t"], None)
    elif ev == "ret" and e.get("ok") and e["fn"] not in ("unlock",):
        held[e["t"]] = "r" if e["fn"] in ("read", "try_read") else "w"
    elif ev == "call" and e["fn"] == "unlock":
        unl.add(e["t"])
    elif "t" in e and e["t"] in unl and ev not in ("call", "ret"):
        unl.discard(e["t"])
        held.pop(e["t"], None)


def compare_run(bind, g, path, run):
    """Step-by-step comparison of one replayed path.  Returns (None, ords) or (divergence dict, ords)."""
    ords = {}
    if run["end"].get("diverged"):
        d = run["end"]["diverged"]
        k = d["k"]
        return {"k": k, "edge": g.edges[path[k]][2] if k < len(path) else None, "why": "schedule not enabled: " + d["why"]}, ords
    groups = {}
    k = -1
    held, unl = {}, set()
    snaps = {}
    for e in run["events"]:
        if "k" in e:
            k = e["k"]
            groups[k] = e
        elif "w" in e:
            break  # first operation after the followed prefix (run finished by the default policy)
        track_guards(held, unl, e)
        if k >= 0:
            snaps[k] = (dict(held),)
    for k, ei in enumerate(path):
        src, dst, lbl = g.edges[ei]
        e = groups.get(k)
        if e is None:
            return {"k": k, "edge": lbl, "why": "no event recorded for this step"}, ords
        exp = bind.expect(g, g.edges[ei])
        for f, v in exp.items():
            if f.startswith("_"):
                continue
            if e.get(f) != v:
                return {"k": k, "edge": lbl, "why": "event field %s=%r, model expects %r" % (f, e.get(f), v), "event": e}, ords
        proj = bind.project(g.state(dst))
        got_w = e.get("w")
        got_q = [sorted(x) for x in e.get("q", [])]
        while len(got_w) < len(proj["w"]):
            got_w.append(0)
            got_q.append([])
        if got_w != proj["w"]:
            return {"k": k, "edge": lbl, "why": "lock word(s) %r after the step, model has %r" % (got_w, proj["w"]), "event": e}, ords
        if got_q != proj["q"]:
            return {"k": k, "edge": lbl, "why": "parked sets %r after the step, model has %r" % (got_q, proj["q"]), "event": e}, ords
        h = snaps[k][0]
        got_g = [sorted(t for t in h if h[t] == "r"), sorted(t for t in h if h[t] == "w")]
        if got_g != proj["g"]:
            return {"k": k, "edge": lbl, "why": "guards %r after the step, model has %r" % (got_g, proj["g"]), "event": e}, ords
        name = exp.get("_site")
        if name:
            o = (e["os"], e["of"]) if e["ev"] == "cas" else (e.get("ord"), "Relaxed")
            ords.setdefault(name, set()).add(o)
    return None, ords


def conform_runs(bind, g, runs):
    """impl -> model: walk TLC's dumped state graph along executions that were NOT generated from it
    (DFS / random exploration of the real code with the same programs and budgets): every recorded step
    must be an edge of the graph with the same operation, operands, result and projected state.
    Returns (number of runs inside the model, first run that leaves it or None)."""
    inside = 0
    first_bad = None
    by_thread = {}
    for nid, outs in g.out.items():
        pass
    for ri, r in enumerate(runs):
        node = g.init
        held, unl = {}, set()
        steps = [i for i, e in enumerate(r["events"]) if "w" in e]
        ok = True
        for si, i in enumerate(steps):
            e = r["events"][i]
            j = steps[si + 1] if si + 1 < len(steps) else len(r["events"])
            for x in r["events"][(steps[si - 1] + 1 if si else 0):i]:
                track_guards(held, unl, x)
            track_guards(held, unl, e)
            h2, u2 = dict(held), set(unl)
            for x in r["events"][i + 1:j]:
                track_guards(h2, u2, x)
            got_g = [sorted(t for t in h2 if h2[t] == "r"), sorted(t for t in h2 if h2[t] == "w")]
            nxt = None
            for ei in g.out.get(node, ()):
                edge = g.edges[ei]
                name, a = split_label(edge[2])
                if not a or a[0] != e["t"]:
                    continue
                exp = bind.expect(g, edge)
                if any(e.get(f) != v for f, v in exp.items() if not f.startswith("_")):
                    continue
                proj = bind.project(g.state(edge[1]))
                gw = list(e.get("w", []))
                gq = [sorted(x) for x in e.get("q", [])]
                while len(gw) < len(proj["w"]):
                    gw.append(0)
                    gq.append([])
                if gw == proj["w"] and gq == proj["q"] and got_g == proj["g"]:
                    nxt = edge[1]
                    break
            if nxt is None:
                ok = False
                if first_bad is None:
                    first_bad = {"run": ri, "event_index": i, "event": {k: v for k, v in e.items() if k not in ("w", "q")},
                                 "model_edges_here": [g.edges[x][2] for x in g.out.get(node, ())][:12]}
                break
            node = nxt
        if ok:
            inside += 1
    return inside, first_bad


CONF_KEEP = {"ev", "t", "cause", "w", "q", "progs", "sp", "run"}


def conform_tlc(chk, prefix, runs, batch=150000):
    """B2, algorithm level: runs through specs/<prefix>Trace.tla.  Returns {run index: event index the
    model could not follow}."""
    bad = {}
    extra_bad = 0
    i = 0
    part = 0
    while i < len(runs):
        path = os.path.join(chk.work, "conf_%d.ndjson" % part)
        n_ev = 0
        first = i
        start = {}
        order = []
        with open(path, "w") as f:
            while i < len(runs) and (n_ev < batch or i == first):
                r = runs[i]
                evs = [dict(r["reset"], run=i)] + r["events"]
                start[i] = n_ev + 1
                order.append(i)
                for e in evs:
                    f.write(json.dumps({k: v for k, v in e.items() if k in CONF_KEEP}, separators=(",", ":")) + "\n")
                n_ev += len(evs)
                i += 1
        res = core.run_tlc("%sTrace.tla" % prefix, "%sTrace.cfg" % prefix, workers=1, env={"TRACE": path, "JAVA_TOOL_OPTIONS": JVM_OPTS},
                           timeout=3000, xmx="4g", xss="256m")
        core.tlc_must_pass(res, "%sTrace" % prefix)
        j = res.printed("CONF")
        if len(j) != 1 or j[0]["events"] != n_ev or j[0]["runs"] != i - first:
            raise core.ToolError("%sTrace did not walk all of %d events / %d runs: %s" % (prefix, n_ev, i - first, res.out[-1500:]))
        chk.add_tlc(res)
        chk.extra["tlc_states_trace_judging"] = chk.extra.get("tlc_states_trace_judging", 0) + res.distinct
        for b in j[0]["bad"]:
            ri = order[b["run"] - 1]
            bad[ri] = b["line"] - start[ri] - 1
        extra_bad += j[0]["nbad"] - len(j[0]["bad"])
        part += 1
    return bad, extra_bad


def replay_paths(chk, bindir, bind, g, paths, progs, tag):
    plans = os.path.join(chk.work, "plans_%s.ndjson" % tag)
    with open(plans, "w") as f:
        for i, p in enumerate(paths):
            sched = [bind.step(g, g.edges[ei]) for ei in p]
            f.write(json.dumps({"run": i, "kind": bind.kind, "progs": progs, "sched": sched, "snap": True}, separators=(",", ":")) + "\n")
    t0 = time.time()
    runs, _ = run_sched(bindir, "replay", plans)
    core.log("replayed %d paths (%d steps) of %s in %.1fs" % (len(paths), sum(map(len, paths)), tag, time.time() - t0))
    if len(runs) != len(paths):
        raise core.ToolError("replay produced %d runs for %d plans" % (len(runs), len(paths)))
    divs = []
    ords = {}
    agreed_steps = 0
    for p, r in zip(paths, runs):
        d, o = compare_run(bind, g, p, r)
        for k, v in o.items():
            ords.setdefault(k, set()).update(v)
        if d is not None:
            d["run"] = r["reset"]["run"]
            divs.append(d)
            agreed_steps += d["k"]
        else:
            agreed_steps += len(p)
    return runs, divs, ords, agreed_steps


def replay_resync(chk, bindir, bind, g, path, progs, tag, max_insert=16):
    """Directed replay of ONE model path into code that may split a model action into several
    operations (or merge two): whenever the wanted step is not enabled, one more plain grant of that
    thread is inserted in front of it and the run is repeated.  Every attempt is a real execution
    (all are returned for judging); the last one followed the path as far as the code allows."""
    sched = [bind.step(g, g.edges[ei]) for ei in path]
    out = []
    for attempt in range(max_insert + 1):
        plans = os.path.join(chk.work, "plans_%s.ndjson" % tag)
        with open(plans, "w") as f:
            f.write(json.dumps({"run": attempt, "kind": bind.kind, "progs": progs, "sched": sched, "snap": True}, separators=(",", ":")) + "\n")
        runs, _ = run_sched(bindir, "replay", plans)
        out += runs
        d = runs[0]["end"].get("diverged")
        if not d:
            break
        k = d["k"]
        if k >= len(sched):
            break
        # the extra operation belongs to the thread's PREVIOUS model step (an action split in two): keep
        # the halves adjacent, i.e. insert right behind that thread's last step before k
        t = sched[k][0]
        j = max([i for i in range(k) if sched[i][0] == t], default=k - 1)
        sched = sched[:j + 1] + [[t]] + sched[j + 1:]
    return out, len(sched) - len(path), not out[-1]["end"].get("diverged")


def dump_graph(chk, module, cfg, tag, workers=8, timeout=900, cwd=core.SPECS, check=True):
    dot = os.path.join(chk.work, "graph_%s.dot" % tag)
    if os.path.exists(dot):
        os.unlink(dot)
    res = core.run_tlc(module, cfg, cwd=cwd, workers=workers, dump=dot, timeout=timeout, xmx="6g",
                       env={"JAVA_TOOL_OPTIONS": "-XX:ParallelGCThreads=4"})
    if check:
        core.tlc_must_pass(res, "%s %s" % (module, cfg))
    return res, Graph(dot)


def shortest_path_to(g, pred):
    """BFS: shortest path from the initial state to a node whose parsed state satisfies pred."""
    par = g.bfs_parents()
    best = None
    for nid in par:
        if pred(nid):
            p = g.path_to(par, nid)
            if best is None or len(p) < len(best):
                best = p
    return best


# ---------------------------------------------------------------------------------------------
# static (type-level) obligations: compile probes
# ---------------------------------------------------------------------------------------------
_PRE = """#![allow(unused, dead_code)]
use std::cell::Cell;
use std::rc::Rc;
use %s::{Mutex, MutexGuard, RwLock, RwLockReadGuard, RwLockWriteGuard};
fn is_send<T: Send>() {}
fn is_sync<T: Sync>() {}
"""
_MUTEX_USAGE = """
fn held(m: &Mutex<Vec<u8>>) -> MutexGuard<'_, Vec<u8>> { m.lock()%(u)s }
fn main() {
    let m = Mutex::new(vec![1u8]);
    { let mut g = held(&m); g.push(2); }
    let g2 = m.try_lock()%(t)s;
    assert_eq!(g2.len(), 2);
    drop(g2);
    let mut m = m;
    m.get_mut()%(u)s.push(3);
    assert_eq!(m.into_inner()%(u)s.len(), 3);
}
"""
_MUTEX_SHARED = """
fn main() {
    let m = Mutex::new(Cell::new(0u32));
    std::thread::scope(|s| {
        for _ in 0..2 { s.spawn(|| { let g = m.lock()%(u)s; g.set(g.get() + 1); }); }
    });
}
"""
_RW_USAGE = """
fn rd(l: &RwLock<Vec<u8>>) -> RwLockReadGuard<'_, Vec<u8>> { l.read()%(u)s }
fn wr(l: &RwLock<Vec<u8>>) -> RwLockWriteGuard<'_, Vec<u8>> { l.write()%(u)s }
fn main() {
    let l = RwLock::new(vec![1u8]);
    { let mut g = wr(&l); g.push(2); }
    { let a = rd(&l); let b = l.try_read()%(t)s; assert_eq!(a.len() + b.len(), 4); }
    let w = l.try_write()%(t)s;
    drop(w);
    let mut l = l;
    l.get_mut()%(u)s.push(3);
    assert_eq!(l.into_inner()%(u)s.len(), 3);
}
"""
_RW_SHARED = """
fn main() {
    let l = RwLock::new(0u32);
    std::thread::scope(|s| {
        s.spawn(|| { let g = l.read()%(u)s; let _ = *g; });
        s.spawn(|| { let mut g = l.write()%(u)s; *g += 1; });
    });
}
"""
# fact -> (property, body or (tiny body, std body), expected to compile)
STATIC_FACTS = {
    "mutex_cell_send": ("C01", "fn main() { is_send::<Mutex<Cell<u32>>>(); }", True),
    "mutex_cell_sync": ("C01", "fn main() { is_sync::<Mutex<Cell<u32>>>(); }", True),
    "mutex_u32_send_sync": ("C01", "fn main() { is_send::<Mutex<u32>>(); is_sync::<Mutex<u32>>(); }", True),
    "mutexguard_u32_sync": ("C01", "fn main() { is_sync::<MutexGuard<'static, u32>>(); }", True),
    "mutex_usage": ("C01", _MUTEX_USAGE, True),
    "mutex_shared_across_threads": ("C01", _MUTEX_SHARED, True),
    "mutex_rc_sync": ("C01", "fn main() { is_sync::<Mutex<Rc<u32>>>(); }", False),
    "mutex_rc_send": ("C01", "fn main() { is_send::<Mutex<Rc<u32>>>(); }", False),
    "mutexguard_cell_sync": ("C01", "fn main() { is_sync::<MutexGuard<'static, Cell<u32>>>(); }", False),
    "mutexguard_send": ("C01", "fn main() { is_send::<MutexGuard<'static, u32>>(); }", False),
    "rwlock_u32_send_sync": ("C02", "fn main() { is_send::<RwLock<u32>>(); is_sync::<RwLock<u32>>(); }", True),
    "rwlock_cell_send": ("C02", "fn main() { is_send::<RwLock<Cell<u32>>>(); }", True),
    "rwreadguard_u32_sync": ("C02", "fn main() { is_sync::<RwLockReadGuard<'static, u32>>(); }", True),
    "rwwriteguard_u32_sync": ("C02", "fn main() { is_sync::<RwLockWriteGuard<'static, u32>>(); }", True),
    "rwlock_usage": ("C02", _RW_USAGE, True),
    "rwlock_shared_across_threads": ("C02", _RW_SHARED, True),
    "rwlock_cell_sync": ("C02", "fn main() { is_sync::<RwLock<Cell<u32>>>(); }", False),
    "rwlock_rc_send": ("C02", "fn main() { is_send::<RwLock<Rc<u32>>>(); }", False),
    "rwlock_rc_sync": ("C02", "fn main() { is_sync::<RwLock<Rc<u32>>>(); }", False),
    "rwreadguard_cell_sync": ("C02", "fn main() { is_sync::<RwLockReadGuard<'static, Cell<u32>>>(); }", False),
    "rwwriteguard_cell_sync": ("C02", "fn main() { is_sync::<RwLockWriteGuard<'static, Cell<u32>>>(); }", False),
    "rwreadguard_send": ("C02", "fn main() { is_send::<RwLockReadGuard<'static, u32>>(); }", False),
    "rwwriteguard_send": ("C02", "fn main() { is_send::<RwLockWriteGuard<'static, u32>>(); }", False),
}


def static_obligations(chk, pid):
    """One `cargo check --bins --keep-going` over a generated crate: per fact a bin against
    tiny_std::sync (t_<fact>) and the same fact against std::sync (s_<fact>, the reference).
    Returns judge-able pseudo runs (one `obl` event each)."""
    import fcntl
    import subprocess
    tdir = os.path.join(core.VERIF, "probe", "syncty")
    inst = os.path.join(core.WORK, "probe_syncty-%s" % core.repo_tag())
    lock = open(os.path.join(core.WORK, ".cargo-syncty-%s.lock" % core.repo_tag()), "w")
    fcntl.flock(lock, fcntl.LOCK_EX)
    try:
        core._instantiate(tdir, inst)
        bdir = os.path.join(inst, "src", "bin")
        os.makedirs(bdir, exist_ok=True)
        facts = {k: v for k, v in STATIC_FACTS.items() if v[0] == pid}
        want = {}
        for fact, (_, body, _) in facts.items():
            # tiny-std's lock() etc. return the guard directly, std's return a LockResult / TryLockResult
            want["t_" + fact] = _PRE % "tiny_std::sync" + (body % {"u": "", "t": ".unwrap()"} if "%(" in body else body)
            want["s_" + fact] = _PRE % "std::sync" + (body % {"u": ".unwrap()", "t": ".unwrap()"} if "%(" in body else body)
        for n in os.listdir(bdir):
            if n[:-3] not in want:
                os.unlink(os.path.join(bdir, n))
        for n, txt in want.items():
            pth = os.path.join(bdir, n + ".rs")
            if not os.path.exists(pth) or open(pth).read() != txt:
                with open(pth, "w") as f:
                    f.write(txt)
        e = dict(os.environ)
        e["CARGO_NET_OFFLINE"] = "true"
        e.pop("RUSTFLAGS", None)
        t0 = time.time()
        p = subprocess.run(["cargo", "check", "--offline", "--bins", "--keep-going", "--message-format=json"], cwd=inst, env=e,
                           stdout=subprocess.PIPE, stderr=subprocess.PIPE, text=True, timeout=1200)
    finally:
        fcntl.flock(lock, fcntl.LOCK_UN)
        lock.close()
    ok, errs = set(), {}
    for line in p.stdout.splitlines():
        try:
            m = json.loads(line)
        except ValueError:
            continue
        tgt = m.get("target", {})
        if "bin" not in tgt.get("kind", []):
            continue
        if m.get("reason") == "compiler-artifact":
            ok.add(tgt["name"])
        elif m.get("reason") == "compiler-message" and m["message"].get("level") == "error":
            code = (m["message"].get("code") or {}).get("code")
            errs.setdefault(tgt["name"], []).append((code, m["message"].get("message", "")[:160]))
    runs = []
    summary = {}
    for fact, (_, _, expect) in facts.items():
        res = {}
        for pre in ("t_", "s_"):
            n = pre + fact
            if n in ok and n not in errs:
                res[pre] = True
            elif n in errs:
                res[pre] = False
            else:
                raise core.ToolError("static obligations: no verdict of cargo for bin %s:\n%s" % (n, p.stderr[-1500:]))
        if res["s_"] != expect:
            raise core.ToolError("static obligations: the expectation for %s (%s) is not what std::sync does (%s): %s" % (
                fact, expect, res["s_"], errs.get("s_" + fact)))
        if not res["t_"] and not expect and not any(c == "E0277" for c, _ in errs["t_" + fact]):
            raise core.ToolError("static obligations: %s is rejected, but not as an unsatisfied trait bound: %s" % (fact, errs["t_" + fact]))
        summary[fact] = {"expected_to_compile": expect, "compiles": res["t_"], "std_reference_compiles": res["s_"]}
        runs.append({"reset": {"ev": "reset", "run": len(runs), "kind": "static", "progs": [["static:" + fact]]},
                     "events": [{"ev": "obl", "t": 0, "fact": fact, "compiles": res["t_"],
                                 "errors": [] if res["t_"] else [x[1] for x in errs["t_" + fact]][:2]}],
                     "end": {"ev": "end", "blocked": [], "done": [], "cut": False, "sched": []}, "static": fact})
    chk.extra["static_obligations"] = summary
    core.log("static obligations: %d facts checked against tiny_std::sync and std::sync in %.1fs" % (len(facts), time.time() - t0))
    return runs


# ---------------------------------------------------------------------------------------------
# the check itself, shared by C01 and C02
# ---------------------------------------------------------------------------------------------
WALL_CLOCK_STRESS_CODES = {"hang", "futex_wake", "futex_wait"}


def wall_scale():
    """Allowance multiplier for the isolated re-confirmation of a wall-clock trip: >= 5, more when the
    machine is oversubscribed."""
    try:
        over = os.getloadavg()[0] / float(os.cpu_count() or 1)
    except OSError:
        over = 1.0
    return min(20, int(5 * max(1.0, over) + 0.999))     # capped: a confirmed hang costs 2 x 20 s x scale


def note_trip(chk, scenario, what):
    n = chk.extra.setdefault("wall_clock_trips_not_reproduced", {"count": 0, "scenarios": []})
    n["count"] += 1
    n["scenarios"].append({"scenario": scenario, "what": what})
    core.log("wall-clock trip NOT reproduced in isolated re-runs (evidence note, no verdict): %s: %s" % (scenario, what))


class LockCheck:
    """Parameters a property supplies:
    pid, lock ("mutex"/"rwlock"), module prefix ("Mutex"/"RwLock"), binding, PROGS (name -> programs),
    DEFAULT_ORD, INVARIANTS, cfg_constants(name,n,progs,budgets,ord_name) lines, bad_state(st) predicate,
    nontrivial(run) predicate, tiers: tours / configs / explore specs."""

    def __init__(self, pid, lock, prefix, bind, progs, default_ord, invariants, budget_names, nontrivial, bad_state, rule, assumptions, all_actions=()):
        self.all_actions = list(all_actions)
        self.pid, self.lock, self.prefix, self.bind = pid, lock, prefix, bind
        self.PROGS, self.DEFAULT_ORD, self.INVARIANTS = progs, default_ord, invariants
        self.budget_names = budget_names
        self.nontrivial_run, self.bad_state = nontrivial, bad_state
        self.rule, self.assumptions = rule, assumptions

    # -- configuration files
    def write_cfg(self, chk, name, n, progs, budgets, ord_name="OrdCode", invariants=True, liveness=True):
        path = os.path.join(chk.work, "%s_%s.cfg" % (self.prefix, name))
        with open(path, "w") as f:
            f.write("CONSTANTS\n  N = %d\n  Progs <- %s\n  Ord <- %s\n" % (n, progs, ord_name))
            for k, v in zip(self.budget_names, budgets):
                f.write("  %s = %d\n" % (k, v))
            f.write("SPECIFICATION Spec\n")
            if invariants:
                f.write("INVARIANTS " + self.INVARIANTS + "\n")
            if liveness:
                f.write("PROPERTY Termination\n")
            f.write("CHECK_DEADLOCK FALSE\n")
        return path

    def write_obs_module(self, chk, ords):
        exc = []
        for site, seen in sorted(ords.items()):
            o = sorted(seen)[0]
            exc.append('!.%s = <<"%s", "%s">>' % (site, o[0], o[1]))
        body = "OrdCode" if not exc else "[OrdCode EXCEPT %s]" % ", ".join(exc)
        with open(os.path.join(chk.work, "%s_Obs.tla" % self.prefix), "w") as f:
            f.write("---- MODULE %s_Obs ----\nEXTENDS %s_MC\nOrdObs == %s\n====\n" % (self.prefix, self.prefix, body))

    def record_config(self, chk, name, n, progs, budgets, res, ord_name):
        chk.extra["tlc_states_model_checking"] = chk.extra.get("tlc_states_model_checking", 0) + res.distinct
        chk.extra.setdefault("model_configs", []).append({
            "config": name, "threads": n, "programs": self.PROGS.get(progs, progs), "budgets": dict(zip(self.budget_names, budgets)),
            "distinct_states": res.distinct, "generated": res.generated, "wall_s": round(res.wall, 1), "orderings": ord_name, "passed": res.ok})

    def model_check(self, chk, name, n, progs, budgets, observed=False, workers=8, timeout=1500, must=True, soft_timeout=None):
        """soft_timeout: a time cap for the big configurations of the thorough tier; hitting it is
        reported in the evidence as 'not completed' (never as exhaustive), it is not a tool error."""
        ord_name = "OrdObs" if observed else "OrdCode"
        cfg = self.write_cfg(chk, name, n, progs, budgets, ord_name)
        module, cwd = ("%s_Obs.tla" % self.prefix, chk.work) if observed else ("%s_MC.tla" % self.prefix, core.SPECS)
        jopts = "-XX:ParallelGCThreads=4"
        if soft_timeout:
            # TLC stops by itself after the cap and still reports its statistics ("N states left on queue")
            jopts += " -Dtlc2.TLC.stopAfter=%d" % soft_timeout
        try:
            res = core.run_tlc(module, cfg, cwd=cwd, workers=workers, timeout=(soft_timeout + 600) if soft_timeout else timeout, xmx="12g",
                               env={"JAVA_TOOL_OPTIONS": jopts})
        except core.ToolError as e:
            if "timed out" in str(e) and not must:
                return None
            raise
        if must:
            core.tlc_must_pass(res, "%s %s" % (self.prefix, name))
        chk.add_tlc(res)
        core.log("TLC %s %s: %d generated, %d distinct, %.1fs, %s" % (self.prefix, name, res.generated, res.distinct, res.wall,
                                                                      "ok" if res.ok else "FAILED " + ",".join(res.invariant_violated)))
        self.record_config(chk, name, n, progs, budgets, res, ord_name)
        m = None
        for m in re.finditer(r"(\d+) states left on queue", res.out):
            pass
        left = int(m.group(1)) if m else 0
        chk.extra["model_configs"][-1]["states_left_on_queue"] = left
        if left:
            chk.extra["model_configs"][-1]["completed"] = False
            chk.extra["model_configs"][-1]["note"] = "bounded by time (%ds): no violation among the states explored, NOT exhaustive" % (soft_timeout or 0)
        return res

    def explore(self, chk, bindir, spec, tag):
        path = os.path.join(chk.work, "explore_%s.json" % tag)
        with open(path, "w") as f:
            json.dump(spec, f)
        mode = spec.get("mode") or ("random" if "runs" in spec else "explore")
        return run_sched(bindir, mode, path, timeout=3000)

    def run(self, tier, tours, configs, configs_if_differs, specs, tour_budget=None, stress=None, rare_tours=(),
            release_specs=(), probe_scenarios=(), directed=()):
        chk = core.Check(self.pid, tier, "model_checking")
        bindir = core.cargo_build(bins=["sched"])
        all_ords, drift, tour_stats = {}, [], []
        actions_confirmed = {}
        graphs = {}
        first_tour = None
        self.nontrivial = 0

        pending = []      # (runs, source): judged together at the end (one JVM start per 150k events)

        def judge_and_report(runs, tag, source):
            for r in runs:
                r["source"] = source
            pending.extend(runs)
            chk.evaluations += len(runs)
            self.nontrivial += sum(1 for r in runs if self.nontrivial_run(r))

        def judge_pending():
            t0 = time.time()
            # the judge lists at most 100 rejected executions per call: the few static / probe / directed
            # executions go first so that a flood of rejected explored runs cannot hide them
            pending.sort(key=lambda r: 0 if r["source"].startswith(("S0 ", "P1 ", "D1 ")) else 1)
            v = judge_runs(chk, pending, "all")
            by_source = {}
            for ri, b in v.items():
                by_source.setdefault(pending[ri]["source"], {})[ri] = b
            for source, vs in by_source.items():
                report_violations(chk, self.lock, pending, vs, source)
            core.log("judged %d executions (%d events) with SyncTrace in %.1fs: %d rejected" % (
                len(pending), sum(len(r["events"]) + 2 for r in pending), time.time() - t0, len(v)))

        # 0. static (type-level) obligations: who may share the lock, a guard, the payload
        judge_and_report(static_obligations(chk, self.pid), "static", "S0 static obligations (cargo check)")

        # 1. exhaustive model checking + dumped state graph of the small configurations; B1 tour
        for name, n, progs, budgets in tours:
            cfg = self.write_cfg(chk, name, n, progs, budgets)
            res, g = dump_graph(chk, "%s_MC.tla" % self.prefix, cfg, "%s_%s" % (self.lock, name))
            chk.add_tlc(res)
            self.record_config(chk, name, n, progs, budgets, res, "OrdCode")
            mp, ms = tour_budget or (None, None)
            graphs[name] = g
            paths, covered, total = transition_tour(g, max_paths=mp, max_steps=ms)
            if first_tour is None:
                first_tour = (name, g, paths, progs)
            runs, divs, ords, agreed = replay_paths(chk, bindir, self.bind, g, paths, self.PROGS[progs], "%s_%s" % (self.lock, name))
            for k, v in ords.items():
                all_ords.setdefault(k, set()).update(v)
            steps = sum(map(len, paths))
            confirmed = set()
            bad_runs = {d["run"]: d["k"] for d in divs}
            for i, p in enumerate(paths):
                confirmed.update(p[:bad_runs.get(i, len(p))])
            for ei in confirmed:
                a = split_label(g.edges[ei][2])[0]
                actions_confirmed[a] = actions_confirmed.get(a, 0) + 1
            tour_stats.append({"config": name, "states": len(g.label), "edges": len(g.edges), "tour_paths": len(paths), "tour_steps": steps,
                               "edges_in_tour": covered, "edges_confirmed_on_real_code": len(confirmed),
                               "edge_coverage": round(len(confirmed) / max(1, len(g.edges)), 4), "divergent_paths": len(divs)})
            core.log("tour %s: %d states %d edges, %d paths %d steps, confirmed %d edges, %d divergent" % (
                name, len(g.label), len(g.edges), len(paths), steps, len(confirmed), len(divs)))
            for d in divs[:3]:
                drift.append({"config": name, **{k: d[k] for k in ("run", "k", "edge", "why")}})
            judge_and_report(runs, "tour_" + name, "B1 tour of %s_MC %s" % (self.prefix, name))
            if len(chk.samples) < 2 and runs:
                chk.sample({"source": "tour " + name, "progs": self.PROGS[progs], "sched": runs[len(runs) // 2]["end"]["sched"]})

        # 1b. actions that no toured graph contains (they need more threads): partial tour of a bigger
        #     graph that covers every edge of exactly those actions
        for name, n, progs, budgets in rare_tours:
            cfg = self.write_cfg(chk, name, n, progs, budgets)
            res, g = dump_graph(chk, "%s_MC.tla" % self.prefix, cfg, "%s_%s" % (self.lock, name))
            chk.add_tlc(res)
            self.record_config(chk, name, n, progs, budgets, res, "OrdCode")
            want = {i for i, e in enumerate(g.edges) if split_label(e[2])[0] not in actions_confirmed}
            cap = 300 if tier == "quick" else 20000
            if len(want) > cap:
                want = set(sorted(want)[:cap])
            paths, covered, total = transition_tour(g, only=want)
            runs, divs, ords, agreed = replay_paths(chk, bindir, self.bind, g, paths, self.PROGS[progs], "%s_%s" % (self.lock, name))
            for k, v in ords.items():
                all_ords.setdefault(k, set()).update(v)
            bad_runs = {d["run"]: d["k"] for d in divs}
            confirmed = set()
            for i, p in enumerate(paths):
                confirmed.update(p[:bad_runs.get(i, len(p))])
            for ei in confirmed:
                a = split_label(g.edges[ei][2])[0]
                actions_confirmed[a] = actions_confirmed.get(a, 0) + 1
            tour_stats.append({"config": name, "partial": "edges of actions absent from the fully toured graphs", "states": len(g.label), "edges": len(g.edges),
                               "edges_wanted": len(want), "tour_paths": len(paths), "tour_steps": sum(map(len, paths)),
                               "edges_confirmed_on_real_code": len(confirmed), "edge_coverage": round(len(confirmed) / max(1, len(g.edges)), 4),
                               "divergent_paths": len(divs)})
            core.log("partial tour %s: %d states %d edges, wanted %d, %d paths, confirmed %d edges, %d divergent" % (
                name, len(g.label), len(g.edges), len(want), len(paths), len(confirmed), len(divs)))
            for d in divs[:3]:
                drift.append({"config": name, **{k: d[k] for k in ("run", "k", "edge", "why")}})
            judge_and_report(runs, "tour_" + name, "B1 partial tour of %s_MC %s" % (self.prefix, name))
        chk.extra["actions_confirmed_by_replay"] = dict(sorted(actions_confirmed.items()))
        chk.extra["actions_never_replayed"] = sorted(set(self.all_actions) - set(actions_confirmed))

        # 2. orderings actually passed by the code -> constants of the model
        observed = {k: sorted(v) for k, v in all_ords.items()}
        differs = {k: v for k, v in observed.items() if set(v) != {tuple(self.DEFAULT_ORD[k])}}
        chk.extra["orderings_observed"] = {k: ["/".join(o) for o in v] for k, v in observed.items()}
        chk.extra["orderings_differ_from_spec_default"] = {k: ["/".join(o) for o in v] for k, v in differs.items()}
        chk.extra["sites_not_observed"] = sorted(set(self.DEFAULT_ORD) - set(observed))
        if differs:
            self.write_obs_module(chk, all_ords)
            core.log("orderings differ from the specification's defaults: %s" % differs)

        # 3. the remaining exhaustive configurations, with the observed orderings
        replayed_cex = False
        for cfgt in (configs_if_differs if differs else []) + configs:
            name, n, progs, budgets = cfgt[:4]
            res = self.model_check(chk, name + ("obs" if differs else ""), n, progs, budgets, observed=bool(differs), must=not differs,
                                   soft_timeout=cfgt[4] if len(cfgt) > 4 else None)
            if res is not None and not res.ok and differs and not replayed_cex and res.distinct < 200000:
                # a counterexample of the MODEL under the code's orderings is never a verdict: find a
                # shortest path to a bad model state and replay it into the real code, B2 decides
                cfg = self.write_cfg(chk, name + "obs_graph", n, progs, budgets, "OrdObs", invariants=False, liveness=False)
                _, g = dump_graph(chk, "%s_Obs.tla" % self.prefix, cfg, "%s_obs_%s" % (self.lock, name), cwd=chk.work, check=True)
                p = shortest_path_to(g, lambda nid: self.bad_state(g.state(nid)))
                if p is None:
                    core.log("model fails under observed orderings but no bad state found in the dumped graph")
                    continue
                runs, divs, _, _ = replay_paths(chk, bindir, self.bind, g, [p], self.PROGS[progs], "%s_cex_%s" % (self.lock, name))
                chk.extra.setdefault("model_counterexamples_replayed", []).append(
                    {"config": name, "length": len(p), "actions": [g.edges[e][2] for e in p], "diverged": bool(divs)})
                judge_and_report(runs, "cex_" + name, "replay of TLC counterexample (%s_MC %s with the observed orderings)" % (self.prefix, name))
                replayed_cex = True

        # 4. systematic exploration of the real code itself (stateless DFS, preemption bound) + random
        explored = []
        for tag, spec in specs:
            spec = dict(spec, seed=chk.seed, kind=self.lock)
            # every compare_exchange_weak the REAL code executes is an environment choice point
            # {behaves as strong, fails spuriously}, at least once per thread, whether or not the
            # model knows a weak CAS at that site (x86 never produces the failure, only the instrument can)
            spec["weak"] = max(1, spec.get("weak", 0))
            gname = spec.pop("graph", None)
            spec["snap"] = True
            spec.setdefault("max_secs", 5 if tier == "quick" else 30)
            runs, info = self.explore(chk, bindir, spec, tag)
            explored.append({"tag": tag, "progs": spec["progs"], "preemption_bound": spec.get("preempt"), "runs": len(runs),
                             "mode": spec.get("mode") or ("random" if "runs" in spec else "dfs"),
                             "complete_within_bound": info.get("complete"), "complete_up_to_preemptions": info.get("complete_up_to"),
                             "state_choice_pairs_covered": info.get("pairs"),
                             "budgets": {k: spec.get(k, 0) for k in ("spur", "eintr", "weak")}})
            if gname and gname in graphs:
                # impl -> model: the explored executions of the real code must be paths of TLC's graph
                inside, bad = conform_runs(self.bind, graphs[gname], runs)
                explored[-1]["runs_inside_model_graph"] = inside
                explored[-1]["model_graph"] = gname
                core.log("explore %s: %d of %d executions are paths of the model graph %s" % (tag, inside, len(runs), gname))
                if bad:
                    drift.append({"config": gname, "source": tag, **bad})
            core.log("explore %s: %d runs, complete=%s (all schedules with <= %s preemptions)" % (tag, len(runs), info.get("complete"), info.get("complete_up_to")))
            judge_and_report(runs, tag, "exploration %s" % tag)
            if runs:
                chk.sample({"source": tag, "progs": spec["progs"], "sched": runs[-1]["end"]["sched"]})

        # 4''. directed schedules from a deliberately WRONG variant of the model: an abstraction the model
        #      makes (e.g. NotifyDistinct: writer_notify is a counter) is replaced by the implementation
        #      it excludes (a toggle); TLC's counterexample of that variant is the schedule on which a real
        #      implementation of that kind loses a wake-up.  Replayed (resynchronising) into the real
        #      code; on code that honours the abstraction the replay simply diverges (expected, not drift).
        for name, n, progs, budgets, override, what in directed:
            cfg = self.write_cfg(chk, name, n, progs, budgets, invariants=False, liveness=False)
            with open(cfg) as f:
                txt = f.read().replace("SPECIFICATION Spec", "  %s\nSPECIFICATION Spec" % override)
            with open(cfg, "w") as f:
                f.write(txt)
            res, g = dump_graph(chk, "%s_MC.tla" % self.prefix, cfg, "%s_dir_%s" % (self.lock, name))
            chk.add_tlc(res)
            p = shortest_path_to(g, lambda nid: self.bad_state(g.state(nid)))
            info = {"variant": override, "what": what, "config": name, "states": res.distinct,
                    "counterexample_length": len(p) if p else None}
            if p:
                runs, inserted, followed = replay_resync(chk, bindir, self.bind, g, p, self.PROGS[progs], "%s_dir_%s" % (self.lock, name))
                info.update({"actions": [g.edges[e][2] for e in p], "attempts": len(runs), "grants_inserted": inserted,
                             "real_code_followed_to_the_end": followed})
                core.log("directed %s (%s): counterexample of %d steps, %d attempts, followed to the end: %s" % (name, override, len(p), len(runs), followed))
                judge_and_report(runs, "dir_" + name, "D1 directed schedule from %s_MC %s with %s" % (self.prefix, name, override))
            chk.extra.setdefault("directed_from_model_variants", []).append(info)

        # 4a. the same real code built WITHOUT debug assertions / overflow checks (profile release): the
        #     first tour again, step by step, selected explorations, a short stress.  Code that only
        #     exists in one profile (debug_assert!(side effect), cfg(debug_assertions)) shows here.
        if release_specs or first_tour:
            t0 = time.time()
            bindir_rel = core.cargo_build(bins=["sched"], release=True)
            rel = {"build_s": round(time.time() - t0, 1)}
            if first_tour:
                name, g, paths, progs = first_tour
                runs, divs, _, _ = replay_paths(chk, bindir_rel, self.bind, g, paths, self.PROGS[progs], "%s_%s_rel" % (self.lock, name))
                rel["tour"] = {"config": name, "paths": len(paths), "divergent_paths": len(divs)}
                core.log("release build: tour %s replayed, %d divergent of %d paths" % (name, len(divs), len(paths)))
                for d in divs[:3]:
                    drift.append({"config": name + " (release build)", **{k: d[k] for k in ("run", "k", "edge", "why")}})
                judge_and_report(runs, "tour_rel", "B1 tour of %s_MC %s (release build)" % (self.prefix, name))
            rel["exploration"] = []
            for tag, spec in release_specs:
                spec = dict(spec, seed=chk.seed, kind=self.lock, snap=True)
                spec.pop("graph", None)
                spec["weak"] = max(1, spec.get("weak", 0))
                spec.setdefault("max_secs", 3 if tier == "quick" else 20)
                runs, info = self.explore(chk, bindir_rel, spec, tag + "_rel")
                rel["exploration"].append({"tag": tag, "runs": len(runs), "complete_within_bound": info.get("complete")})
                core.log("release build: explore %s: %d runs" % (tag, len(runs)))
                judge_and_report(runs, tag + "_rel", "exploration %s (release build)" % tag)
            chk.extra["release_build"] = rel
        else:
            bindir_rel = None

        # 4a'. no-libc probe: tiny-std's OWN threads (thread::spawn, feature `threaded`) with the real locks
        if probe_scenarios:
            runs = self.probe(chk, probe_scenarios)
            judge_and_report(runs, "probe", "P1 no-libc probe syncp")
        judge_pending()

        # 4b. algorithm level: every recorded execution (any programs, up to 4 threads) must be a behaviour
        #     of the algorithm-level specification (<Prefix>Trace.tla); what the model cannot follow is drift
        t0 = time.time()
        # (the tour replays were already compared step by step by B1 and are left out here)
        sel = [r for r in pending if not r["source"].startswith(("B1 ", "P1 ", "S0 ", "D1 "))]
        tot = sum(len(r["events"]) + 1 for r in sel)
        cap = 150000 if tier == "quick" else 1200000
        if tot > cap:
            # an evenly spaced sample keeps the trace validation inside the time budget (the count is reported)
            k = tot // cap + 1
            sel = sel[::k]
        conf_bad, more = conform_tlc(chk, self.prefix, sel)
        nbad = len(conf_bad) + more
        chk.extra["algorithm_level_trace_validation"] = {"executions": len(sel), "accepted": len(sel) - nbad,
                                                         "not_followed_by_model": nbad,
                                                         "scope": "explored executions (DFS, coverage-guided, random); tour replays are compared step by step by B1"}
        core.log("%sTrace: %d of %d executions are behaviours of %s.tla (%.1fs)" % (
            self.prefix, len(sel) - nbad, len(sel), self.prefix, time.time() - t0))
        for ri, where in sorted(conf_bad.items())[:3]:
            r = sel[ri]
            drift.append({"source": r.get("source"), "progs": r["reset"]["progs"], "event_index": where,
                          "event": {k: v for k, v in r["events"][where].items() if k != "site"} if 0 <= where < len(r["events"]) else None,
                          "why": "%sTrace.tla cannot follow this step" % self.prefix})

        # 5. hook-free binding: the real lock on the real kernel futex + FutexSys scenarios, judged by SyncStress.tla
        if stress:
            self.stress(chk, bindir, dict(stress, kind=self.lock, seed=chk.seed))
            if bindir_rel:
                self.stress(chk, bindir_rel, dict(stress, kind=self.lock, seed=chk.seed, scenarios=False,
                                                  sections=max(500, stress["sections"] // 2)), key="real_futex_stress_release_build")
        timed = sum(1 for r in pending for e in r["events"] if e["ev"] == "wait" and e.get("timeout"))
        chk.extra["futex_waits_with_timeout"] = timed
        if timed:
            drift.append({"why": "%d FUTEX_WAIT calls of the lock carry a timeout: the model's waits have none" % timed})
        chk.nontrivial = self.nontrivial
        chk.rule = self.rule
        chk.extra["transition_tour"] = tour_stats
        chk.extra["model_conformance"] = not drift
        if drift:
            chk.extra["model_drift"] = drift
        chk.extra["exploration"] = explored
        chk.exhaustive = False
        chk.assumptions = self.assumptions
        return chk.finish()

    def probe(self, chk, scenarios, release=False):
        """Runs of probe/syncp (one process per scenario) as judge-able executions."""
        d = core.cargo_build(template="probe/syncp", bins=["syncprobe"], release=release)
        runs = []
        import subprocess
        fifo_state = None
        # The SCHED_FIFO-on-one-cpu runs are OPT-IN (VERIF_FIFO=1): a FIFO task of ANOTHER concurrently
        # running check (or mutant) that spins on the same cpu starves them completely - even their
        # SIGKILL - so they cannot be made sound under concurrent evaluation.  The same defect class
        # (a waiter that never parks) is judged in logical time by the controlled scheduler (unbounded_spin).
        if os.environ.get("VERIF_FIFO") != "1":
            if any(sc.endswith("@fifo") for sc in scenarios):
                fifo_state = "not exercised: opt-in with VERIF_FIFO=1 (unsound when other SCHED_FIFO jobs share the machine)"
            scenarios = [sc for sc in scenarios if not sc.endswith("@fifo")]
        todo = [(sc, 1, 0) for sc in scenarios]      # (scenario, allowance scale, re-confirmation round)
        while todo:
            sc, scale, rnd = todo.pop(0)
            fifo = sc.endswith("@fifo")
            if fifo:
                # SCHED_FIFO on ONE cpu: a running thread keeps the cpu until it blocks.  A waiter that
                # parks lets the holder run and release; a waiter that spins for ever starves it.
                cmd = ["chrt", "-f", "10", "taskset", "-c", str(max(0, (os.cpu_count() or 1) - 2)), os.path.join(d, "syncprobe"), sc[:-5], str(scale)]
                pr = subprocess.Popen(cmd, stdout=subprocess.PIPE, stderr=subprocess.PIPE, text=True)
                try:
                    out, err = pr.communicate(timeout=6 * min(scale, 10))
                    timed_out = False
                except subprocess.TimeoutExpired:
                    pr.kill()
                    try:
                        out, err = pr.communicate(timeout=10)
                    except subprocess.TimeoutExpired:
                        # not even the SIGKILL gets through: the cpu is monopolised by somebody else's FIFO job
                        fifo_state = "not exercised: the launcher was starved by another SCHED_FIFO job on the same cpu"
                        subprocess.run(["chrt", "-o", "-p", "0", str(pr.pid)], stdout=subprocess.DEVNULL, stderr=subprocess.DEVNULL)
                        continue
                    timed_out = True
                if not out.strip():
                    fifo_state = "not exercised: the launcher could not start the probe (rc=%s) %s" % (pr.returncode, err[-200:])
                    continue
                fifo_state = "exercised"

                class _P:
                    pass
                p = _P()
                p.stdout, p.stderr, p.returncode = out, err, (0 if timed_out else pr.returncode)
            else:
                timed_out = False
                p = core.run_cmd([os.path.join(d, "syncprobe"), sc, str(scale)], timeout=60 + 12 * scale, check=False)
            evs = []
            for line in p.stdout.splitlines():
                try:
                    evs.append(json.loads(line))
                except ValueError:
                    pass
            evs.sort(key=lambda e: e.get("tk", 0))
            end = [e for e in evs if e["ev"] == "end"]
            if p.returncode in (2, 3):
                raise core.ToolError("syncprobe %s could not run (rc=%s): %s" % (sc, p.returncode, p.stderr[-500:]))
            if timed_out and not end:
                # killed after 6 s: who is inside a blocking acquisition that has not returned?
                inside = {}
                for e in evs:
                    if e["ev"] == "call" and e["fn"] in ("lock", "read", "write"):
                        inside[e["t"]] = True
                    elif e["ev"] == "ret" and e["fn"] in ("lock", "read", "write"):
                        inside.pop(e["t"], None)
                end = [{"ev": "end", "blocked": sorted(inside), "done": [], "cut": False, "starved_holder": True}]
            if not end:
                # the process died (signal / abort) before its end event: data, not a tool error
                evs.append({"ev": "panic", "t": 0, "msg": "probe process ended with status %s before its end event" % p.returncode})
                end = [{"ev": "end", "blocked": [], "done": [], "cut": False}]
            run = {"reset": {"ev": "reset", "run": len(runs), "kind": self.lock, "progs": [["probe:" + sc]]},
                   "events": [e for e in evs if e["ev"] != "end"], "end": dict(end[0], sched=[]), "probe": sc}
            # "did not return within N seconds" is a wall-clock judgement: it only counts when the same
            # scenario, run alone with an allowance >= 5x (more under load), shows it again 2 times of 2
            if end[0].get("blocked"):
                if rnd == 0:
                    todo.insert(0, (sc, wall_scale(), 1))
                    continue
                if rnd == 1:
                    todo.insert(0, (sc, wall_scale(), 2))
                    continue
                run["reconfirmed"] = "blocked again in 2 of 2 isolated re-runs with allowance x%d" % scale
            elif rnd > 0:
                note_trip(chk, "probe/syncp " + sc, "blocking call not back within the limit in the first run, returned in isolated re-run %d (allowance x%d)" % (rnd, scale))
            runs.append(run)
        chk.extra["no_libc_probe"] = {"scenarios": list(scenarios), "runs": len(runs), "sched_fifo_one_cpu": fifo_state}
        core.log("no-libc probe: %d scenarios run" % len(runs))
        return runs

    def stress(self, chk, bindir, spec, key="real_futex_stress"):
        """Wall-clock verdicts (hang watchdog, 'the woken waiter did not come back in time') only count
        when two isolated re-runs with allowances >= 5x show the same rejection again."""
        first = self.stress_once(chk, bindir, spec, key)
        wall = [b for b in first if b[0]["code"] in WALL_CLOCK_STRESS_CODES]
        rest = [b for b in first if b[0]["code"] not in WALL_CLOCK_STRESS_CODES]
        confirmed = []
        if wall:
            codes = {b[0]["code"] for b in wall}
            again = []
            for rnd in (1, 2):
                sc = wall_scale()
                spec2 = dict(spec, watchdog_s=20.0 * sc, wait_scale=sc, scenarios=bool(codes & {"futex_wake", "futex_wait"}) or spec.get("scenarios", True))
                r = self.stress_once(chk, bindir, spec2, key + "_reconfirm%d" % rnd)
                again.append({b[0]["code"] for b in r})
                if not (codes & again[-1]):
                    break
            for b in wall:
                if len(again) == 2 and all(b[0]["code"] in a for a in again):
                    confirmed.append(b)
                else:
                    note_trip(chk, "%s real-futex stress" % self.lock, "%s in the first run, not in %d isolated re-run(s)" % (b[0]["code"], len(again)))
        for b, ev, sp in rest + confirmed:
            chk.violate({"lock": self.lock, "code": "real_" + b["code"], "op": ev.get("sc", ev["ev"])},
                        "%s on the real kernel futex: %s at %s" % (self.lock, b["code"], json.dumps(ev)),
                        {"mode": "real", "spec": sp, "event": ev, "note": "free-running, not deterministic: re-run `sched real` with this spec"})

    def stress_once(self, chk, bindir, spec, key):
        path = os.path.join(chk.work, "stress.json")
        with open(path, "w") as f:
            json.dump(spec, f)
        t0 = time.time()
        p = core.run_cmd([os.path.join(bindir, "sched"), "real", path], timeout=1500 + int(20 * spec.get("watchdog_s", 20)), check=False)
        if p.returncode != 0:
            # a crash of the free-running code under test is data, but the driver must say so itself
            raise core.ToolError("sched real failed rc=%s: %s" % (p.returncode, p.stderr[-1500:]))
        evs = [json.loads(l) for l in p.stdout.splitlines()]
        secs = sorted((e for e in evs if e["ev"] == "sec"), key=lambda e: e["e"])
        rest = [e for e in evs if e["ev"] not in ("sec", "stress_end")]
        end = [e for e in evs if e["ev"] == "stress_end"]
        if len(end) != 1:
            raise core.ToolError("stress run has no end event")
        if end[0]["hang"] or end[0].get("panics"):
            # the sections of the threads that never finished are missing: nothing but the hang can be judged
            secs = []
            evs = rest + end
        tr = os.path.join(chk.work, "stress.ndjson")
        core.write_ndjson(tr, rest + secs + end)
        res = core.run_tlc("SyncStress.tla", "SyncStress.cfg", workers=1, env={"TRACE": tr, "JAVA_TOOL_OPTIONS": JVM_OPTS},
                           timeout=3000, xmx="4g", xss="256m")
        core.tlc_must_pass(res, "SyncStress")
        j = res.printed("STRESS")
        if len(j) != 1 or j[0]["events"] != len(evs):
            raise core.ToolError("SyncStress did not judge the trace: " + res.out[-1500:])
        chk.add_tlc(res)
        j = j[0]
        chk.evaluations += j["sections"] + len(rest)
        chk.extra[key] = {"threads": spec["threads"], "sections_per_thread": spec["sections"], "sections_judged": j["sections"],
                                          "write_sections": j["writes"], "futex_scenario_events": len(rest), "hang": end[0]["hang"],
                                          "wall_s": round(time.time() - t0, 1), "rejected": len(j["bad"])}
        core.log("stress: %d sections, %d futex scenario events judged in %.1fs, %d rejected" % (j["sections"], len(rest), time.time() - t0, len(j["bad"])))
        if not j["bad"]:
            chk.traces += 1
        seen = set()
        out = []
        for b in j["bad"]:
            if b["code"] in seen:
                continue
            seen.add(b["code"])
            out.append((b, (rest + secs + end)[b["line"] - 1], spec))
        return out

    def selftest(self, tour_cfg, seeded=True):
        """Anti-vacuity (DESIGN.md 3.3): (1) corrupted copies of accepted traces must be rejected by the
        judge with the expected code; (2) the seeded mutants of this property must be detected, the
        behaviour-preserving ones must not (scratch worktrees via bin/mutant-test)."""
        import copy
        import glob
        import subprocess
        chk = core.Check(self.pid, "selftest", "model_checking")
        bindir = core.cargo_build(bins=["sched"])
        name, n, progs, budgets = tour_cfg
        cfg = self.write_cfg(chk, name, n, progs, budgets)
        _, g = dump_graph(chk, "%s_MC.tla" % self.prefix, cfg, "%s_self_%s" % (self.lock, name))
        paths, _, _ = transition_tour(g, max_paths=60)
        runs, divs, _, _ = replay_paths(chk, bindir, self.bind, g, paths, self.PROGS[progs], "%s_self" % self.lock)
        ok = True
        base = judge_runs(chk, runs, "self_base")
        print("selftest: %d recorded runs, %d rejected unmodified (expected 0), %d divergent (expected 0)" % (len(runs), len(base), len(divs)))
        ok &= not base and not divs
        unlock_new = 0
        cases = []
        # (a) every releasing RMW logged as Relaxed -> race
        a = copy.deepcopy(runs)
        for r in a:
            for e in r["events"]:
                if (e["ev"] == "swap" and e.get("new") == unlock_new) or e["ev"] == "fsub":
                    e["ord"] = "Relaxed"
        cases.append(("release orderings rewritten to Relaxed", a, "race"))
        # (b) the run ends with a thread still parked -> lost_wakeup
        b = copy.deepcopy(runs)
        for r in b:
            r["end"]["blocked"] = [1]
        cases.append(("end event claims a parked thread", b, "lost_wakeup"))
        # (c) a second guard is handed out while one exists -> exclusion
        c = copy.deepcopy(runs)
        for r in c:
            for i, e in enumerate(r["events"]):
                if e["ev"] == "ret" and e.get("ok") and e["fn"] in ("lock", "write"):
                    other = 2 if e["t"] == 1 else 1
                    r["events"].insert(i + 1, {"ev": "ret", "t": other, "fn": e["fn"], "ok": True})
                    break
        cases.append(("an extra guard handed out", c, "exclusion"))
        # (d) a FUTEX_WAIT inside a try call -> try_blocks
        d = copy.deepcopy(runs)
        for r in d:
            for i, e in enumerate(r["events"]):
                if e["ev"] == "call" and e["fn"].startswith("try_"):
                    r["events"].insert(i + 1, {"ev": "wait", "t": e["t"], "loc": "futex", "res": "eagain"})
                    break
        cases.append(("a wait inside a try call", d, "try_blocks"))
        for what, rs, code in cases:
            v = judge_runs(chk, rs, "self_" + code)
            hit = sum(1 for b_ in v.values() if b_["code"] == code)
            print("selftest: %-45s -> %d of %d runs rejected with %s" % (what, hit, len(rs), code))
            ok &= hit > 0
        if seeded:
            procs = []
            for dname in sorted(glob.glob(os.path.join(core.VERIF, "seeded", self.pid + "-*"))):
                meta = json.load(open(os.path.join(dname, "meta.json")))
                procs.append((dname, meta, subprocess.Popen([os.path.join(core.VERIF, "bin", "mutant-test"), os.path.join(dname, "patch.diff"), self.pid],
                                                            stdout=subprocess.PIPE, stderr=subprocess.STDOUT, text=True)))
            for dname, meta, p in procs:
                out, _ = p.communicate()
                detected = p.returncode == 0
                want = meta.get("expect", "VIOLATION") == "VIOLATION"
                print("selftest: seeded %-32s detected=%s expected=%s %s" % (os.path.basename(dname), detected, want, "ok" if detected == want else "MISMATCH"))
                ok &= detected == want
        print("%s selftest %s" % (self.pid, "OK" if ok else "FAILED"))
        return 0 if ok else 2

    def replay(self, path):
        rp = json.load(open(path))["replay"]
        if rp.get("mode") == "static":
            chk = core.Check(self.pid, "replay", "model_checking")
            runs = [r for r in static_obligations(chk, self.pid) if r["static"] == rp["fact"]]
            v = judge_runs(chk, runs, "replay")
            print(json.dumps(runs[0]["events"][0]))
            print("REPRODUCED: %s" % v[0]["code"] if v else "not reproduced (recorded: compiles=%s)" % rp.get("compiles"))
            return 1 if v else 0
        if rp.get("mode") == "probe":
            chk = core.Check(self.pid, "replay", "model_checking")
            runs = self.probe(chk, [rp["scenario"]])
            v = judge_runs(chk, runs, "replay")
            for e in runs[0]["events"]:
                print(json.dumps(e, separators=(",", ":")))
            print("REPRODUCED: %s" % v[0]["code"] if v else "not reproduced (recorded: %s)" % rp.get("code"))
            return 1 if v else 0
        if rp.get("mode") == "real":
            chk = core.Check(self.pid, "replay", "model_checking")
            bindir = core.cargo_build(bins=["sched"])
            self.stress(chk, bindir, rp["spec"])
            for v in chk.violations:
                print("REPRODUCED:", v.what)
            return 1 if chk.violations else 0
        chk = core.Check(self.pid, "replay", "model_checking")
        bindir = core.cargo_build(bins=["sched"], release=bool(rp.get("release_build")))
        plans = os.path.join(chk.work, "replay_plan.ndjson")
        with open(plans, "w") as f:
            f.write(json.dumps({"run": 0, "kind": rp["kind"], "progs": rp["progs"], "sched": rp["sched"], "snap": False}) + "\n")
        runs, _ = run_sched(bindir, "replay", plans)
        v = judge_runs(chk, runs, "replay")
        for e in runs[0]["events"]:
            print(json.dumps(e, separators=(",", ":")))
        print(json.dumps(runs[0]["end"], separators=(",", ":")))
        if v:
            print("REPRODUCED: %s at event %d (recorded: %s)" % (v[0]["code"], v[0]["index"], rp.get("code")))
            return 1
        print("not reproduced (recorded: %s): the schedule is accepted by SyncTrace on the current tree" % rp.get("code"))
        return 0


COMMON_ASSUMPTIONS = [
    "atomic operations are sequentially consistent in model and instrument (one thread runs at a time); memory orderings are judged through happens-before for the guarded data only (Machine.tla)",
    "FUTEX_WAIT/WAKE are simulated by the scheduler (wait = compare-and-park or EAGAIN, wake(n) wakes exactly min(n, parked) waiters of the scheduler's choice, spurious returns and EINTR on demand); rusl::futex itself is exercised only by the free-running stress part",
    "spin loops are collapsed: the identical loads of one spin form one event, a spinning thread observes the word once per scheduling decision",
]
