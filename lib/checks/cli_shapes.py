"""C20: the family of struct shapes, as ONE table from which both the real `#[derive(ArgParse)]` /
`#[derive(Subcommand)]` types (harness/src/bin/clishapes_gNN.rs, one driver binary per group of 3 shapes) and the TLA+ constant (specs/CliShapes.tla)
are emitted.  `python3 lib/checks/cli_shapes.py --write` regenerates both files; the check compares the
files on disk with a fresh emission and fails as a TOOL error if they differ.

A struct is  dict(name, fields=[field...], sub=None|dict(field, enum, opt, tags=[(Tag, None|struct)...]))
A field is   dict(name, kind in flag|option|positional, pkg in required|optional|repeated,
                  ty in bool|int|str|unixstr, rust=<element type as written>, long, short, lo, hi)
"""
import os
import re
import sys

I32 = (-2**31, 2**31 - 1)
U8 = (0, 255)


def opt(name, pkg, ty, rust, long=None, short=None, rng=I32):
    return dict(name=name, kind="flag" if ty == "bool" else "option", pkg=pkg, ty=ty, rust=rust,
                long=long, short=short, lo=rng[0], hi=rng[1])


def pos(name, pkg, ty, rust, rng=I32):
    return dict(name=name, kind="positional", pkg=pkg, ty=ty, rust=rust, long=None, short=None,
                lo=rng[0], hi=rng[1])


def st(name, fields, sub=None):
    return dict(name=name, fields=fields, sub=sub)


def sub(field, enum, optional, tags):
    return dict(field=field, enum=enum, opt=optional, tags=tags)


STR = "&'static str"
USTR = "&'static UnixStr"

# ---------------------------------------------------------------------------------------------
# the family (mirrors and extends tiny-cli/tests/derive_test.rs)
# ---------------------------------------------------------------------------------------------
SHAPES = [
    # 1 SimplestStructWithOpt
    st("ReqOpt", [opt("one_req_field", "required", "int", "i32", long="one-req-field")]),
    # 2 SimplestStructWithArg
    st("PosReq", [pos("one_req_field", "required", "int", "i32")]),
    # 3 SimplestStructWithOptArg
    st("PosOpt", [pos("one_opt_field", "optional", "int", "i32")]),
    # 4 SimpleStructWithAliases + SimplStructWithBool
    st("Aliases", [opt("one_req_field", "required", "int", "i32", long="long", short="s"),
                   opt("my_opt", "optional", "bool", "bool", short="b")]),
    # 5 StructWithDifferentPackaging
    st("Packaging", [opt("req_field", "required", "int", "i32", long="req-field"),
                     opt("opt_field", "optional", "int", "i32", short="o"),
                     opt("rep_field", "repeated", "int", "i32", long="rep")]),
    # 6 MultiArgOptLast (String, int, optional small unsigned last)
    st("MultiPos", [pos("pos_one", "required", "str", "String"),
                    pos("pos_two", "required", "int", "i32"),
                    pos("pos_three", "optional", "int", "u8", rng=U8)]),
    # 7 RunArgs: optional / repeated str and UnixStr
    st("StrKinds", [opt("opt_str", "optional", "str", STR, short="a"),
                    opt("opt_ustr", "optional", "unixstr", USTR, short="b", long="bee"),
                    opt("rep_str", "repeated", "str", STR, short="c"),
                    opt("rep_ustr", "repeated", "unixstr", USTR, short="d")]),
    # 8 WithEnumSubcommand
    st("EnumSub", [], sub("sc", "EnumSubCmd", False, [
        ("CmdOne", None),
        ("CmdTwo", st("EnumSubTwo", [opt("field1", "required", "int", "i32", long="field1")])),
        ("CmdThree", None)])),
    # 9 NestedCommands: required subcommand whose struct has an optional subcommand of unit tags
    st("Nested", [], sub("command", "NestedCmd", False, [
        ("MyTag", st("Nest", [], sub("inner", "NestedInner", True, [("A", None), ("B", None)])))])),
    # 10 positional mixed with options of every kind (SubCommandWithArg extended)
    st("MixedPos", [pos("target", "required", "str", STR),
                    opt("opt", "optional", "int", "i32", short="o"),
                    opt("force", "optional", "bool", "bool", short="f", long="force"),
                    opt("tags", "repeated", "str", "String", long="tag")]),
    # 11 ComplexUsesAllFeatures: options + required subcommand with struct tags, one of which has an
    #    optional nested subcommand, one a positional
    st("Complex", [opt("my_field", "required", "int", "i32", long="my-field"),
                   opt("name", "required", "str", "String", long="name", short="s"),
                   opt("verbose", "optional", "bool", "bool", short="v")],
       sub("subcommand", "ComplexCmd", False, [
           ("Run", st("RunArgs", [opt("arg_opt", "optional", "str", STR, short="a"),
                                  opt("arg_rep", "repeated", "str", STR, short="c")])),
           ("Other", st("OtherArgs", [opt("required_field", "required", "int", "i32", long="required-field")],
                        sub("subc_opt", "OtherCmd", True, [
                            ("OnlyOneOption", st("OptStruct", [opt("only", "optional", "int", "i32", long="only")]))]))),
           ("Arg", st("ArgArgs", [pos("subc_arg", "required", "str", "String"),
                                  opt("opt", "optional", "int", "i32", short="o")])),
       ])),
    # 12 optional subcommand next to options, unit and struct tags (Vec<bool> does not compile:
    #    the derive declares `bool` but pushes - a compile-time rejection, outside the property)
    st("OptSub", [opt("level", "optional", "int", "u8", long="level", short="l", rng=U8),
                  opt("verbose", "optional", "bool", "bool", short="v", long="verbose"),
                  opt("path", "required", "unixstr", USTR, long="path")],
       sub("cmd", "OptSubCmd", True, [
           ("Status", None),
           ("Push", st("PushArgs", [opt("force", "optional", "bool", "bool", long="force"),
                                    opt("remote", "required", "str", STR, short="r")])),
       ])),
    # 13 byte-string positionals: a &UnixStr positional takes any bytes, the optional &str one needs UTF-8
    st("PosUstr", [pos("file", "required", "unixstr", USTR),
                   pos("label", "optional", "str", STR)]),
]


def grid_shapes():
    """Systematic coverage of option field variants: every (packaging x type x alias form) combination of
    an option - 27 value options + 3 flags - occurs once, four per struct, deterministically shuffled;
    every second struct also carries a positional / a subcommand so that the variants meet the other
    mechanisms of the matcher."""
    import random as _random
    combos = []
    for ty, rusts in (("int", ["i32"]), ("str", [STR, "String"]), ("unixstr", [USTR])):
        for pkg in ("required", "optional", "repeated"):
            for form in ("long", "short", "both"):
                combos.append((pkg, ty, rusts[len(combos) % len(rusts)], form))
    for form in ("long", "short", "both"):
        combos.append(("optional", "bool", "bool", form))
    _random.Random(7).shuffle(combos)
    letters = "abcdefgijklmnopqrstuvwxyz"      # no 'h': -h is the help request
    out = []
    for k in range(0, len(combos), 4):
        fields = []
        for j, (pkg, ty, rust, form) in enumerate(combos[k:k + 4]):
            idx = k + j
            fields.append(opt("g%d" % idx, pkg, ty, rust,
                              long=("opt%d" % idx) if form != "short" else None,
                              short=letters[idx % len(letters)] if form != "long" else None))
        n = k // 4 + 1
        name = "Grid%d" % n
        sc = None
        if n % 4 == 2:
            fields.insert(1, pos("target", "required", "str", "String"))
        elif n % 4 == 0:
            fields.append(pos("count", "optional", "int", "i32"))
        elif n % 4 == 3:
            sc = sub("cmd", name + "Cmd", n % 8 == 3, [
                ("Ping", None),
                ("Load", st(name + "Load", [opt("dry", "optional", "bool", "bool", long="dry", short="n")]))])
        out.append(st(name, fields, sc))
    return out


DOC = "/// %s"
ALLOW = "#[allow(dead_code)]"


def decorate(shapes):
    """SOURCE-LEVEL decoration (doc comments, foreign attributes, trailing commas) does not change the
    declared grammar - the TLA+ data is the same - but the derive macros walk the token stream by hand, so
    every decoration pattern is a different path through them.  Attributes and docs are placed in front of
    `#[cli(..)]` (what the derive's own tests do)."""
    by = {s["name"]: s for s in shapes}
    by["ReqOpt"]["doc"] = ["Simplest struct"]
    by["ReqOpt"]["fields"][0]["decor"] = [DOC % "The only field"]
    f = by["Packaging"]["fields"]
    f[0]["decor"] = [DOC % "doc on the first field"]
    f[1]["decor"] = [ALLOW]
    f[2]["decor"] = [DOC % "two doc lines", DOC % "on the last field", ALLOW]
    f = by["MultiPos"]["fields"]
    f[1]["decor"] = [DOC % "doc on the middle positional only"]
    f = by["MixedPos"]["fields"]
    f[0]["decor"] = [DOC % "positional with a doc"]
    f[2]["decor"] = [ALLOW, DOC % "attribute, then doc, then cli"]
    by["PosUstr"]["fields"][1]["decor"] = [DOC % "doc on the last positional"]
    # ... and BEHIND `#[cli(..)]` (legal Rust, the declared grammar is the same)
    by["Aliases"]["fields"][0]["decor_after"] = [DOC % "doc comment behind the cli attribute"]
    by["Packaging"]["fields"][1]["decor_after"] = [ALLOW]
    f = by["StrKinds"]["fields"]
    for x in f:
        x["decor"] = [DOC % ("every field documented: %s" % x["name"])]
    by["EnumSub"]["doc"] = ["Doc comment on struct"]
    by["EnumSub"]["sub"].update(field_decor=[DOC % "Doc comment on field"], enum_doc=["Doc comment on cmd"],
                                decor={"CmdOne": [DOC % "Doc comment on tag"]})
    by["Complex"]["doc"] = ["My complex cli tool"]
    by["Complex"]["fields"][0]["decor"] = [DOC % "Naked field, but has comment"]
    by["Complex"]["sub"].update(decor={"Run": [DOC % "For running"], "Arg": [DOC % "No comment"]}, trailing=False)
    by["OptSub"]["sub"].update(decor={"Push": [ALLOW, DOC % "unit variant followed by a documented one"]})
    by["Nested"]["sub"].update(field_decor_after=[DOC % "doc comment behind #[cli(subcommand)]", ALLOW])
    for n in range(1, 9):
        g = by["Grid%d" % n]
        for j, x in enumerate(g["fields"]):
            x["decor"] = [[], [DOC % ("field %s" % x["name"])], [ALLOW], [DOC % "doc first", ALLOW, DOC % "doc again"]][(j + n) % 4]
        if g["sub"]:
            g["sub"].update(decor={"Load": [DOC % "struct variant after a unit variant"]}, trailing=(n % 2 == 0),
                            field_decor=[DOC % "the command"])


def decor_shapes():
    """Subcommand enums of four variants: every adjacency (unit|struct variant followed by a variant that
    is plain | documented | carries a foreign attribute | both), documented first / last / every variant,
    a unit variant between two struct variants, trailing comma present and absent."""
    pats = [
        ("U", "Ud", "Sd", "U", True),
        ("Ud", "S", "Ua", "Sa", False),
        ("S", "U", "Uad", "Ud", True),
        ("U", "Sda", "U", "S", False),
        ("Ud", "Ud", "Sd", "Ud", True),
        ("U", "U", "Udd", "Sa", False),
        ("S", "Ud", "S", "Ua", True),
    ]
    names = ["Start", "Stop", "Reload", "Status"]
    out = []
    for n, pat in enumerate(pats):
        tags, decor = [], {}
        for k, p in enumerate(pat[:4]):
            tag = names[k]
            inner = None
            if p[0] == "S":
                inner = st("Decor%d%s" % (n + 1, tag), [opt("quiet", "optional", "bool", "bool", short="q")])
            d = []
            for ch in p[1:]:
                d.append(DOC % ("variant %s" % tag) if ch == "d" else ALLOW)
            if d:
                decor[tag] = d
            tags.append((tag, inner))
        sc = sub("cmd", "Decor%dCmd" % (n + 1), n % 2 == 1, tags)
        sc.update(decor=decor, trailing=pat[4])
        out.append(st("Decor%d" % (n + 1), [], sc))
    return out


def help_clash_shapes():
    """Options whose literal COLLIDES with the built-in help request (`short = "h"`, `long = "help"`): a
    declared literal is part of the declared grammar, so it must win over help (round trip); the other help
    literal keeps asking for help.  On a valued, a flag and a repeated option, at struct level and inside a
    subcommand struct."""
    return [
        st("HelpClash1", [opt("host", "required", "str", "String", long="host", short="h"),
                          opt("verbose", "optional", "bool", "bool", short="v")]),
        st("HelpClash2", [opt("human", "optional", "bool", "bool", short="h"),
                          opt("help", "repeated", "int", "i32", long="help")]),
        st("HelpClash3", [opt("level", "optional", "int", "i32", short="l")],
           sub("cmd", "HelpClash3Cmd", False, [
               ("Ping", None),
               ("Connect", st("HelpClash3Connect", [opt("host", "optional", "unixstr", USTR, long="host", short="h"),
                                                    opt("help", "optional", "bool", "bool", long="help")]))])),
        st("HelpClash4", [opt("header", "repeated", "str", STR, long="header", short="h"),
                          pos("url", "required", "str", "String")]),
    ]


def sub_position_shapes():
    """The `#[cli(subcommand)]` field declared FIRST / in the MIDDLE, options declared after it, at both
    struct levels (same grammar as with the field last: the declaration order of fields is not grammar)."""
    def at(sc, k):
        sc["at"] = k
        return sc
    return [
        st("SubFirst", [opt("count", "required", "int", "i32", long="count"),
                        opt("verbose", "optional", "bool", "bool", short="v"),
                        opt("tag", "repeated", "str", STR, long="tag", short="t")],
           at(sub("cmd", "SubFirstCmd", False, [
               ("Go", None),
               ("Run", st("SubFirstRun", [opt("extra", "optional", "int", "i32", short="x")],
                          at(sub("deep", "SubFirstDeep", True, [("Deep", None)]), 0)))]), 0)),
        st("SubMiddle", [opt("alpha", "optional", "str", "String", short="a"),
                         opt("bee", "required", "int", "i32", long="bee", short="b"),
                         opt("dry", "optional", "bool", "bool", long="dry")],
           at(sub("cmd", "SubMiddleCmd", True, [
               ("Stop", None),
               ("Load", st("SubMiddleLoad", [opt("from", "required", "unixstr", USTR, long="from"),
                                             opt("quiet", "optional", "bool", "bool", short="q")],
                           at(sub("how", "SubMiddleHow", True, [("Fast", None), ("Slow", None)]), 1)))]), 1)),
    ]


def wide_shapes():
    """A field type of the user's own: `Wide` wraps an i32, its FromStr error DISPLAYS the rejected text
    character by character (Formatter::write_char) - the error-cause path for non-ASCII text that ends
    1..3 bytes short of the 128-byte cause buffer."""
    return [st("WideField", [opt("wide", "required", "int", "Wide", long="wide", short="w"),
                           pos("wpos", "optional", "int", "Wide")])]


def spelling_shapes():
    """Attribute TEXTS with `_` and uppercase letters: the derive normalises them (lowercase, `_` -> `-`) into
    the literal the parser matches and the help shows; `long` / `short` below are those literals (= the
    grammar, the TLA+ data), `long_attr` / `short_attr` the text written in the source."""
    def raw(f, long_attr=None, short_attr=None):
        if long_attr:
            f["long_attr"] = long_attr
        if short_attr:
            f["short_attr"] = short_attr
        return f
    return [
        st("Spelling", [raw(opt("dry_run", "optional", "bool", "bool", long="dry-run", short="d"), "dry_run", "D"),
                        raw(opt("max_depth", "optional", "int", "i32", long="max-depth"), "Max_Depth"),
                        raw(opt("a_b_c_d", "repeated", "str", STR, long="out-put-dir", short="o"), "Out_put-Dir", "O"),
                        raw(opt("x_y", "required", "unixstr", USTR, long="x-y-z"), "X_Y_Z")],
           sub("cmd", "SpellingCmd", True, [
               ("Go", None),
               ("Deep", st("SpellingDeep", [raw(opt("keep_going", "optional", "bool", "bool", long="keep-going", short="k"), "KEEP_going", "K")]))])),
    ]


GRID_FROM = len(SHAPES) + 1      # 1-based index of the first grid shape (smaller bounds from here on)
SHAPES = SHAPES + grid_shapes() + decor_shapes() + help_clash_shapes() + sub_position_shapes() + wide_shapes() + spelling_shapes()
decorate(SHAPES)

# ---------------------------------------------------------------------------------------------
# helpers shared by the emitters and by the check
# ---------------------------------------------------------------------------------------------
def pascal_to_kebab(s):
    out = s[0].lower()
    for ch in s[1:]:
        if ch.isupper():
            out += "-"
        out += ch.lower()
    return out


def lits(f):
    r = []
    if f["long"]:
        r.append("--" + f["long"])
    if f["short"]:
        r.append("-" + f["short"])
    return r


def walk(shape, lvl=()):
    """yield (level path (1-based tag indices), struct) for every ArgParse struct of a shape."""
    yield lvl, shape
    if shape["sub"]:
        for k, (_tag, inner) in enumerate(shape["sub"]["tags"]):
            if inner is not None:
                yield from walk(inner, lvl + (k + 1,))


def struct_at(shape, lvl):
    for i in lvl:
        shape = shape["sub"]["tags"][i - 1][1]
    return shape


def all_literals(shape):
    """every option literal and tag token of every level, in a fixed order."""
    res = []
    for _lvl, s in walk(shape):
        for f in s["fields"]:
            for l in lits(f):
                if l not in res:
                    res.append(l)
        if s["sub"]:
            for tag, _ in s["sub"]["tags"]:
                t = pascal_to_kebab(tag)
                if t not in res:
                    res.append(t)
    return res


VALUE_TOKENS = ["0", "-1", "2147483647", "", "x", "--opt-like"]
EXTRA_TOKENS = ["-h", "--help", "--zz"]


def alphabet(shape):
    res = []
    for t in all_literals(shape) + EXTRA_TOKENS + VALUE_TOKENS:
        if t not in res:          # a shape may declare -h / --help itself
            res.append(t)
    return res


# ---------------------------------------------------------------------------------------------
# TLA+ emission
# ---------------------------------------------------------------------------------------------
def tla_bytes(s):
    b = s.encode() if isinstance(s, str) else bytes(s)
    return "<<" + ",".join(str(x) for x in b) + ">>"


def tla_int(n):
    return "(-2147483647 - 1)" if n == -2**31 else str(n)


def tla_field(f):
    return ('[kind |-> "%s", pkg |-> "%s", ty |-> "%s", lo |-> %s, hi |-> %s, long |-> %s, short |-> %s]' % (
        f["kind"], f["pkg"], f["ty"], tla_int(f["lo"]), tla_int(f["hi"]),
        tla_bytes("--" + f["long"]) if f["long"] else "<<>>",
        tla_bytes("-" + f["short"]) if f["short"] else "<<>>"))


def tla_struct(s, ind="  "):
    fs = (",\n" + ind + "    ").join(tla_field(f) for f in s["fields"])
    out = '[name |-> "%s",\n%s fields |-> <<%s>>,\n%s sub |-> ' % (s["name"], ind, ("\n" + ind + "    " + fs) if fs else "", ind)
    if not s["sub"]:
        return out + "<<>>]"
    tags = []
    for tag, inner in s["sub"]["tags"]:
        tags.append('[tag |-> %s, inner |-> %s]' % (
            tla_bytes(pascal_to_kebab(tag)), ("<<" + tla_struct(inner, ind + "      ") + ">>") if inner else "<<>>"))
    out += '<<[opt |-> %s, tags |-> <<\n%s     %s>>]>>]' % (
        "TRUE" if s["sub"]["opt"] else "FALSE", ind, (",\n" + ind + "     ").join(tags))
    return out


def emit_tla():
    o = ["---------------------------- MODULE CliShapes ----------------------------",
         "(* GENERATED by lib/checks/cli_shapes.py from the shape table - do not edit.            *)",
         "(* The same table emits harness/src/bin/clishapes_gNN.rs (the real derived parsers).        *)",
         "(* Shape k of `Shapes` is the struct the driver runs for shape index k; Alpha[k] is its  *)",
         "(* token alphabet (every literal and tag of every level, -h, --help, --zz, the values).  *)",
         "EXTENDS Integers, Sequences", ""]
    for k, s in enumerate(SHAPES):
        o.append("Shape%d ==\n  %s\n" % (k + 1, tla_struct(s)))
        o.append("Alpha%d == <<%s>>\n" % (k + 1, ", ".join(tla_bytes(t) for t in alphabet(s))))
    o.append("Shapes == <<%s>>" % ", ".join("Shape%d" % (k + 1) for k in range(len(SHAPES))))
    o.append("Alpha == <<%s>>" % ", ".join("Alpha%d" % (k + 1) for k in range(len(SHAPES))))
    o.append("GridFrom == %d      \\* shapes from this index on are the systematic grid family" % GRID_FROM)
    o.append("=============================================================================")
    return "\n".join(o) + "\n"


# ---------------------------------------------------------------------------------------------
# Rust emission
# ---------------------------------------------------------------------------------------------
def rust_type(f):
    t = f["rust"]
    if f["ty"] == "bool":
        assert f["pkg"] == "optional"
        return "bool"
    return {"required": t, "optional": "Option<%s>" % t, "repeated": "Vec<%s>" % t}[f["pkg"]]


def rust_show_field(f):
    n = "self." + f["name"]
    if f["ty"] == "bool":
        return "json!(%s)" % n
    conv = {"int": "int", "str": "sbytes", "unixstr": "ubytes"}[f["ty"]]
    if f["pkg"] == "required":
        return "Value::Array(vec![%s(&%s)])" % (conv, n)
    return "Value::Array(%s.iter().map(%s).collect())" % (n, conv)


def emit_rust_struct(s, path, top, out, structs):
    """path: help path components; emits inner structs first."""
    if s["sub"]:
        for tag, inner in s["sub"]["tags"]:
            if inner is not None:
                emit_rust_struct(inner, path + [pascal_to_kebab(tag)], top, out, structs)
    name = s["name"]
    structs.append(name)
    for d in s.get("doc", []):
        out.append("/// %s" % d)
    out.append("#[derive(ArgParse)]")
    out.append('#[cli(help_path = "%s")]' % ", ".join(path))
    out.append("pub struct %s {" % name)
    def emit_sub_field():
        sc = s["sub"]
        for d in sc.get("field_decor", []):
            out.append("    " + d)
        out.append("    #[cli(subcommand)]")
        for d in sc.get("field_decor_after", []):
            out.append("    " + d)
        out.append("    %s: %s," % (sc["field"], ("Option<%s>" % sc["enum"]) if sc["opt"] else sc["enum"]))

    # the subcommand field is declared in front of field number sub["at"] (default: after all fields)
    sub_at = s["sub"].get("at", len(s["fields"])) if s["sub"] else -1
    for fi, f in enumerate(s["fields"]):
        if fi == sub_at:
            emit_sub_field()
        for d in f.get("decor", []):
            out.append("    " + d)
        attrs = []
        if f["short"]:
            attrs.append('short = "%s"' % f.get("short_attr", f["short"]))
        if f["long"]:
            attrs.append('long = "%s"' % f.get("long_attr", f["long"]))
        if attrs:
            out.append("    #[cli(%s)]" % ", ".join(attrs))
        for d in f.get("decor_after", []):
            out.append("    " + d)
        out.append("    %s: %s," % (f["name"], rust_type(f)))
    if s["sub"] and sub_at >= len(s["fields"]):
        emit_sub_field()
    out.append("}")
    if s["sub"]:
        sc = s["sub"]
        for d in sc.get("enum_doc", []):
            out.append("/// %s" % d)
        out.append("#[derive(Subcommand)]")
        out.append("pub enum %s {" % sc["enum"])
        for k, (tag, inner) in enumerate(sc["tags"]):
            for d in sc.get("decor", {}).get(tag, []):
                out.append("    " + d)
            last = k == len(sc["tags"]) - 1
            out.append("    %s%s%s" % (tag, "(%s)" % inner["name"] if inner else "", "" if last and not sc.get("trailing", True) else ","))
        out.append("}")
        out.append("impl Show for %s {" % sc["enum"])
        out.append("    fn show(&self) -> Value {")
        out.append("        match self {")
        for k, (tag, inner) in enumerate(sc["tags"]):
            if inner:
                out.append('            Self::%s(x) => json!({"tag": %d, "v": x.show()}),' % (tag, k + 1))
            else:
                out.append('            Self::%s => json!({"tag": %d, "v": {"f": [], "sc": []}}),' % (tag, k + 1))
        out.append("        }")
        out.append("    }")
        out.append("}")
    out.append("impl Show for %s {" % name)
    out.append("    fn show(&self) -> Value {")
    fs = ", ".join(rust_show_field(f) for f in s["fields"])
    if not s["sub"]:
        scv = "Value::Array(vec![])"
    elif s["sub"]["opt"]:
        scv = "Value::Array(self.%s.iter().map(Show::show).collect())" % s["sub"]["field"]
    else:
        scv = "Value::Array(vec![self.%s.show()])" % s["sub"]["field"]
    out.append('        json!({"f": Value::Array(vec![%s]), "sc": %s})' % (fs, scv))
    out.append("    }")
    out.append("}")
    out.append("")


PRELUDE = '''//! GENERATED by lib/checks/cli_shapes.py from the shape table - do not edit by hand.
//! C20 driver: the family of struct shapes as REAL `#[derive(ArgParse)]` / `#[derive(Subcommand)]`
//! types.  The same table emits specs/CliShapes.tla (the shapes as data of the specification).
//!
//! usage: clishapes parse <vectors.ndjson>   lines {"s": shape index (1-based), "a": [[byte..]..]}
//!            -> one line per vector: {"i":n,"r":"ok","v":{..}} | {"i":n,"r":"err","cause":..,"lvl":..,..}
//!               | {"i":n,"r":"panic","msg":..}
//!        clishapes cause <vectors.ndjson>   lines {"pieces": [len..]}  (ArgParseCauseBuffer writer)
//!        clishapes helps                    the help text of every level of every shape
#![allow(clippy::all)]
use std::io::BufRead;
#[allow(unused_imports)]
use tiny_cli::{ArgParse, Subcommand};
use tiny_std::unix::cli::{ArgParse, ArgParseError};
use tiny_std::UnixStr;
use vharness::{guarded, json, quiet_panics, Out, Value};

trait Show {
    fn show(&self) -> Value;
}
#[allow(dead_code)]
fn bytes(b: &[u8]) -> Value {
    Value::Array(b.iter().map(|x| json!(*x)).collect())
}
#[allow(dead_code)]
fn ubytes(u: &&'static UnixStr) -> Value {
    let s = u.as_slice();
    bytes(&s[..s.len() - 1])
}
#[allow(dead_code)]
fn sbytes<S: AsRef<str>>(s: &S) -> Value {
    bytes(s.as_ref().as_bytes())
}
#[allow(dead_code)]
fn int<T: Into<i64> + Copy>(x: &T) -> Value {
    json!(Into::<i64>::into(*x))
}

/// A user-defined field type: an i32 whose FromStr error prints the rejected text char by char.
#[allow(dead_code)]
#[derive(Debug, Clone, Copy)]
pub struct Wide(i32);
impl From<Wide> for i64 {
    fn from(w: Wide) -> i64 {
        i64::from(w.0)
    }
}
#[allow(dead_code)]
pub struct WideErr(String);
impl core::fmt::Display for WideErr {
    fn fmt(&self, f: &mut core::fmt::Formatter) -> core::fmt::Result {
        use core::fmt::Write;
        for c in self.0.chars() {
            f.write_char(c)?;
        }
        Ok(())
    }
}
impl core::str::FromStr for Wide {
    type Err = WideErr;
    fn from_str(s: &str) -> Result<Self, Self::Err> {
        s.parse::<i32>().map(Wide).map_err(|_| WideErr(s.to_string()))
    }
}

'''

POSTLUDE = '''
fn run<T: ArgParse + Show>(args: &[&'static UnixStr], helps: &[(Value, String)]) -> Value {
    let r = guarded(|| {
        let mut it = args.iter().copied();
        match T::arg_parse(&mut it) {
            Ok(v) => json!({"r": "ok", "v": v.show()}),
            Err(e) => {
                let help = e.relevant_help.to_string();
                let cause = e.cause.to_string();
                let whole = e.to_string();
                let lvl = helps.iter().find(|(_, h)| *h == help).map(|(l, _)| l.clone());
                json!({"r": "err", "cause": cause, "cause_len": e.cause.len(), "lvl": lvl,
                       "help_len": help.len(), "display_ok": whole.contains(&help) && whole.contains(&cause)})
            }
        }
    });
    match r {
        Ok(v) => v,
        Err(msg) => json!({"r": "panic", "msg": msg}),
    }
}

struct HelpZst;
impl core::fmt::Display for HelpZst {
    fn fmt(&self, f: &mut core::fmt::Formatter) -> core::fmt::Result {
        f.write_str("HELP")
    }
}
static HELP: HelpZst = HelpZst;

fn show_err(r: Result<ArgParseError, ArgParseError>) -> Value {
    let (via, e) = match r {
        Ok(e) => ("ok", e),
        Err(e) => ("overflow", e),
    };
    json!({"via": via, "len": e.cause.len(), "text": e.cause.to_string(), "whole": e.to_string(),
           "help": e.relevant_help.to_string()})
}

/// One line: {"pieces":[n1,n2,..]} : the cause is written as that many pieces of those lengths
/// (piece k consists of the letter 'a'+k%26), once through new_cause_str (pieces concatenated,
/// one write) and once through new_cause_fmt (one write_str per piece).
struct Chars<'a>(&'a str, &'a [char]);
impl core::fmt::Display for Chars<'_> {
    fn fmt(&self, f: &mut core::fmt::Formatter) -> core::fmt::Result {
        use core::fmt::Write;
        f.write_str(self.0)?;
        for c in self.1 {
            f.write_char(*c)?;
        }
        Ok(())
    }
}
/// {"pieces":[pre,w1,w2,..],"chars":true}: `pre` bytes through write_str, then one CHARACTER of
/// w1, w2, .. bytes each through Formatter::write_char (x, e-acute, euro sign, an emoji).
fn cause_chars(v: &Value) -> Value {
    let p: Vec<usize> = v["pieces"].as_array().unwrap().iter().map(|n| n.as_u64().unwrap() as usize).collect();
    let pre = "a".repeat(p[0]);
    let chars: Vec<char> = p[1..].iter().map(|w| ['x', '\\u{e9}', '\\u{20ac}', '\\u{1f600}'][*w - 1]).collect();
    let whole: String = pre.clone() + &chars.iter().collect::<String>();
    let s = guarded(|| show_err(ArgParseError::new_cause_str(&HELP, &whole)));
    let f = guarded(|| show_err(ArgParseError::new_cause_fmt(&HELP, format_args!("{}", Chars(&pre, &chars)))));
    let pk = |r: Result<Value, String>| match r {
        Ok(v) => v,
        Err(m) => json!({"via": "panic", "msg": m}),
    };
    json!({"str": pk(s), "fmt": pk(f)})
}

fn cause_line(v: &Value) -> Value {
    if v["chars"].as_bool() == Some(true) {
        return cause_chars(v);
    }
    let pieces: Vec<String> = v["pieces"].as_array().unwrap().iter().enumerate()
        .map(|(k, n)| std::iter::repeat((b'a' + (k % 26) as u8) as char).take(n.as_u64().unwrap() as usize).collect())
        .collect();
    let whole: String = pieces.concat();
    let s = guarded(|| show_err(ArgParseError::new_cause_str(&HELP, &whole)));
    let f = guarded(|| {
        let p = |k: usize| pieces.get(k).map(String::as_str).unwrap_or("");
        show_err(ArgParseError::new_cause_fmt(&HELP, format_args!("{}{}{}{}", p(0), p(1), p(2), p(3))))
    });
    let pk = |r: Result<Value, String>| match r {
        Ok(v) => v,
        Err(m) => json!({"via": "panic", "msg": m}),
    };
    json!({"str": pk(s), "fmt": pk(f)})
}

fn main() {
    quiet_panics();
    let argv: Vec<String> = std::env::args().collect();
    let mut out = Out::new();
    match argv[1].as_str() {
        "helps" => {
            for &s in SHAPE_IDS {
                for (l, h) in helps_of(s) {
                    out.ev(&json!({"s": s, "lvl": l, "help": h}));
                }
            }
        }
        "cause" => {
            let f = std::io::BufReader::new(std::fs::File::open(&argv[2]).unwrap());
            for (i, line) in f.lines().enumerate() {
                let v: Value = serde_json::from_str(&line.unwrap()).unwrap();
                let mut r = cause_line(&v);
                r["i"] = json!(i);
                out.ev(&r);
            }
        }
        "parse" => {
            // argv[3] = index of the first vector to run, argv[4] = "flush": write every line at once
            // (used to pin down a vector on which the parser crashes or hangs: SIGALRM after 10 s
            // without progress ends the process with status 43)
            let start: usize = argv.get(3).and_then(|s| s.parse().ok()).unwrap_or(0);
            let flush = argv.get(4).map(String::as_str) == Some("flush");
            let f = std::io::BufReader::new(std::fs::File::open(&argv[2]).unwrap());
            let helps: Vec<Vec<(Value, String)>> = (0..=MAXSHAPE).map(|s| if SHAPE_IDS.contains(&s) { helps_of(s) } else { vec![] }).collect();
            extern "C" fn on_alarm(_sig: i32) {
                unsafe { libc::_exit(43) }
            }
            unsafe {
                libc::signal(libc::SIGALRM, on_alarm as extern "C" fn(i32) as usize);
            }
            for (i, line) in f.lines().enumerate() {
                let line = line.unwrap();
                if i < start {
                    continue;
                }
                unsafe {
                    libc::alarm(10);
                }
                let v: Value = serde_json::from_str(&line).unwrap();
                let s = v["s"].as_u64().unwrap() as usize;
                // every argument is a NUL-terminated byte string, as the start-up code hands them over
                let bufs: Vec<Vec<u8>> = v["a"].as_array().unwrap().iter()
                    .map(|a| {
                        let mut b: Vec<u8> = a.as_array().unwrap().iter().map(|x| x.as_u64().unwrap() as u8).collect();
                        b.push(0);
                        b
                    })
                    .collect();
                // SAFETY: the buffers outlive every use of the parsed value (it is shown before they drop)
                let args: Vec<&'static UnixStr> = bufs.iter()
                    .map(|b| unsafe { &*(UnixStr::try_from_bytes(b).unwrap() as *const UnixStr) })
                    .collect();
                let mut r = dispatch(s, &args, &helps[s]);
                r["i"] = json!(i);
                out.ev(&r);
                if flush {
                    out.flush();
                }
                drop(bufs);
            }
            unsafe {
                libc::alarm(0);
            }
        }
        _ => panic!("usage"),
    }
    out.flush();
}
'''


GROUP_SIZE = 3


def groups():
    """shape indices (1-based) per driver binary: one broken derive expansion must not take the other
    shapes' drivers down (a shape whose expansion does not compile is an outcome, not a tool error)."""
    ids = list(range(1, len(SHAPES) + 1))
    return [ids[k:k + GROUP_SIZE] for k in range(0, len(ids), GROUP_SIZE)]


def group_of(s):
    return (s - 1) // GROUP_SIZE


def bin_name(g):
    return "clishapes_g%02d" % (g + 1)


def emit_rust(g):
    ids = groups()[g]
    out = [PRELUDE.replace("usage: clishapes ", "usage: %s " % bin_name(g))]
    out.append("// driver binary %d of %d: shapes %s" % (g + 1, len(groups()), ", ".join("%d %s" % (i, SHAPES[i - 1]["name"]) for i in ids)))
    out.append("")
    for i in ids:
        s = SHAPES[i - 1]
        emit_rust_struct(s, [pascal_to_kebab(s["name"])], s, out, [])
    out.append("const SHAPE_IDS: &[usize] = &[%s];" % ", ".join(map(str, ids)))
    out.append("const MAXSHAPE: usize = %d;" % max(ids))
    out.append("")
    out.append("fn dispatch(s: usize, args: &[&'static UnixStr], helps: &[(Value, String)]) -> Value {")
    out.append("    match s {")
    for i in ids:
        out.append("        %d => run::<%s>(args, helps)," % (i, SHAPES[i - 1]["name"]))
    out.append('        _ => panic!("no such shape in this driver"),')
    out.append("    }")
    out.append("}")
    out.append("")
    out.append("/// (level path, help text) of every ArgParse struct of shape s; level [] is the top struct,")
    out.append("/// [k] the struct of its k-th tag, and so on.")
    out.append("fn helps_of(s: usize) -> Vec<(Value, String)> {")
    out.append("    match s {")
    for i in ids:
        items = ", ".join("(json!(%s), <%s as ArgParse>::help_printer().to_string())" % (list(lvl), x["name"])
                          for lvl, x in walk(SHAPES[i - 1]))
        out.append("        %d => vec![%s]," % (i, items))
    out.append('        _ => panic!("no such shape in this driver"),')
    out.append("    }")
    out.append("}")
    out.append(POSTLUDE)
    return "\n".join(out)


VERIF = os.path.dirname(os.path.dirname(os.path.dirname(os.path.abspath(__file__))))
BIN_DIR = os.path.join(VERIF, "harness", "src", "bin")
TLA_PATH = os.path.join(VERIF, "specs", "CliShapes.tla")


def rust_path(g):
    return os.path.join(BIN_DIR, bin_name(g) + ".rs")


def in_sync():
    """-> list of files that differ from a fresh emission (empty = in sync)."""
    bad = []
    want = {rust_path(g): emit_rust(g) for g in range(len(groups()))}
    want[TLA_PATH] = emit_tla()
    for path, txt in want.items():
        if not os.path.exists(path) or open(path).read() != txt:
            bad.append(path)
    for n in os.listdir(BIN_DIR):
        if n.startswith("clishapes") and os.path.join(BIN_DIR, n) not in want:
            bad.append(os.path.join(BIN_DIR, n) + " (stale)")
    return bad


if __name__ == "__main__":
    if "--write" in sys.argv:
        for n in os.listdir(BIN_DIR):
            if n.startswith("clishapes"):
                os.unlink(os.path.join(BIN_DIR, n))
        for g in range(len(groups())):
            open(rust_path(g), "w").write(emit_rust(g))
        open(TLA_PATH, "w").write(emit_tla())
        print("wrote %d driver sources and %s" % (len(groups()), TLA_PATH))
    else:
        print("out of sync:" if in_sync() else "in sync", in_sync())
