"""C01 - Mutex: mutual exclusion, visibility, no lost wake-up, try_lock honesty.

specs/Mutex.tla (algorithm level, exhaustive TLC) is bound to tiny_std::sync::Mutex by
  B1  a transition tour of TLC's dumped state graph replayed step by step into the real code
      under the controlled scheduler (harness bin `sched`), and
  B2  every recorded execution (replayed, DFS-explored, random) judged by TLC at property
      level (specs/SyncTrace.tla).
Only B2 rejections of recorded executions are violations; divergence of B1 alone is model drift.
"""
import json
import os

from vlib import core
from checks import sync_common as S

LAU = ["L", "A", "U"]
TAU = ["T", "A", "U"]
PROGS = {
    "P2": [LAU + TAU, LAU + LAU],
    "P2t": [TAU + LAU, TAU + TAU],
    "P3": [LAU, LAU, LAU],
    "P3t": [LAU, LAU, TAU],
    "P3b": [LAU + LAU, LAU, TAU + LAU],
    "P4": [LAU, LAU, LAU, LAU],
    "P4t": [LAU, LAU, LAU, TAU],
}
DEFAULT_ORD = {
    "LockFastCas": ("Acquire", "Relaxed"), "TryLockCas": ("Acquire", "Relaxed"), "SpinLoad": ("Relaxed", "Relaxed"),
    "ContendedCas01": ("Acquire", "Relaxed"), "ContendedSwap2": ("Acquire", "Relaxed"),
    "WaitFastLoad": ("Relaxed", "Relaxed"), "UnlockSwap0": ("Release", "Relaxed"),
}
INVARIANTS = "TypeOK MutualExclusion RaceFree TryLockHonest TryNeverBlocks NoLostWakeup WordAgrees Progress"


class MutexBinding(S.Binding):
    kind = "mutex"

    def step(self, g, edge):
        name, a = S.split_label(edge[2])
        if name == "WakeOne":
            return [a[0], "w", [a[1]]]
        if name == "WakeNone":
            return [a[0], "w", []]
        if name == "SpuriousWake":
            return [a[0], "s"]
        if name == "Eintr":
            return [a[0], "i"]
        return [a[0]]

    def expect(self, g, edge):
        src, dst, lbl = edge
        name, a = S.split_label(lbl)
        t = a[0]
        f = g.state(src)["futex"]
        if name in ("LockFastCas", "TryLockCas", "ContendedCas01"):
            return {"ev": "cas", "t": t, "exp": 0, "new": 1, "old": f, "ok": f == 0, "_site": name}
        if name in ("SpinLoad1", "SpinLoad2"):
            return {"ev": "load", "t": t, "val": f, "_site": "SpinLoad"}
        if name == "WaitFastLoad":
            return {"ev": "load", "t": t, "val": f, "_site": name}
        if name == "ContendedSwap2":
            return {"ev": "swap", "t": t, "new": 2, "old": f, "_site": name}
        if name == "UnlockSwap0":
            return {"ev": "swap", "t": t, "new": 0, "old": f, "_site": name}
        if name == "FutexWait":
            return {"ev": "wait", "t": t, "exp": 2, "res": "parked" if f == 2 else "eagain"}
        if name == "WakeOne":
            return {"ev": "wake", "t": t, "n": 1, "woken": [a[1]]}
        if name == "WakeNone":
            return {"ev": "wake", "t": t, "n": 1, "woken": []}
        if name == "Access":
            return {"ev": "data", "t": t, "kind": "write"}
        if name == "SpuriousWake":
            return {"ev": "woken", "t": t, "cause": "spurious"}
        if name == "Eintr":
            return {"ev": "woken", "t": t, "cause": "eintr"}
        raise core.ToolError("unknown Mutex action label " + lbl)

    def project(self, st):
        return {"w": [st["futex"]], "q": [sorted(st["waitq"])], "g": [[], sorted(st["guards"])]}


def write_cfg(chk, name, n, progs, spur, eintr, ord_name="OrdCode", invariants=True, liveness=True):
    path = os.path.join(chk.work, "Mutex_%s.cfg" % name)
    with open(path, "w") as f:
        f.write("CONSTANTS\n  N = %d\n  Progs <- %s\n  Ord <- %s\n  MaxSpur = %d\n  MaxEintr = %d\n" % (n, progs, ord_name, spur, eintr))
        f.write("SPECIFICATION Spec\n")
        if invariants:
            f.write("INVARIANTS " + INVARIANTS + "\n")
        if liveness:
            f.write("PROPERTY Termination\n")
        f.write("CHECK_DEADLOCK FALSE\n")
    return path


def write_obs_module(chk, ords):
    """Mutex_Obs.tla: the orderings observed in the recorded executions as the constant Ord."""
    exc = []
    for site, seen in sorted(ords.items()):
        # several orderings at one site: take the weakest-looking one first in sorted order (all are checked by B2 anyway)
        o = sorted(seen)[0]
        exc.append('!.%s = <<"%s", "%s">>' % (site, o[0], o[1]))
    body = "OrdCode" if not exc else "[OrdCode EXCEPT %s]" % ", ".join(exc)
    path = os.path.join(chk.work, "Mutex_Obs.tla")
    with open(path, "w") as f:
        f.write("---- MODULE Mutex_Obs ----\nEXTENDS Mutex_MC\nOrdObs == %s\n====\n" % body)
    return path


def model_check(chk, name, n, progs, spur, eintr, module="Mutex_MC.tla", ord_name="OrdCode", workers=8, timeout=1500, must=True):
    cfg = write_cfg(chk, name, n, progs, spur, eintr, ord_name)
    cwd = core.SPECS
    if module != "Mutex_MC.tla":
        cwd = chk.work
    res = core.run_tlc(module, cfg, cwd=cwd, workers=workers, timeout=timeout, xmx="8g",
                       env={"JAVA_TOOL_OPTIONS": "-XX:ParallelGCThreads=4"})
    if must:
        core.tlc_must_pass(res, "Mutex %s" % name)
    chk.add_tlc(res)
    core.log("TLC Mutex %s: %d states, %d distinct, %.1fs, %s" % (name, res.generated, res.distinct, res.wall, "ok" if res.ok else "FAILED " + ",".join(res.invariant_violated)))
    chk.extra.setdefault("model_configs", []).append({"config": name, "threads": n, "programs": PROGS.get(progs, progs), "spurious": spur, "eintr": eintr,
                                                      "distinct_states": res.distinct, "generated": res.generated, "wall_s": round(res.wall, 1),
                                                      "orderings": ord_name, "passed": res.ok})
    return res


def explore(chk, bindir, spec, tag):
    path = os.path.join(chk.work, "explore_%s.json" % tag)
    with open(path, "w") as f:
        json.dump(spec, f)
    mode = "random" if "runs" in spec else "explore"
    runs, info = S.run_sched(bindir, mode, path)
    return runs, info


def nontrivial_run(r):
    """a run in which some lock() call found the lock taken (went through lock_contended)"""
    return any(e["ev"] in ("wait", "swap") and e.get("new", 2) == 2 for e in r["events"]) or \
        any(e["ev"] == "ret" and e["fn"] == "try_lock" and not e["ok"] for e in r["events"])


def run(tier):
    chk = core.Check("C01", tier, "model_checking")
    quick = tier == "quick"
    bind = MutexBinding()
    bindir = core.cargo_build(bins=["sched"])
    all_ords = {}
    drift = []
    tour_stats = []
    nontrivial = 0

    def judge_and_report(runs, tag, source):
        nonlocal nontrivial
        v = S.judge_runs(chk, runs, tag)
        S.report_violations(chk, "mutex", runs, v, source)
        chk.evaluations += len(runs)
        nontrivial += sum(1 for r in runs if nontrivial_run(r))
        return v

    # ---- 1. exhaustive model checking + state graph of the small configurations, B1 tour
    tours = [("2", 2, "P2", 1, 1)] if quick else [("2", 2, "P2", 1, 1), ("2t", 2, "P2t", 1, 1), ("3", 3, "P3", 1, 1)]
    if quick:
        tours.append(("3t", 3, "P3t", 1, 0))
    for name, n, progs, spur, eintr in tours:
        cfg = write_cfg(chk, name, n, progs, spur, eintr)
        res, g = S.dump_graph(chk, "Mutex_MC.tla", cfg, "mutex_" + name)
        chk.add_tlc(res)
        chk.extra.setdefault("model_configs", []).append({"config": name, "threads": n, "programs": PROGS[progs], "spurious": spur, "eintr": eintr,
                                                          "distinct_states": res.distinct, "generated": res.generated, "wall_s": round(res.wall, 1),
                                                          "orderings": "OrdCode", "passed": True})
        paths, covered, total = S.transition_tour(g)
        runs, divs, ords, agreed = S.replay_paths(chk, bindir, bind, g, paths, PROGS[progs], "mutex_" + name)
        for k, v in ords.items():
            all_ords.setdefault(k, set()).update(v)
        steps = sum(map(len, paths))
        # edges really confirmed = edges on agreed prefixes
        confirmed = set()
        bad_runs = {d["run"]: d["k"] for d in divs}
        for i, p in enumerate(paths):
            confirmed.update(p[:bad_runs.get(i, len(p))])
        tour_stats.append({"config": name, "states": len(g.label), "edges": len(g.edges), "tour_paths": len(paths), "tour_steps": steps,
                           "edges_in_tour": covered, "edges_confirmed_on_real_code": len(confirmed),
                           "edge_coverage": round(len(confirmed) / max(1, len(g.edges)), 4), "divergent_paths": len(divs)})
        core.log("tour %s: %d states %d edges, %d paths %d steps, confirmed %d edges, %d divergent" % (name, len(g.label), len(g.edges), len(paths), steps, len(confirmed), len(divs)))
        for d in divs[:3]:
            drift.append({"config": name, **{k: d[k] for k in ("run", "k", "edge", "why")}})
        judge_and_report(runs, "tour_" + name, "B1 tour of Mutex_MC %s" % name)
        if len(chk.samples) < 2 and runs:
            chk.sample({"source": "tour " + name, "progs": PROGS[progs], "sched": runs[len(runs) // 2]["end"]["sched"]})

    # ---- 2. orderings actually passed by the code -> constants of the model
    observed = {k: sorted(v) for k, v in all_ords.items()}
    differs = {k: v for k, v in observed.items() if set(v) != {DEFAULT_ORD[k]}}
    chk.extra["orderings_observed"] = {k: ["/".join(o) for o in v] for k, v in observed.items()}
    chk.extra["orderings_differ_from_spec_default"] = {k: ["/".join(o) for o in v] for k, v in differs.items()}
    ord_name, module = "OrdCode", "Mutex_MC.tla"
    if differs:
        write_obs_module(chk, all_ords)
        ord_name, module = "OrdObs", "Mutex_Obs.tla"
        core.log("orderings differ from the specification's defaults: %s" % differs)

    # ---- 3. the remaining exhaustive configurations, with the observed orderings
    if quick:
        configs = [("3", 3, "P3", 1, 1)] + ([("2", 2, "P2", 1, 1)] if differs else [])
    else:
        configs = [("3t", 3, "P3t", 1, 1), ("3b", 3, "P3b", 1, 0), ("4", 4, "P4", 1, 0), ("4t", 4, "P4t", 1, 0)] + \
                  ([("2", 2, "P2", 1, 1), ("3", 3, "P3", 1, 1)] if differs else [])
    for name, n, progs, spur, eintr in configs:
        res = model_check(chk, name + ("obs" if differs else ""), n, progs, spur, eintr, module=module, ord_name=ord_name, must=not differs)
        if not res.ok and differs:
            # counterexample of the MODEL under the code's orderings: never a verdict by itself;
            # find a shortest path to a bad model state and replay it into the real code
            cfg = write_cfg(chk, name + "obs_graph", n, progs, spur, eintr, ord_name, invariants=False, liveness=False)
            _, g = S.dump_graph(chk, module, cfg, "mutex_obs_" + name, cwd=chk.work, check=True)

            def bad(nid):
                st = g.state(nid)
                if st["race"] or st["tryBad"] or len(st["guards"]) > 1:
                    return True
                return all(p == "parked" or (p == "idle" and not pr) for p, pr in zip(st["pc"], st["prog"])) and "parked" in st["pc"]
            p = S.shortest_path_to(g, bad)
            if p is None:
                core.log("model fails under observed orderings but no bad state found in the graph")
                continue
            runs, divs, _, _ = S.replay_paths(chk, bindir, bind, g, [p], PROGS[progs], "mutex_cex_" + name)
            chk.extra.setdefault("model_counterexamples_replayed", []).append(
                {"config": name, "length": len(p), "actions": [g.edges[e][2] for e in p], "diverged": bool(divs)})
            judge_and_report(runs, "cex_" + name, "replay of TLC counterexample (Mutex_MC %s with the observed orderings)" % name)
            break

    # ---- 4. systematic exploration of the real code itself (stateless DFS, preemption bound) + random
    if quick:
        specs = [
            ("dfs2", {"kind": "mutex", "progs": PROGS["P2"], "preempt": 2, "max_runs": 3000, "spur": 1, "eintr": 1}),
            ("dfs2t", {"kind": "mutex", "progs": [TAU + LAU, LAU], "preempt": 3, "max_runs": 3000, "spur": 1, "eintr": 0}),
            ("dfs3", {"kind": "mutex", "progs": PROGS["P3"], "preempt": 2, "max_runs": 1500, "spur": 0, "eintr": 0}),
            ("rnd4", {"kind": "mutex", "progs": [LAU + LAU, LAU + TAU, TAU + LAU, LAU], "runs": 150, "spur": 1, "eintr": 1}),
        ]
    else:
        specs = [
            ("dfs2", {"kind": "mutex", "progs": PROGS["P2"], "preempt": 4, "max_runs": 40000, "spur": 1, "eintr": 1}),
            ("dfs2t", {"kind": "mutex", "progs": PROGS["P2t"], "preempt": 4, "max_runs": 20000, "spur": 1, "eintr": 1}),
            ("dfs3", {"kind": "mutex", "progs": PROGS["P3"], "preempt": 3, "max_runs": 20000, "spur": 1, "eintr": 0}),
            ("dfs3b", {"kind": "mutex", "progs": PROGS["P3b"], "preempt": 2, "max_runs": 20000, "spur": 0, "eintr": 0}),
            ("dfs4", {"kind": "mutex", "progs": PROGS["P4t"], "preempt": 2, "max_runs": 20000, "spur": 0, "eintr": 0}),
            ("rnd4", {"kind": "mutex", "progs": [LAU + LAU, LAU + TAU, TAU + LAU, LAU + LAU], "runs": 3000, "spur": 1, "eintr": 1}),
        ]
    explored = []
    for tag, spec in specs:
        spec = dict(spec, seed=chk.seed)
        runs, info = explore(chk, bindir, spec, tag)
        explored.append({"tag": tag, "progs": spec["progs"], "preemption_bound": spec.get("preempt"), "runs": len(runs),
                         "complete_within_bound": info.get("complete"), "spurious": spec["spur"], "eintr": spec["eintr"]})
        core.log("explore %s: %d runs, complete=%s" % (tag, len(runs), info.get("complete")))
        judge_and_report(runs, tag, "exploration %s" % tag)
        if runs:
            chk.sample({"source": tag, "progs": spec["progs"], "sched": runs[-1]["end"]["sched"]})

    chk.nontrivial = nontrivial
    chk.rule = ("evaluations = recorded executions of the real Mutex (B1 tour paths + DFS schedules + random schedules), each judged "
                "event by event by TLC (SyncTrace.tla); non-trivial = executions in which a lock() found the mutex taken "
                "(swap to 2 / FUTEX_WAIT) or a try_lock failed")
    chk.extra["transition_tour"] = tour_stats
    chk.extra["model_conformance"] = not drift
    if drift:
        chk.extra["model_drift"] = drift
    chk.extra["exploration"] = explored
    chk.exhaustive = False
    chk.assumptions = [
        "atomic operations are sequentially consistent in model and instrument (one thread runs at a time); memory orderings are judged through happens-before for the guarded data only (Machine.tla)",
        "FUTEX_WAIT/WAKE are simulated by the scheduler (wait = compare-and-park or EAGAIN, wake(n) wakes exactly min(n, parked) waiters of the scheduler's choice, spurious returns and EINTR on demand); rusl::futex itself is not exercised by this instrument",
        "the spin loop is collapsed: its identical loads form one event, a spinning thread observes the word once per scheduling decision",
        "bounded: 2-4 threads, programs of 1-2 sections per thread, <=1 spurious wake and <=1 EINTR per thread, DFS preemption bounds as listed under coverage.exploration",
    ]
    return chk.finish()


def replay(path):
    rp = json.load(open(path))["replay"]
    chk = core.Check("C01", "replay", "model_checking")
    bindir = core.cargo_build(bins=["sched"])
    plans = os.path.join(chk.work, "replay_plan.ndjson")
    with open(plans, "w") as f:
        f.write(json.dumps({"run": 0, "kind": rp["kind"], "progs": rp["progs"], "sched": rp["sched"], "snap": False}) + "\n")
    runs, _ = S.run_sched(bindir, "replay", plans)
    v = S.judge_runs(chk, runs, "replay")
    for e in runs[0]["events"]:
        print(json.dumps(e, separators=(",", ":")))
    print(json.dumps(runs[0]["end"], separators=(",", ":")))
    if v:
        print("REPRODUCED: %s at event %d (expected %s)" % (v[0]["code"], v[0]["line"], rp.get("code")))
        return 1
    print("not reproduced (expected %s): the recorded schedule is accepted by SyncTrace on the current tree" % rp.get("code"))
    return 0
