"""C01 - Mutex: mutual exclusion, visibility, no lost wake-up, try_lock honesty.

specs/Mutex.tla (algorithm level, exhaustive TLC) is bound to tiny_std::sync::Mutex by
  B1  a transition tour of TLC's dumped state graph replayed step by step into the real code
      under the controlled scheduler (harness bin `sched`), and
  B2  every recorded execution (replayed, DFS-explored, random) judged by TLC at property
      level (specs/SyncTrace.tla).
Only B2 rejections of recorded executions are violations; divergence of B1 alone is model drift.
"""
import json
import os

from vlib import core
from checks import sync_common as S

LAU = ["L", "A", "U"]
TAU = ["T", "A", "U"]
PROGS = {
    "P2": [LAU + TAU, LAU + LAU],
    "P2t": [TAU + LAU, TAU + TAU],
    "P3": [LAU, LAU, LAU],
    "P3t": [LAU, LAU, TAU],
    "P3b": [LAU + LAU, LAU, TAU + LAU],
    "P4": [LAU, LAU, LAU, LAU],
    "P4t": [LAU, LAU, LAU, TAU],
    "P3c": [LAU + LAU, LAU + TAU, TAU + LAU],
    "P2d": [["D"] + TAU + ["D"], LAU + ["D"] + TAU],
    "P3d": [["D"] + LAU, LAU, TAU + ["D"]],
    "P4b": [LAU + LAU, LAU, TAU + LAU, LAU],
}
DEFAULT_ORD = {
    "LockFastCas": ("Acquire", "Relaxed"), "TryLockCas": ("Acquire", "Relaxed"), "SpinLoad": ("Relaxed", "Relaxed"),
    "ContendedCas01": ("Acquire", "Relaxed"), "ContendedSwap2": ("Acquire", "Relaxed"),
    "WaitFastLoad": ("Relaxed", "Relaxed"), "UnlockSwap0": ("Release", "Relaxed"),
}
INVARIANTS = "TypeOK MutualExclusion RaceFree TryLockHonest TryNeverBlocks NoLostWakeup WordAgrees Progress"


class MutexBinding(S.Binding):
    kind = "mutex"

    def step(self, g, edge):
        name, a = S.split_label(edge[2])
        if name == "WakeOne":
            return [a[0], "w", [a[1]]]
        if name == "WakeNone":
            return [a[0], "w", []]
        if name == "SpuriousWake":
            return [a[0], "s"]
        if name == "Eintr":
            return [a[0], "i"]
        return [a[0]]

    def expect(self, g, edge):
        src, dst, lbl = edge
        name, a = S.split_label(lbl)
        t = a[0]
        f = g.state(src)["futex"]
        if name in ("LockFastCas", "TryLockCas", "ContendedCas01"):
            return {"ev": "cas", "t": t, "exp": 0, "new": 1, "old": f, "ok": f == 0, "_site": name}
        if name == "DbgTryCas":
            return {"ev": "cas", "t": t, "exp": 0, "new": 1, "old": f, "ok": f == 0, "_site": "TryLockCas"}
        if name == "DbgRead":
            return {"ev": "data", "t": t, "kind": "read", "guard": "debug"}
        if name == "DbgUnlockSwap0":
            return {"ev": "swap", "t": t, "new": 0, "old": f, "_site": "UnlockSwap0"}
        if name in ("SpinLoad1", "SpinLoad2"):
            return {"ev": "load", "t": t, "val": f, "_site": "SpinLoad"}
        if name == "WaitFastLoad":
            return {"ev": "load", "t": t, "val": f, "_site": name}
        if name == "ContendedSwap2":
            return {"ev": "swap", "t": t, "new": 2, "old": f, "_site": name}
        if name == "UnlockSwap0":
            return {"ev": "swap", "t": t, "new": 0, "old": f, "_site": name}
        if name == "FutexWait":
            return {"ev": "wait", "t": t, "exp": 2, "res": "parked" if f == 2 else "eagain"}
        if name == "WakeOne":
            return {"ev": "wake", "t": t, "n": 1, "woken": [a[1]]}
        if name == "WakeNone":
            return {"ev": "wake", "t": t, "n": 1, "woken": []}
        if name == "Access":
            return {"ev": "data", "t": t, "kind": "write"}
        if name == "SpuriousWake":
            return {"ev": "woken", "t": t, "cause": "spurious"}
        if name == "Eintr":
            return {"ev": "woken", "t": t, "cause": "eintr"}
        raise core.ToolError("unknown Mutex action label " + lbl)

    def project(self, st):
        return {"w": [st["futex"]], "q": [sorted(st["waitq"])], "g": [[], sorted(st["guards"])]}


def nontrivial_run(r):
    """a run in which some lock() call found the lock taken (went through lock_contended) or a try_lock failed"""
    return any(e["ev"] in ("wait", "swap") and e.get("new", 2) == 2 for e in r["events"]) or \
        any(e["ev"] == "ret" and e["fn"] == "try_lock" and not e["ok"] for e in r["events"])


def bad_state(st):
    if st["race"] or st["tryBad"] or len(st["guards"]) > 1:
        return True
    return "parked" in st["pc"] and all(p == "parked" or (p == "idle" and not pr) for p, pr in zip(st["pc"], st["prog"]))


LC = S.LockCheck(
    "C01", "mutex", "Mutex", MutexBinding(), PROGS, DEFAULT_ORD, INVARIANTS, ["MaxSpur", "MaxEintr"], nontrivial_run, bad_state,
    rule=("evaluations = recorded executions of the real Mutex (B1 tour paths + DFS schedules + random schedules), each judged "
          "event by event by TLC (SyncTrace.tla); non-trivial = executions in which a lock() found the mutex taken "
          "(swap to 2 / FUTEX_WAIT) or a try_lock failed"),
    assumptions=S.COMMON_ASSUMPTIONS + [
        "bounded: 2-4 threads, programs of 1-2 sections per thread, <=1 spurious wake and <=1 EINTR per thread, DFS preemption bounds as listed under coverage.exploration"],
    all_actions=["LockFastCas", "TryLockCas", "SpinLoad1", "SpinLoad2", "ContendedCas01", "ContendedSwap2", "WaitFastLoad", "FutexWait",
                 "UnlockSwap0", "WakeOne", "WakeNone", "Access", "SpuriousWake", "Eintr",
                 "DbgTryCas", "DbgRead", "DbgUnlockSwap0"])


def run(tier):
    if tier == "quick":
        tours = [("2", 2, "P2", (1, 1)), ("2d", 2, "P2d", (1, 1)), ("3t", 3, "P3t", (1, 0))]
        configs = [("3", 3, "P3", (1, 1))]
        configs_if_differs = [("2", 2, "P2", (1, 1))]
        specs = [
            ("dfs2", {"progs": PROGS["P2"], "preempt": 2, "max_runs": 3000, "spur": 1, "eintr": 1, "graph": "2"}),
            ("dfs2t", {"progs": [TAU + LAU, LAU], "preempt": 3, "max_runs": 3000, "spur": 1, "eintr": 0}),
            ("dfs2d", {"progs": PROGS["P2d"], "preempt": 2, "max_runs": 3000, "spur": 1, "eintr": 0, "graph": "2d"}),
            ("dfs3", {"progs": PROGS["P3"], "preempt": 2, "max_runs": 1500, "spur": 0, "eintr": 0}),
            ("cov4", {"mode": "cover", "progs": [LAU + ["D"] + LAU, LAU + TAU, TAU + LAU + ["D"], ["D"] + LAU], "runs": 300, "spur": 1, "eintr": 1}),
            ("hold3", {"mode": "hold", "progs": [LAU + LAU, LAU, TAU + LAU], "spur": 0, "eintr": 0, "max_steps": 200}),
            ("hold2", {"mode": "hold", "progs": [LAU, LAU + ["D"]], "spur": 0, "eintr": 0, "max_steps": 200}),
            ("rnd4", {"progs": [LAU + LAU, LAU + TAU, TAU + LAU, LAU], "runs": 150, "spur": 1, "eintr": 1}),
        ]
    else:
        tours = [("2", 2, "P2", (1, 1)), ("2t", 2, "P2t", (1, 1)), ("2d", 2, "P2d", (1, 1)), ("3d", 3, "P3d", (1, 0)),
                 ("3t", 3, "P3t", (1, 1)), ("3", 3, "P3", (1, 1))]
        configs = [("3b", 3, "P3b", (1, 0)), ("4", 4, "P4", (1, 0)), ("4t", 4, "P4t", (1, 0)),
                   ("3c", 3, "P3c", (1, 1), 100), ("4b", 4, "P4b", (1, 0), 100)]
        configs_if_differs = [("2", 2, "P2", (1, 1)), ("3", 3, "P3", (1, 1))]
        specs = [
            ("dfs2", {"progs": PROGS["P2"], "preempt": 4, "max_runs": 6000, "spur": 1, "eintr": 1, "graph": "2"}),
            ("dfs2t", {"progs": PROGS["P2t"], "preempt": 4, "max_runs": 5000, "spur": 1, "eintr": 1, "graph": "2t"}),
            ("dfs2d", {"progs": PROGS["P2d"], "preempt": 4, "max_runs": 5000, "spur": 1, "eintr": 1, "graph": "2d"}),
            ("dfs3d", {"progs": PROGS["P3d"], "preempt": 2, "max_runs": 5000, "spur": 1, "eintr": 0, "graph": "3d"}),
            ("dfs3", {"progs": PROGS["P3"], "preempt": 3, "max_runs": 5000, "spur": 1, "eintr": 1, "graph": "3"}),
            ("dfs3b", {"progs": PROGS["P3b"], "preempt": 2, "max_runs": 5000, "spur": 0, "eintr": 0}),
            ("dfs4", {"progs": PROGS["P4t"], "preempt": 2, "max_runs": 5000, "spur": 0, "eintr": 0}),
            ("cov4", {"mode": "cover", "progs": [LAU + ["D"] + LAU, LAU + TAU, TAU + LAU + ["D"], ["D"] + LAU + LAU], "runs": 3000, "spur": 1, "eintr": 1}),
            ("hold3", {"mode": "hold", "progs": [LAU + LAU, LAU, TAU + LAU], "spur": 0, "eintr": 0, "max_steps": 200}),
            ("hold2", {"mode": "hold", "progs": [LAU, LAU + ["D"]], "spur": 0, "eintr": 0, "max_steps": 200}),
            ("rnd4", {"progs": [LAU + LAU, LAU + TAU, TAU + LAU, LAU + LAU], "runs": 3000, "spur": 1, "eintr": 1}),
        ]
    stress = {"threads": 4, "sections": 1500} if tier == "quick" else {"threads": 8, "sections": 10000}
    rel = [(t, sp) for t, sp in specs if t in ("dfs2", "dfs3", "cov4", "hold3")]
    return LC.run(tier, tours, configs, configs_if_differs, specs, stress=stress, release_specs=rel,
                  probe_scenarios=["m_before", "m_after", "m_after@fifo"])


def replay(path):
    return LC.replay(path)


def selftest():
    import os
    return LC.selftest(("2", 2, "P2", (1, 1)), seeded=os.environ.get("VERIF_SELFTEST_SEEDED", "1") == "1")
