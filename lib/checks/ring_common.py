"""C17 machinery: state-graph dump of Ring.tla -> transition tour -> plans for harness/ring ->
step-by-step comparison (B1) -> property-level judgement by TLC with RingTrace.tla (B2)."""
import collections
import json
import os
import re

from vlib import core

OPS = {"GetSlot": "get", "Fill": "fill", "Flush": "flush", "Consume": "consume", "Post": "post",
       "Reap": "reap", "Read": "read"}
STVARS = ["sqHead", "sqTail", "kSqHead", "kSqTail", "kCqHead", "kCqTail"]

# the model of the code as it is NOW (after the fix commits recorded in known_findings.d/C17.json)
CODE_NOW = dict(Wrapping="TRUE", CqEmptyLE="FALSE")
# ... and as it was found in the pinned snapshot
CODE_FOUND = dict(Wrapping="FALSE", CqEmptyLE="TRUE")


def write_cfg(path, *, ns, nc, h, side, sq="AllStarts", cq="AllStarts", wrapping="TRUE", debug="TRUE",
              le="FALSE", atomic="FALSE", invariants=("TypeOK",), extra_const=""):
    with open(path, "w") as f:
        f.write("CONSTANTS\n  NS = %d\n  NC = %d\n  H = %d\n  Side = \"%s\"\n  SqStarts <- %s\n  CqStarts <- %s\n"
                "  Wrapping = %s\n  DebugChecks = %s\n  CqEmptyLE = %s\n  AtomicReapRead = %s\n%s"
                "INIT Init\nNEXT Next\nINVARIANTS %s\nCHECK_DEADLOCK FALSE\n" % (
                    ns, nc, h, side, sq, cq, wrapping, debug, le, atomic, extra_const, " ".join(invariants)))
    return path


def cfg_constants(cfgpath):
    txt = open(cfgpath).read()
    g = lambda k: re.search(r"\b%s\s*(?:=|<-)\s*\"?(\w+)\"?" % k, txt).group(1)
    return {"ns": int(g("NS")), "nc": int(g("NC")), "h": int(g("H")), "side": g("Side")}


# --------------------------------------------------------------------------------------------
# state graph
# --------------------------------------------------------------------------------------------
_VAR = re.compile(r"^/\\ (\w+) = (.*)$", re.S)


def _parse_val(s):
    s = " ".join(s.split())
    if re.fullmatch(r"-?\d+", s):
        return int(s)
    if s.startswith("<<") and s.endswith(">>"):
        inner = s[2:-2].strip()
        if not inner:
            return []
        if re.fullmatch(r"[-\d, ]+", inner):
            return [int(x) for x in inner.split(",")]
        if re.fullmatch(r'("\w*"|TRUE|FALSE)(, ("\w*"|TRUE|FALSE))*', inner):
            return [x.strip().strip('"') if x.strip()[0] == '"' else x.strip() == "TRUE" for x in inner.split(",")]
    if s.startswith('"') and s.endswith('"'):
        return s[1:-1]
    return s


def parse_label(lbl):
    txt = lbl.replace("\\n", "\n").replace('\\"', '"').replace("\\\\", "\\")
    out = {}
    for part in re.split(r"\n(?=/\\ )", txt):
        m = _VAR.match(part)
        if m:
            out[m.group(1)] = _parse_val(m.group(2))
    return out


class Graph:
    def __init__(self, path):
        self.nodes = {}     # id -> vars
        self.inits = []
        self.adj = collections.defaultdict(list)   # id -> [(label, arg, target id, edge index)]
        self.nedges = 0
        node_re = re.compile(r'^(-?\d+) \[label="(.*)"(,style = filled)?\]\s*;?$')
        edge_re = re.compile(r'^(-?\d+) -> (-?\d+) \[label="(\w+)(?:\(([-\d, ]+)\))?"')
        with open(path) as f:
            for line in f:
                line = line.rstrip("\n")
                m = edge_re.match(line)
                if m:
                    u, v, lab, arg = m.groups()
                    if arg is not None:      # one integer argument -> int, several -> tuple
                        arg = tuple(int(x) for x in arg.split(","))
                        arg = arg[0] if len(arg) == 1 else arg
                    self.adj[u].append((lab, arg, v, self.nedges))
                    self.nedges += 1
                    continue
                m = node_re.match(line)
                if m:
                    nid = m.group(1)
                    if nid not in self.nodes:
                        self.nodes[nid] = parse_label(m.group(2))
                        if m.group(3):
                            self.inits.append(nid)

    def tour(self, maxlen=120, radius=8):
        """Paths from initial states covering every edge; each path = (init id, [(label,arg,target id)])"""
        parent = {}     # v -> None | (label, arg, u, v, edge index)
        order = []
        dq = collections.deque()
        for i in self.inits:
            parent[i] = None
            dq.append(i)
        while dq:
            u = dq.popleft()
            order.append(u)
            for (lab, arg, v, ei) in self.adj[u]:
                if v not in parent:
                    parent[v] = (lab, arg, u, v, ei)
                    dq.append(v)
        uncovered = {u: set(e[3] for e in self.adj[u]) for u in order}
        left = sum(len(s) for s in uncovered.values())
        paths = []
        ptr = 0

        def prefix(u):
            p = []
            while parent[u] is not None:
                p.append(parent[u])
                u = parent[u][2]
            p.reverse()
            return u, p

        def nearest(cur):
            seen = {cur: None}
            dq = collections.deque([(cur, 0)])
            while dq:
                u, d = dq.popleft()
                if uncovered[u] and u != cur:
                    route = []
                    while seen[u] is not None:
                        route.append(seen[u])
                        u = seen[u][2]
                    route.reverse()
                    return route
                if d >= radius:
                    continue
                for (lab, arg, v, ei) in self.adj[u]:
                    if v not in seen:
                        seen[v] = (lab, arg, u, v, ei)
                        dq.append((v, d + 1))
            return None

        while left:
            while not uncovered[order[ptr]]:
                ptr += 1
            u = order[ptr]
            init, p = prefix(u)
            cur = u
            while len(p) < maxlen:
                cand = [e for e in self.adj[cur] if e[3] in uncovered[cur]]
                if cand:
                    loops = [e for e in cand if e[2] == cur]
                    lab, arg, v, ei = (loops or cand)[0]
                    p.append((lab, arg, cur, v, ei))
                    cur = v
                else:
                    route = nearest(cur)
                    if route is None:
                        break
                    p += route
                    cur = route[-1][3]
                # mark everything walked so far
                for e in p[-(len(route) if not cand else 1):]:
                    if e[4] in uncovered[e[2]]:
                        uncovered[e[2]].discard(e[4])
                        left -= 1
            for e in p:
                if e[4] in uncovered[e[2]]:
                    uncovered[e[2]].discard(e[4])
                    left -= 1
            paths.append((init, [(lab, arg, v) for (lab, arg, u_, v, ei) in p]))
        return paths


def path_to_run(graph, consts, run_id, init, steps, flags=0):
    """-> (plan line for the harness, expected list for B1)"""
    iv = graph.nodes[init]
    plan = {"run": run_id, "ns": consts["ns"], "nc": consts["nc"], "flags": flags, "h": consts["h"],
            "sq0": iv["sqTail"], "cq0": iv["kCqTail"], "steps": []}
    exp = []
    for (lab, arg, v) in steps:
        op = OPS[lab]
        plan["steps"].append([op, arg] if op in ("fill", "consume", "post") else [op])
        exp.append((op, arg, graph.nodes[v]))
    return plan, exp


def expected_of(node):
    return {"st": [node[v] for v in STVARS], "sqs": node["sqSlot"], "cqs": node["cqSlot"],
            "want": node["want"], "held": node["held"]}


def compare_step(op, arg, node, ev):
    """B1: is the observed step the model's step? -> None or a description of the difference"""
    if ev is None:
        return "no event (run ended early)"
    if ev["ev"] != op:
        return "model step %s, harness did %s" % (op, ev["ev"])
    if op in ("get", "flush", "reap") and ev["ret"] != arg:
        return "%s returned %s, model %s" % (op, ev["ret"], arg)
    if op == "read" and ev["val"] != arg:
        return "read %s, model %s" % (ev["val"], arg)
    if op in ("consume", "post") and ev["k"] != arg and len(ev["stamps"]) != arg:
        return "%s did %d, model %d" % (op, len(ev["stamps"]), arg)
    exp = expected_of(node)
    for k, v in exp.items():
        if ev.get(k) != v:
            return "%s after %s: real %s, model %s" % (k, op, ev.get(k), v)
    return None


# --------------------------------------------------------------------------------------------
# harness + judge
# --------------------------------------------------------------------------------------------
def run_harness(bindir, args, timeout=900, env=None):
    p = core.run_cmd([os.path.join(bindir, "ring")] + [str(a) for a in args], timeout=timeout, check=False, env=env)
    if p.returncode != 0:
        raise core.ToolError("ring harness died rc=%s: %s" % (p.returncode, p.stderr[-2000:]))
    runs = []   # list of (reset event, [events])
    for line in p.stdout.splitlines():
        ev = json.loads(line)
        if ev["ev"] == "reset":
            runs.append((ev, []))
        else:
            runs[-1][1].append(ev)
    return runs


SLIM = {"wakeup": ("flags", "ret"), "reset": ("run", "ns", "nc"), "get": ("ret",), "fill": ("slot", "stamp"), "flush": ("ret", "kavail"),
        "consume": ("stamps",), "post": ("stamps",), "reap": ("ret",), "read": ("val",)}


class Stream:
    """All runs of the real code of one check run, streamed to trace files for the TLC judge (B2).
    Only a small record per run is kept in memory; the events of a rejected run are regenerated by
    re-running its plan (the harness is deterministic)."""

    def __init__(self, chk, tag, batch=150000):
        self.chk, self.tag, self.batch = chk, tag, batch
        self.parts = []         # (path, lines, [(first line, run index)])
        self.meta = []          # per run: dict(group, source, build, plan_ref | random_ref, reset)
        self._f = None
        self._lines = 0
        self._starts = None

    def _rotate(self):
        if self._f:
            self._f.close()
            self.parts[-1] = (self.parts[-1][0], self._lines, self._starts)
        path = os.path.join(self.chk.work, "trace_%s_%d.ndjson" % (self.tag, len(self.parts)))
        self._f = open(path, "w")
        self._lines = 0
        self._starts = []
        self.parts.append((path, 0, self._starts))

    def add(self, reset, evs, **meta):
        if self._f is None or self._lines >= self.batch:
            self._rotate()
        k = len(self.meta)
        self.meta.append(dict(meta, reset={x: reset.get(x) for x in ("ns", "nc", "flags", "h", "sq0", "cq0", "build", "boundary_bits")}))
        w = self._f.write
        w(json.dumps({"ev": "reset", "run": k, "ns": reset["ns"], "nc": reset["nc"], "arr": reset.get("arr", list(range(reset["ns"])))}, separators=(",", ":")) + "\n")
        self._lines += 1
        self._starts.append((self._lines, k))
        for ev in evs:
            if ev["ev"] == "skip":
                continue
            w(json.dumps({"ev": ev["ev"], **{x: ev[x] for x in SLIM[ev["ev"]]}}, separators=(",", ":")) + "\n")
            self._lines += 1
        return k

    def judge(self, parallel=4):
        """-> list of (run index, index among the run's non-skip events or -1, clause)"""
        import bisect
        import concurrent.futures as cf
        if self._f:
            self._f.close()
            self._f = None
            self.parts[-1] = (self.parts[-1][0], self._lines, self._starts)

        def one(part):
            path, lines, starts = part
            res = core.run_tlc("RingTrace.tla", "RingTrace.cfg", workers=1, env={"TRACE": path}, timeout=3000, xmx="6g", xss="512m",
                               metadir=os.path.join(core.WORK, "tlc-meta", "c17-%d-%s" % (os.getpid(), os.path.basename(path))))
            core.tlc_must_pass(res, "RingTrace " + self.tag)
            j = res.printed("RINGJUDGE")
            bl = res.printed("RINGBAD")
            if len(j) != 1 or j[0]["n"] != lines or j[0]["nbad"] != len(bl):
                raise core.ToolError("RingTrace did not report on all %d events: %s" % (lines, res.out[-1500:]))
            os.unlink(path)
            firsts = [x[0] for x in starts]
            out = []
            for b in bl:
                i = bisect.bisect_right(firsts, b["line"]) - 1
                out.append((starts[i][1], b["line"] - starts[i][0] - 1, b["why"]))
            return res, out

        bad = []
        with cf.ThreadPoolExecutor(max_workers=parallel) as pool:
            for res, bl in pool.map(one, self.parts):
                self.chk.add_tlc(res)
                bad += bl
        return bad

    def events_of(self, k, bindirs):
        """re-run run k -> (plan or None, random ref or None, events without skips)"""
        m = self.meta[k]
        bindir = bindirs[m["reset"]["build"]]
        plan = None
        if m.get("plan_ref"):
            path, idx = m["plan_ref"]
            with open(path) as f:
                for i, line in enumerate(f):
                    if i == idx:
                        plan = json.loads(line)
                        break
            ppath = os.path.join(self.chk.work, "rerun_plan.ndjson")
            core.write_ndjson(ppath, [plan])
            runs = run_harness(bindir, ["plan", ppath], env=m.get("env"))
            evs = runs[0][1]
        else:
            r = m["random_ref"]
            cmd = r.get("cmd") or (["random"] + r["args"])
            key = (m["reset"]["build"], json.dumps(cmd), json.dumps(m.get("env")))
            if getattr(self, "_cache_key", None) != key:
                self._cache_key, self._cache = key, run_harness(bindir, cmd, env=m.get("env"))
            evs = self._cache[r["run"]][1]
        return plan, m.get("random_ref"), [e for e in evs if e["ev"] != "skip"]


CLAUSE_OP = {"index_array_does_not_name_the_slots": "reset", "panic_get_slot": "get", "slot_refused_while_ring_not_full": "get", "get_slot_pointer_outside_ring": "get",
             "slot_handed_out_before_consumed": "get", "panic_flush": "flush", "flushed_entry_not_visible_to_kernel": "flush",
             "kernel_sees_entry_never_flushed": "flush", "flush_did_not_return_the_number_of_unconsumed_entries": "flush",
             "needs_wakeup_is_not_the_need_wakeup_bit": "wakeup", "kernel_consumed_entry_never_flushed": "consume",
             "consumed_wrong_entry_or_order": "consume", "panic_reap": "reap", "none_returned_while_completion_pending": "reap",
             "reap_pointer_outside_ring": "reap", "completion_returned_that_was_not_posted": "reap",
             "content_overwritten_between_return_and_read": "read", "wrong_completion_content": "read"}


def report_stream(chk, stream, bad, bindirs, detail_cap=6):
    """turn judged rejections into violations; returns set of rejected run indices.
    Events are regenerated for the first `detail_cap` rejections of each (clause, build)."""
    rejected = set()
    seen = {}
    for (r, e, why) in sorted(bad):
        rejected.add(r)
        m = stream.meta[r]
        reset = m["reset"]
        key = (why, reset["build"])
        seen[key] = seen.get(key, 0) + 1
        h = reset["h"]
        bb = reset.get("boundary_bits") or 32
        pos0 = lambda x: ("2^%d-%d" % (bb, h - x)) if x < h else ("2^%d+%d" % (bb, x - h) if bb < 32 else str(x - h))
        if seen[key] <= detail_cap:
            plan, rnd, evs = stream.events_of(r, bindirs)
            ev = evs[e] if 0 <= e < len(evs) else {"ev": "reset" if e < 0 else "?"}
            shape = shape_of(evs, e) if why == "content_overwritten_between_return_and_read" else None
            pos = ev.get("st")
            wrapped = pos is not None and any(x >= h for x in pos) and any(0 <= x < h for x in [reset["sq0"], reset["cq0"]])
            replay = {"source": m["source"], "plan": plan, "random": rnd, "reset": reset, "events": evs[max(0, e - 40):e + 1], "clause": why}
            m["_sig"] = (ev["ev"], shape)
        else:
            # same clause and build as rejections already documented in full: classify from the trace position only
            # (every clause belongs to one kind of event; a stale read always has the shape reap,post,read)
            shape = "reap,post,read" if why == "content_overwritten_between_return_and_read" else None
            ev = {"ev": CLAUSE_OP.get(why, "?")}
            replay = {"source": m["source"], "plan_ref": m.get("plan_ref"), "random": m.get("random_ref"), "reset": reset, "clause": why}
            wrapped = False
        sig = {"clause": why, "op": ev["ev"], "build": reset["build"]}
        if why == "content_overwritten_between_return_and_read":
            sig["shape"] = shape
        what = "%s: %s (ring sizes %d/%d, flags %d, %s build, counters start at sq=%s cq=%s, step %d%s; %s)" % (
            ev["ev"], why, reset["ns"], reset["nc"], reset.get("flags") or 0, reset["build"], pos0(reset["sq0"]), pos0(reset["cq0"]), e,
            ", after the u32 wrap" if wrapped else "", m["source"])
        chk.violate(sig, what, replay)
    return rejected


def judge(chk, runs, tag, batch=150000, parallel=1):
    """B2: runs -> list of (run index in `runs`, event index within run or -1, clause).
    One TLC call per batch of about `batch` events, `parallel` calls at a time."""
    import concurrent.futures as cf
    parts = []      # (path, lines, where)
    k = 0
    while k < len(runs):
        path = os.path.join(chk.work, "trace_%s_%d.ndjson" % (tag, len(parts)))
        lines = 0
        where = []      # trace line (1-based) -> (run idx, event idx)
        first = k
        with open(path, "w") as f:
            while k < len(runs) and (lines < batch or k == first):
                reset, evs = runs[k]
                f.write(json.dumps({"ev": "reset", "run": k, "ns": reset["ns"], "nc": reset["nc"], "arr": reset.get("arr", list(range(reset["ns"])))}, separators=(",", ":")) + "\n")
                where.append((k, -1))
                lines += 1
                for j, ev in enumerate(evs):
                    if ev["ev"] == "skip":
                        continue
                    f.write(json.dumps({"ev": ev["ev"], **{x: ev[x] for x in SLIM[ev["ev"]]}}, separators=(",", ":")) + "\n")
                    where.append((k, j))
                    lines += 1
                k += 1
        parts.append((path, lines, where))

    def one(part):
        path, lines, where = part
        res = core.run_tlc("RingTrace.tla", "RingTrace.cfg", workers=1, env={"TRACE": path}, timeout=3000,
                           xmx="6g", xss="512m", metadir=os.path.join(core.WORK, "tlc-meta", "c17-%d-%s" % (os.getpid(), os.path.basename(path))))
        core.tlc_must_pass(res, "RingTrace " + tag)
        j = res.printed("RINGJUDGE")
        bl = res.printed("RINGBAD")
        if len(j) != 1 or j[0]["n"] != lines or j[0]["nbad"] != len(bl):
            raise core.ToolError("RingTrace did not report on all %d events: %s" % (lines, res.out[-1500:]))
        os.unlink(path)
        return res, [where[b["line"] - 1] + (b["why"],) for b in bl]

    bad = []
    with cf.ThreadPoolExecutor(max_workers=parallel) as pool:
        for res, bl in pool.map(one, parts):
            chk.add_tlc(res)
            bad += bl
    return bad


def shape_of(evs, upto):
    """schedule shape of a rejected completion read: event kinds since the reap that returned the reference"""
    kinds = []
    for ev in evs[:upto + 1][::-1]:
        if ev["ev"] not in ("reap", "post", "read"):
            continue                      # only what happens on the completion ring matters
        kinds.append(ev["ev"])
        if ev["ev"] == "reap":
            break
    kinds.reverse()
    out = []
    for x in kinds:
        if not out or out[-1] != x:
            out.append(x)
    return ",".join(out)


def report(chk, batch, bad):
    """turn judged rejections into violations; returns set of rejected run indices"""
    rejected = set()
    for (r, e, why) in bad:
        rejected.add(r)
        reset, evs = batch.runs[r]
        source = batch.source[r]
        ev = evs[e] if e >= 0 else reset
        sig = {"clause": why, "op": ev["ev"], "build": reset.get("build")}
        if why == "content_overwritten_between_return_and_read":
            sig["shape"] = shape_of(evs, e)
        pos = ev.get("st")
        h = reset["h"]
        wrapped = pos is not None and any(x >= h for x in pos) and any(0 <= x < h for x in [reset["sq0"], reset["cq0"]])
        pos0 = lambda m: ("2^32-%d" % (h - m)) if m < h else str(m - h)
        what = "%s: %s (ring sizes %d/%d, flags %d, %s build, counters start at sq=%s cq=%s, step %d%s; %s)" % (
            ev["ev"], why, reset["ns"], reset["nc"], reset.get("flags", 0), reset.get("build"),
            pos0(reset["sq0"]), pos0(reset["cq0"]), e, ", after the u32 wrap" if wrapped else "", source)
        chk.violate(sig, what, {"source": source, "plan": batch.plans[r], "random": batch.random[r],
                                "reset": {k: reset[k] for k in ("ns", "nc", "flags", "h", "sq0", "cq0", "build")},
                                "events": evs[max(0, e - 40):e + 1], "clause": why})
    return rejected
