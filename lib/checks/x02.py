"""X02 (growth check, not one of the 20 listed properties) - small parsers and conversions.

  getpwuid_r            specs/Passwd.tla (definition + transcription of the refill loop), PasswdGen.tla
  strlen / buf_strlen   specs/Strlen.tla, StrlenGen.tla          (operands end at a PROT_NONE page)
  openpty slave names   specs/PtyName.tla, PtyNameGen.tla        (fresh devpts instance, numbers 0..299)
  NonNegativeI32, ClockId, Mode, TimeSpec::try_from(Duration), Prng   specs/NumConv.tla, NumConvGen.tla
  host_name             Strlen!NodeName                            (own UTS namespace, sethostname)
  inputs TLC does not enumerate (random / long files, buffers, names): specs/X02Judge.tla

Same technique and verdict rules as C20: TLC enumerates the bounded input space, runs the transcription
and prints the definition's admissible results; the real functions are run on every input (driver
harness/src/bin/x02.rs; a hang (10 ms of CPU), crash or panic is an outcome); a violation is a real
outcome outside the admissible set.  Defects found here are outside the 20 properties: they are listed in
known_findings.d/X02.json (never fixed in /repo) and reported as KNOWN-FINDING lines.
"""
import json
import os
import random

from vlib import core

PID = "X02"
DECOY = b"z:x:9:9::/:/z\n"


def driver(chk, bindir, mode, vecs, tag, timeout=3000):
    path = os.path.join(chk.work, "vec_%s.ndjson" % tag)
    core.write_ndjson(path, vecs)
    p = core.run_cmd([os.path.join(bindir, "x02"), mode, path], timeout=timeout, check=False)
    if p.returncode != 0:
        raise core.ToolError("x02 %s driver failed rc=%s: %s" % (mode, p.returncode, p.stderr[-1500:]))
    out = {}
    for l in p.stdout.splitlines():
        r = json.loads(l)
        out[r["i"]] = r
    if len(out) != len(vecs):
        raise core.ToolError("x02 %s driver answered %d of %d vectors" % (mode, len(out), len(vecs)))
    return [out[i] for i in range(len(vecs))]


def judge(chk, records, tag):
    """-> {index: admissible set (passwd) or None}"""
    from concurrent.futures import ThreadPoolExecutor
    bad = {}
    B = 1000

    def one(k):
        part = records[k:k + B]
        path = os.path.join(chk.work, "judge_%s_%d.ndjson" % (tag, k))
        core.write_ndjson(path, part)
        res = core.run_tlc("X02Judge.tla", "X02Judge.cfg", workers=1, env={"TRACE": path}, timeout=3000, xmx="4g", xss="512m",
                           metadir=os.path.join(core.WORK, "tlc-meta", "X02Judge-%d-%s-%d" % (os.getpid(), tag, k)))
        core.tlc_must_pass(res, "X02Judge")
        j = res.printed("JUDGED")
        if len(j) != 1 or j[0]["n"] != len(part):
            raise core.ToolError("X02Judge did not report on all %d records: %s" % (len(part), res.out[-1500:]))
        adm = {x["i"]: x["adm"] for x in res.printed("BAD")}
        return res, {k + i - 1: adm.get(i) for i in j[0]["bad"]}

    with ThreadPoolExecutor(max_workers=4) as ex:
        for res, b2 in ex.map(one, range(0, len(records), B)):
            chk.add_tlc(res)
            bad.update(b2)
    return bad


# --------------------------------------------------------------------------------------------
# getpwuid_r
# --------------------------------------------------------------------------------------------
def pw_accepts(adm, out):
    if out["r"] == "some":
        return any(a["r"] == "some" and a["f"] == out["f"] for a in adm)
    if out["r"] in ("none", "err"):
        return any(a["r"] == out["r"] for a in adm)
    return False


def pw_class(F, uid, pre, out, adm):
    """label of a rejected outcome (for the signature; the verdict is TLC's admissible set)."""
    if out["r"] == "some":
        e = [bytes(x) for x in out["f"]]
        for line in bytes(F).split(b"\n"):
            parts = line.split(b":", 6)
            if len(parts) == 7 and [parts[k] for k in (0, 1, 4, 5, 6)] == [e[k] for k in (0, 1, 4, 5, 6)]:
                if not parts[2].isdigit() or not parts[3].isdigit():
                    return "malformed_line_as_entry"
                if int(parts[2]) != uid:
                    return "wrong_uid_entry"
                return "later_or_inadmissible_line"
        return "entry_mixes_stale_buffer_bytes" if pre != "zero" else "entry_not_in_file"
    listed = [a for a in adm if a["r"] == "some"]
    other = [a for a in adm if a["r"] != "some"]
    return "uid_not_listed" if not listed else ("uid_listed" if not other else "uid_listed_or_not")


def show_pw(F, uid, B, pre):
    f = bytes(F)
    return "getpwuid_r(%d, buf[%d] prefilled %s) over %r" % (uid, B, pre, f if len(f) <= 60 else f[:50] + b".. (%d bytes)" % len(f))


def show_out(o):
    if o["r"] == "some":
        return "Some(%s)" % b":".join(bytes(x) for x in o["f"]).decode("utf-8", "backslashreplace")
    return {"none": "Ok(None)", "err": "Err", "hang": "HANG (spins: 10 ms of CPU without returning)", "crash": "CRASH", "panic": "PANIC"}[o["r"]]


def show_adm(adm):
    return "{" + ", ".join(sorted(set(show_out(a) for a in adm))) + "}"


def pw_violate(chk, mode, v, out, adm, tr=None):
    cls = pw_class(v["F"], v["uid"], v["pre"], out, adm)
    # as_modelled: the transcription of the pinned code (Passwd!Iter) predicts exactly this outcome
    modelled = "n/a" if tr is None or tr["r"] == "unmodelled" else (tr["r"] == out["r"] and (out["r"] != "some" or tr["f"] == out["f"]))
    chk.violate({"op": "getpwuid_r", "got": out["r"], "class": cls, "as_modelled": modelled},
                "%s gave %s, admissible %s" % (show_pw(v["F"], v["uid"], v["B"], v["pre"]), show_out(out), show_adm(adm)),
                {"mode": "passwd", "F": v["F"], "uid": v["uid"], "B": v["B"], "pre": v["pre"], "actual": out, "admissible": adm, "from": mode})


def check_passwd(chk, bindir, tier, rng):
    quick = tier == "quick"
    confs = [dict(sel=range(1, 14), maxlines=2, uids=[0, 5, 9], bufs=[16, 40], pre=["zero", "decoy"])] if quick else [
        dict(sel=range(1, 14), maxlines=2, uids=[0, 1, 5, 9, 59], bufs=[0, 1, 8, 16, 24, 40, 64], pre=["zero", "nl", "decoy"]),
        dict(sel=[1, 3, 4, 7, 8, 13], maxlines=3, uids=[0, 5, 9], bufs=[16, 24, 64], pre=["zero", "decoy"])]
    n_vec = 0
    drift = 0
    model_bad = 0
    outcomes = {}
    nontriv = set()
    for ci, c in enumerate(confs):
        cfg = os.path.join(chk.work, "PasswdGen_%d.cfg" % ci)
        with open(cfg, "w") as f:
            f.write("CONSTANTS\n  Mode = \"enum\"\n  TemplateSel = {%s}\n  MaxLines = %d\n  UidSet = {%s}\n  BufSet = {%s}\n  PrefillSet = {%s}\n" % (
                ", ".join(map(str, c["sel"])), c["maxlines"], ", ".join(map(str, c["uids"])), ", ".join(map(str, c["bufs"])),
                ", ".join('"%s"' % p for p in c["pre"])))
            f.write("INIT Init\nNEXT Next\nINVARIANT AtEnd\n")
        res = core.run_tlc("PasswdGen.tla", cfg, workers=8, timeout=3000, xmx="8g")
        core.tlc_must_pass(res, "PasswdGen")
        chk.add_tlc(res)
        vecs = res.printed("P")
        for v in vecs:
            v["uid"] = int(bytes(v["uid"]))
        # files: sequences of <= maxlines templates; a final newline can be stripped unless the last line is empty
        t = len(list(c["sel"]))
        nonempty_last = t - (1 if 12 in c["sel"] else 0)
        files = 1 + sum(t ** k + t ** (k - 1) * nonempty_last for k in range(1, c["maxlines"] + 1))
        expect = files * len(c["uids"]) * len(c["bufs"]) * len(c["pre"])
        if len(vecs) != expect:
            raise core.ToolError("PasswdGen printed %d vectors, expected %d" % (len(vecs), expect))
        vecs.sort(key=lambda x: (x["F"], x["B"], x["uid"], x["pre"]))
        outs = driver(chk, bindir, "passwd", [{"F": v["F"], "uid": v["uid"], "B": v["B"], "pre": v["pre"]} for v in vecs], "pw%d" % ci)
        for v, o in zip(vecs, outs):
            n_vec += 1
            chk.evaluations += 1
            out = {"r": o["r"], "f": o.get("f", [])}
            outcomes[out["r"]] = outcomes.get(out["r"], 0) + 1
            if not v["trok"]:
                model_bad += 1
            if pw_accepts(v["adm"], out):
                chk.traces += 1
            else:
                pw_violate(chk, "tlc", v, out, v["adm"], v["tr"])
            tr = v["tr"]
            if tr["r"] != "unmodelled" and not (tr["r"] == out["r"] and (out["r"] != "some" or tr["f"] == out["f"])):
                drift += 1
                chk.extra.setdefault("passwd_first_drift", {"input": show_pw(v["F"], v["uid"], v["B"], v["pre"]),
                                                            "transcription": show_out(tr), "real": show_out(out)})
            nontriv.add((len(bytes(v["F"]).split(b"\n")), v["B"], out["r"], tuple(sorted(a["r"] for a in v["adm"]))))
            if n_vec % 4001 == 0:
                chk.sample({"input": show_pw(v["F"], v["uid"], v["B"], v["pre"]), "admissible": show_adm(v["adm"]), "real": show_out(out)})
        core.log("passwd config %d: %d vectors run and compared (%.0fs)" % (ci, len(vecs), __import__("time").time() - chk.t0))
    # random realistic / long files, judged by TLC
    recs, metas = [], []
    n_files = 12 if quick else 40
    for _ in range(n_files):
        nlines = rng.choice([1, 3, 12, 40])
        uids = rng.sample(range(0, 3000), nlines)
        lines = []
        for u in uids:
            name = "".join(rng.choice("abcdefgh") for _ in range(rng.randint(1, 12)))
            shell = rng.choice(["/bin/sh", "/usr/bin/nologin", "/usr/bin/zsh", ""])
            gecos = rng.choice(["", "System User", "Grüße", "a,b,c"])
            line = ("%s:x:%d:%d:%s:/home/%s:%s" % (name, u, rng.choice([u, 100]), gecos, name, shell)).encode()
            lines.append(line)
        m = rng.randint(0, 5)
        if m == 0:
            lines.insert(rng.randrange(len(lines) + 1), b"# comment line without fields")
        elif m == 1:
            lines.insert(rng.randrange(len(lines) + 1), b"big:x:4294967295:4294967295::/:/s")
        elif m == 2:
            lines.insert(rng.randrange(len(lines) + 1), b"over:x:4294967296:1::/:/s")
        elif m == 3:
            lines.insert(rng.randrange(len(lines) + 1), b"longline:x:77:77:" + b"g" * 300 + b":/:/s")
        F = b"\n".join(lines) + (b"" if rng.random() < 0.25 else b"\n")
        for uid in ([uids[0], uids[-1], 3001, 4294967295] if quick else [uids[0], uids[-1], rng.choice(uids), 3001, 4294967295]):
            for B in ([64, 1024] if quick else [32, 64, 200, 1024]):
                for pre in ("zero", "decoy"):
                    metas.append({"F": list(F), "uid": uid, "B": B, "pre": pre})
    # the random files go through the same TLC machine + definition (PasswdGen, Mode = "file")
    small = metas
    rfile = os.path.join(chk.work, "pwrand_in.ndjson")
    core.write_ndjson(rfile, [dict(m, uid=list(str(m["uid"]).encode())) for m in small])
    cfg = os.path.join(chk.work, "PasswdGen_file.cfg")
    with open(cfg, "w") as f:
        f.write('CONSTANTS\n  Mode = "file"\n  TemplateSel = {}\n  MaxLines = 0\n  UidSet = {}\n  BufSet = {}\n  PrefillSet = {}\n')
        f.write("INIT Init\nNEXT Next\nINVARIANT AtEnd\n")
    res = core.run_tlc("PasswdGen.tla", cfg, workers=8, env={"TRACE": rfile}, timeout=3000, xmx="8g", xss="512m")
    core.tlc_must_pass(res, "PasswdGen (file mode)")
    chk.add_tlc(res)
    pv = {v["n"] - 1: v for v in res.printed("P")}
    if len(pv) != len(small):
        raise core.ToolError("PasswdGen file mode printed %d of %d vectors" % (len(pv), len(small)))
    outs = driver(chk, bindir, "passwd", small, "pwrand")
    for k, (v, o) in enumerate(zip(small, outs)):
        chk.evaluations += 1
        out = {"r": o["r"], "f": o.get("f", [])}
        outcomes[out["r"]] = outcomes.get(out["r"], 0) + 1
        t = pv[k]
        if not t["trok"]:
            model_bad += 1
        if pw_accepts(t["adm"], out):
            chk.traces += 1
        else:
            pw_violate(chk, "tlc-file", v, out, t["adm"], t["tr"])
        tr = t["tr"]
        if tr["r"] != "unmodelled" and not (tr["r"] == out["r"] and (out["r"] != "some" or tr["f"] == out["f"])):
            drift += 1
            chk.extra.setdefault("passwd_first_drift", {"input": show_pw(v["F"], v["uid"], v["B"], v["pre"]),
                                                        "transcription": show_out(tr), "real": show_out(out)})
        nontriv.add(("rand", v["B"], out["r"], len(v["F"]) > v["B"]))
    n_rand = len(small)
    chk.extra["passwd"] = {"tlc_vectors": n_vec, "random_file_lookups": n_rand, "real_outcomes": outcomes,
                           "model_level_failures": model_bad, "transcription_drift": drift}
    return len(nontriv), n_vec, n_rand


# --------------------------------------------------------------------------------------------
def check_strlen(chk, bindir, tier, rng):
    maxlen = 6 if tier == "quick" else 9
    cfg = os.path.join(chk.work, "StrlenGen.cfg")
    with open(cfg, "w") as f:
        f.write("CONSTANTS\n  Alpha = {0, 1, 255}\n  MaxLen = %d\nINIT Init\nNEXT Next\nINVARIANTS NoOverRead ResultIsDefinition Emit\nCHECK_DEADLOCK FALSE\n" % maxlen)
    res = core.run_tlc("StrlenGen.tla", cfg, workers=8, timeout=1800)
    core.tlc_must_pass(res, "StrlenGen")
    chk.add_tlc(res)
    vecs = res.printed("S")
    expect = sum(3 ** k for k in range(maxlen + 1))
    if len(vecs) != expect:
        raise core.ToolError("StrlenGen printed %d vectors, expected %d" % (len(vecs), expect))
    outs = driver(chk, bindir, "strlen", [{"b": v["b"]} for v in vecs], "strlen")
    nontriv = 0

    def cmp(b, o, want_bs, want_sl, how):
        chk.evaluations += 1
        if o["r"] != "ok":
            chk.violate({"op": "strlen", "got": o["r"]}, "strlen/buf_strlen on %d bytes (operand against a guard page): %s" % (len(b), o["r"].upper()),
                        {"mode": "strlen", "b": b if len(b) < 200 else len(b), "actual": o})
            return
        okb = o["buf_strlen"] == want_bs
        oks = want_sl == [] or o["strlen"] == want_sl
        if okb and oks:
            chk.traces += 1
        if not okb:
            chk.violate({"op": "buf_strlen", "got": {1: "ok", 2: "err", 3: "panic"}.get(o["buf_strlen"][0], "?"), "want": {1: "ok", 2: "err"}[want_bs[0]]},
                        "buf_strlen(%s) = %s, definition %s (%s)" % (bytes(b[:40]), o["buf_strlen"], want_bs, how),
                        {"mode": "strlen", "b": b if len(b) < 200 else len(b), "actual": o})
        if not oks:
            chk.violate({"op": "strlen", "got": "panic" if o["strlen"] == [3] else "mismatch"},
                        "strlen(%s) = %s, definition %s (%s)" % (bytes(b[:40]), o["strlen"], want_sl, how),
                        {"mode": "strlen", "b": b if len(b) < 200 else len(b), "actual": o})

    for v, o in zip(vecs, outs):
        cmp(v["b"], o, v["buf_strlen"], v["strlen"], "TLC vector")
        if len(v["b"]) >= 2:
            nontriv += 1
    # long / random buffers, judged by TLC
    longs = []
    for n in ([100, 4096, 4097, 50000] if tier == "quick" else [100, 4095, 4096, 4097, 65536, 200000]):
        base = [rng.choice([1, 65, 255]) for _ in range(n)]
        longs.append(base)                                  # no NUL at all
        longs.append(base[:-1] + [0])                       # NUL is the very last byte (next byte is the guard page)
        k = rng.randrange(n)
        longs.append(base[:k] + [0] + base[k + 1:])
        longs.append([0] + base[1:])
    louts = driver(chk, bindir, "strlen", [{"b": b} for b in longs], "strlen_long")
    recs = [{"k": "strlen", "b": b, "buf_strlen": o.get("buf_strlen", [9]), "strlen": o.get("strlen") or []} for b, o in zip(longs, louts)]
    bad = judge(chk, recs, "strlen")
    chk.evaluations += len(recs)
    chk.traces += len(recs) - len(bad)
    for k in sorted(bad):
        chk.violate({"op": "strlen", "got": "mismatch_long"}, "strlen/buf_strlen on a %d-byte buffer gave %s / %s, rejected by X02Judge" % (
            len(longs[k]), recs[k]["buf_strlen"], recs[k]["strlen"]), {"mode": "strlen", "len": len(longs[k]), "actual": louts[k]})
    chk.extra["strlen"] = {"tlc_vectors": len(vecs), "judged_long_buffers": len(recs)}
    return nontriv + len(recs), len(vecs)


def check_pty(chk, bindir, tier):
    count = 300
    res = core.run_tlc("PtyNameGen.tla", "PtyNameGen.cfg", workers=1, timeout=600)
    core.tlc_must_pass(res, "PtyNameGen")
    chk.add_tlc(res)
    exp = {v["k"]: v["adm"] for v in res.printed("T")}
    if len(exp) != count:
        raise core.ToolError("PtyNameGen printed %d vectors" % len(exp))
    p = core.run_cmd([os.path.join(bindir, "x02"), "pty", str(count)], timeout=600, check=False)
    if p.returncode != 0:
        raise core.ToolError("x02 pty failed rc=%s: %s" % (p.returncode, p.stderr[-800:]))
    outs = {json.loads(l)["k"]: json.loads(l) for l in p.stdout.splitlines()}
    okc = 0
    for k in range(count):
        o = outs.get(k)
        if o is None:
            raise core.ToolError("x02 pty: no answer for pty %d" % k)
        chk.evaluations += 1
        good = any((a["r"] == "ok" and o["r"] == "ok" and bytes(a["slave"]).decode() == o["slave"] and o["ptn"] == k) or
                   (a["r"] == "err" and o["r"] == "err") for a in exp[k])
        if good:
            chk.traces += 1
            okc += o["r"] == "ok"
        else:
            chk.violate({"op": "openpty", "got": o["r"], "range": "u8" if k <= 255 else "above_u8"},
                        "openpty(None, None, None) for pty number %d gave %s, expected slave /dev/pts/%d" % (k, json.dumps(o), k),
                        {"mode": "pty", "k": k, "actual": o})
    chk.extra["pty"] = {"numbers": count, "slaves_opened_by_name": okc}
    return okc


def from_limbs(l, base):
    n = 0
    for x in reversed(l):
        n = n * base + x
    return n


def check_num(chk, bindir, tier):
    res = core.run_tlc("NumConvGen.tla", "NumConvGen.cfg", workers=4, timeout=600)
    core.tlc_must_pass(res, "NumConvGen")
    chk.add_tlc(res)
    vecs = res.printed("N")
    if len(vecs) != res.distinct or not vecs:
        raise core.ToolError("NumConvGen printed %d vectors for %d states" % (len(vecs), res.distinct))
    nv, pv = [], []
    for v in vecs:
        if v["op"] == "prng":
            pv.append((v, {"seed": str(from_limbs(v["a"], 4096)), "n": v["b"]}))
        elif v["op"] == "timespec":
            nv.append((v, {"op": "timespec", "secs": str(from_limbs(v["a"], 10000)), "nanos": v["b"]}))
        else:
            nv.append((v, {"op": v["op"], "a": v["a"], "b": v["b"]}))
    nouts = driver(chk, bindir, "num", [x[1] for x in nv], "num")
    pouts = driver(chk, bindir, "prng", [x[1] for x in pv], "prng")

    def bad(op, what, inp, o, e):
        chk.violate({"op": op, "got": what}, "%s(%s) gave %s, definition %s" % (op, inp, json.dumps(o)[:200], json.dumps(e)[:200]),
                    {"mode": "num", "input": inp, "actual": o, "expected": e})

    for (v, inp), o in zip(nv, nouts):
        chk.evaluations += 1
        e, op = v["exp"], v["op"]
        ok = False
        if op == "comptime":
            ok = any((x["r"] == "panic" and o["r"] == "panic") or (x["r"] == "ok" and o["r"] == "ok" and o["value"] == x["value"]) for x in e)
        elif o["r"] != "ok":
            ok = False
        elif op == "try_new":
            a = e["value"]
            ok = (o["ok"] == e["ok"]) and (o["err"] == a if not e["ok"] else
                                           (o["value"] == a and o["u32"] == a and o["u64"] == str(a) and o["u128"] == str(a)
                                            and o["usize"] == str(a) and o["display"] == str(a)))
        elif op == "bits":
            ok = (o["and"] == e["and"] and o["or"] == e["or"] and o["and_assign"] == e["and"] and o["or_assign"] == e["or"]
                  and o["cmp"] == e["cmp"] and o["eq"] == e["eq"])
        elif op == "consts":
            ok = o["max"] == e["max"] and o["zero"] == e["zero"] and o["default"] == e["default"]
        elif op == "clockid":
            ok = o["from"] == e["from"] and o["from_raw"] == e["from_raw"]
        elif op == "mode":
            ok = o["bits"] == e["bits"]
        elif op == "timespec":
            ok = o["ok"] == e["ok"] and (not e["ok"] or (o["sec"] == str(from_limbs(e["sec"], 10000)) and o["nsec"] == e["nsec"]))
        if ok:
            chk.traces += 1
        else:
            bad(op, o["r"] if o["r"] != "ok" else "mismatch", inp, o, e)
    for (v, inp), o in zip(pv, pouts):
        chk.evaluations += 1
        want = [str(from_limbs(x, 4096)) for x in v["exp"]]
        if o["r"] == "ok" and o["a"] == want and o["b"] == want and o["iter"] == want:
            chk.traces += 1
        else:
            bad("Prng", o["r"] if o["r"] != "ok" else "mismatch", inp, o, want)
    chk.extra["numconv"] = {"conversion_vectors": len(nv), "prng_seeds": len(pv), "prng_outputs_per_seed": pv[0][0]["b"] if pv else 0}
    chk.sample({"prng_seed": pv[0][1]["seed"], "outputs": pouts[0].get("a", [])[:3]} if pv else {})
    return len(nv) + len(pv)


def check_hostname(chk, bindir, tier, rng):
    names = [b"host-a", b"a", b"", b"x" * 64, b"x" * 63, b"\xff\x41", b"ab\x00cd", "é".encode(), b"\xc3", b"UPPER.example.org",
             b"\x00", b"\xed\xa0\x80", "名前".encode()]
    for _ in range(10 if tier == "quick" else 100):
        names.append(bytes(rng.choice([0x2d, 0x61, 0x7a, 0xc3, 0xa9, 0xff, 0x00, 0x30]) for _ in range(rng.randint(1, 64))))
    outs = driver(chk, bindir, "hostname", [{"name": list(n)} for n in names], "host")
    recs, idx = [], []
    for n, o in zip(names, outs):
        if o["r"] == "refused":
            continue
        idx.append(n)
        recs.append({"k": "host", "name": list(n), "out": {"r": o["r"], "name": o.get("name", [])}})
    bad = judge(chk, recs, "host")
    chk.evaluations += len(recs)
    chk.traces += len(recs) - len(bad)
    for k in sorted(bad):
        chk.violate({"op": "host_name", "got": recs[k]["out"]["r"]}, "host_name() with the kernel's nodename %r gave %s" % (idx[k], recs[k]["out"]),
                    {"mode": "host", "name": recs[k]["name"], "actual": recs[k]["out"]})
    chk.extra["host_name"] = {"names": len(recs)}
    return len(recs)


def run(tier):
    chk = core.Check(PID, tier, "model_checking")
    bindir = core.cargo_build(bins=["x02"])
    rng = random.Random(chk.seed)
    nt_pw, n_pw, n_pwr = check_passwd(chk, bindir, tier, rng)
    nt_sl, n_sl = check_strlen(chk, bindir, tier, rng)
    n_pty = check_pty(chk, bindir, tier)
    n_num = check_num(chk, bindir, tier)
    n_host = check_hostname(chk, bindir, tier, rng)
    chk.nontrivial = nt_pw + nt_sl + n_pty + n_num + n_host
    chk.exhaustive = True
    chk.rule = ("getpwuid_r: TLC (PasswdGen.tla) builds every file of <= 2 (3) lines from 13 line templates (valid, empty / non-numeric / signed uid, "
                "missing fields, empty name, 8 fields, leading zero, non-UTF-8, empty, long) with and without the final newline, x uids x buffer sizes x "
                "initial buffer contents (%d vectors), runs the transcribed refill loop and prints the admissible results; the real getpwuid_r is run on each "
                "over a bind-mounted /etc/passwd (hang = 30 ms CPU); %d runs on random realistic/long files judged by TLC. strlen/buf_strlen: every byte "
                "string of length <= %d over {0,1,255} (%d) + long buffers, operand against a guard page. openpty: pty numbers 0..299 of a fresh devpts "
                "instance. %d conversion / Prng vectors, %d host names. non-trivial = distinct (lines, buffer, outcome, admissible classes) of passwd "
                "vectors + strlen operands of >= 2 bytes + slaves opened by formatted name + conversion vectors + host names"
                % (n_pw, n_pwr, 6 if tier == "quick" else 9, n_sl, n_num, n_host))
    chk.assumptions = [
        "growth check outside the 20 listed properties: genuine defects are listed in known_findings.d/X02.json, not fixed",
        "getpwuid_r reads a regular file (a read is short only at end of file); admissible: skip-or-fail on malformed lines, none-or-error when not "
        "listed or when a scanned line does not fit the buffer, both readings for >7 fields / leading zeros / empty name / unterminated last line",
        "strlen is only called on operands that contain a NUL (its safety contract)",
        "pty numbers above 255: an error or the right slave are both admitted",
    ]
    return chk.finish()


def replay(path):
    rp = json.load(open(path))["replay"]
    chk = core.Check(PID, "quick", "model_checking")
    bindir = core.cargo_build(bins=["x02"])
    if rp.get("mode") == "passwd":
        o = driver(chk, bindir, "passwd", [{"F": rp["F"], "uid": rp["uid"], "B": rp["B"], "pre": rp["pre"]}], "replay")[0]
        out = {"r": o["r"], "f": o.get("f", [])}
        print("replayed %s -> %s" % (show_pw(rp["F"], rp["uid"], rp["B"], rp["pre"]), show_out(out)))
        bad = judge(chk, [{"k": "passwd", "F": rp["F"], "uid": list(str(rp["uid"]).encode()), "B": rp["B"], "out": out}], "replay")
        print("rejected by X02Judge, admissible %s" % show_adm(bad[0] or []) if bad else "accepted by X02Judge")
        return 1 if bad else 0
    print("replay input:", json.dumps(rp)[:2000])
    return 0
