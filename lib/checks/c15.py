"""C15 - Read/Write helpers are exact for any pattern of short transfers, EINTR, errors.

1. TLC model-checks the transcription of tiny-std/src/io.rs (specs/IoHelpers.tla) against the
   definitional operators on bounded families of scripts (IoHelpers_MC.tla) and prints every
   complete behaviour (case + call log + outcome).
2. harness/src/bin/iohelp.rs runs the REAL helpers on every case with scripted readers/writers
   that log every call.
3. TLC (IoHelpersTrace.tla) judges every recorded run against the definitional operators
   (property level -> VIOLATION) and replays every call log through the transcription
   (algorithm level -> conformance / model drift, never a violation by itself).
4. random long scripts (python RNG, seeded) go through 2 + 3 as well.
"""
import json
import os
import random
import shutil
import time
from concurrent.futures import ThreadPoolExecutor

from vlib import core

FAMILIES = {
    #            family  L  workers
    "quick": [("all", 3)],
    "thorough": [("rte5", 5), ("rte", 4), ("rte2", 4), ("rex", 4), ("rts", 9), ("rtsbig", 4), ("utf8", 4), ("eintr", 4), ("wa", 4), ("wf", 4)],
}
ID_FAMILIES = {"rte", "rte2", "rex", "wa", "wf"}
INVARIANTS = "Correct NoBad CarrySound ProbeOnlyExactFit NotStuck Emit"


ALL_BRANCHES = (["read:" + k for k in ("data", "eof", "eintr", "err", "reserve", "carried_init", "exact_fit")]
                + ["probe:" + k for k in ("data", "eof", "eintr", "err")]
                + ["guard:invalid_utf8", "guard:invalid_utf8_and_error", "guard:valid_utf8", "return"]
                + ["exact:" + k for k in ("data", "eof", "eintr", "err", "filled", "unexpected_eof")]
                + ["write:" + k for k in ("acc", "short", "zero", "eintr", "err", "complete", "formatter_error")])


def id_data(n):
    return [((i - 1) % 200) + 1 for i in range(1, n + 1)]


def id_init(n):
    return [201 + (j % 50) for j in range(1, n + 1)]


def case_key(c):
    return json.dumps([c["op"], c["script"], c["data"], c["init"], c["cap0"], c["n"], c["pieces"], c.get("ff", 0), c.get("fmtid")],
                      separators=(",", ":"))


def model_family(chk, fam, L, workers, grow_extra="{}"):
    cfg = os.path.join(chk.work, "mc_%s.cfg" % fam)
    with open(cfg, "w") as f:
        f.write('CONSTANTS\n  Family = "%s"\n  L = %d\n  GrowExtra = %s\n  Grow <- MCGrow\n  ProbeGrow <- MCProbeGrow\n' % (fam, L, grow_extra))
        f.write("INIT MCInit\nNEXT Next\nINVARIANTS %s\nCHECK_DEADLOCK FALSE\n" % INVARIANTS)
    res = core.run_tlc("IoHelpers_MC.tla", cfg, workers=workers, timeout=3400, xmx="8g",
                       env={"JAVA_TOOL_OPTIONS": "-XX:-UseGCOverheadLimit"},   # a starved machine must not turn slow GC into OOM
                       metadir=os.path.join(chk.work, "md_mc_%s_%d" % (fam, os.getpid())))
    core.tlc_must_pass(res, "IoHelpers_MC family " + fam)
    beh = res.printed("B")
    if not beh:
        raise core.ToolError("IoHelpers_MC family %s printed no behaviour" % fam)
    for b in beh:
        b["ids"] = b["op"] != "read_to_string"     # byte contents regenerated (IdData / IdInit)
        if b["ids"]:
            b["data"] = id_data(b["dlen"])
            b["init"] = id_init(b["ilen"])
        b["fam"] = fam
    return res, beh


def run_driver(chk, bindir, cases, tag):
    """runs the real helpers on every case.  A crash of the code under test (signal) is data: the
    case gets a "crashed" outcome and the run resumes behind it."""
    path = os.path.join(chk.work, "cases_%s.ndjson" % tag)
    core.write_ndjson(path, cases)
    outs = {}
    skip, flush, crashes = 0, False, 0
    while True:
        p = core.run_cmd([os.path.join(bindir, "iohelp"), "run", path, str(skip)], timeout=1800, check=False,
                         env={"IOHELP_FLUSH": "1"} if flush else None)
        crashed_at = None
        for l in p.stdout.splitlines():
            l = l.strip()
            if not l:
                continue
            try:
                r = json.loads(l)
            except ValueError:
                continue            # a line cut off by the crash
            if "crash" in r:
                crashed_at = r["crash"]
            elif "i" in r:
                outs[r["i"]] = r
        if p.returncode == 0:
            break
        missing = [i for i in range(len(cases)) if i not in outs]
        if not missing:
            break
        first = missing[0]
        if flush and (crashed_at is None or crashed_at == first):
            crashes += 1
            if crashes > 200:
                # the code under test crashes all over the place: the verdict is clear, stop executing
                for i in missing[1:]:
                    outs[i] = None      # not executed
            outs[first] = {"i": first, "calls": [], "err": -2, "rn": 0, "buf": [], "pos": 0, "cap": 0, "cap_start": 0,
                           "panic": "crashed (rc=%s%s)" % (p.returncode, ", signal reported by the driver" if crashed_at is not None else "")}
            skip = first + 1
        else:
            skip = first
        flush = True
    if len(outs) != len(cases):
        raise core.ToolError("iohelp reported %d results for %d cases" % (len(outs), len(cases)))
    return [outs[i] for i in range(len(cases))]


def judge(chk, cases, outs, tag, batch=6000, workers=4, par=2):
    """TLC judges every recorded run.  Returns (bad indices, set of conforming indices)."""
    bad, conf = [], set()
    trace_acts = chk.extra.setdefault("branches_taken_by_real_runs", {})

    def one(k):
        lines = []
        for c, o in zip(cases[k:k + batch], outs[k:k + batch]):
            lines.append({"op": c["op"], "script": c["script"], "data": c["data"], "init": c["init"],
                          "cap0": c["cap0"], "n": c["n"], "pieces": c["pieces"], "ff": c.get("ff", 0),
                          "calls": o["calls"], "err": o["err"], "rn": o["rn"], "buf": o["buf"],
                          "pos": o["pos"], "panic": o["panic"] or ""})
        path = os.path.join(chk.work, "trace_%s_%d.ndjson" % (tag, k))
        core.write_ndjson(path, lines)
        res = core.run_tlc("IoHelpersTrace.tla", "IoHelpersTrace.cfg", workers=workers, env={"TRACE": path},
                           timeout=3000, xmx="6g", xss="256m",
                           metadir=os.path.join(chk.work, "md_tr_%s_%d_%d" % (tag, k, os.getpid())))
        core.tlc_must_pass(res, "IoHelpersTrace " + tag)
        j = res.printed("JUDGED")
        if len(j) != 1 or j[0]["n"] != len(lines):
            raise core.ToolError("IoHelpersTrace did not report on all %d lines: %s" % (len(lines), res.out[-1500:]))
        conforming = set()
        for l in res.out.splitlines():
            if l.startswith('<<"T", ') and l.endswith(", TRUE>>"):
                conforming.add(k + int(l[7:].split(",")[0]) - 1)
        for a in res.printed("A"):
            for t in a:
                trace_acts[t] = trace_acts.get(t, 0) + 1
        return res, [k + i - 1 for i in j[0]["bad"]], conforming, len(lines)

    with ThreadPoolExecutor(max_workers=par) as ex:
        for res, b, cf, n in ex.map(one, range(0, len(cases), batch)):
            chk.add_tlc(res)
            chk.traces += n
            bad += b
            conf |= cf
    return sorted(bad), conf


NFMT = 23


def fmt_cases():
    """write_fmt over real format_args! universes (char arguments, fill characters, {:?} escapes,
    nested write!; literal-only format strings): the driver fills in data / pieces from core's own formatting (format!)."""
    A = lambda k: {"t": "a", "k": k}
    E, Z = {"t": "eintr", "k": 0}, {"t": "zero", "k": 0}
    EK = lambda k: {"t": "eintr", "k": k}
    R = lambda e: {"t": "err", "k": e}
    scripts = [[], [A(1)] * 8, [A(2)] * 6, [A(3)] * 5, [E, A(1), E, A(2)], [R(5)], [A(1), R(5)], [A(2), A(1), R(11)],
               [Z], [A(1), Z], [A(1), A(1), A(1), R(5)], [E, E, E], [A(1), A(2), A(1), A(2), A(1), R(28)],
               [E], [E, R(5)], [E, Z], [A(1), E, A(1)], [A(1), E, R(5)], [Z, R(5)], [E, A(100)],
               [EK(130), A(2), EK(300), A(1), EK(1000)], [A(1), EK(130), R(5)], [EK(1000)]]
    return [{"op": "write_fmt", "script": sc, "data": [], "init": [], "cap0": 0, "n": 0, "pieces": [], "ff": 0, "fmtid": i}
            for i in range(NFMT) for sc in scripts]


# ------------------------------------------------------------------------------------------
# random long cases (sizes beyond the TLC-enumerated families)
# ------------------------------------------------------------------------------------------
def rand_utf8(rng, nchars, invalid):
    pool = [0x41, 0x7a, 0xe9, 0x3b1, 0x20ac, 0xd55c, 0x1f600, 0x10ffff, 0x7ff, 0x800, 0xffff, 0x10000]
    b = []
    for _ in range(nchars):
        b += list(chr(rng.choice(pool)).encode("utf-8"))
    if invalid and b:
        how = rng.randrange(4)
        at = rng.choice([0, len(b) // 2, len(b) - 1])
        if how == 0:
            b[at] = 0xFF
        elif how == 1:
            b = b[:max(1, len(b) - 1)] if b[-1] >= 0x80 else b + [0xC3]
        elif how == 2:
            b.insert(at, 0x80 if at == 0 or b[at - 1] < 0x80 else 0xC0)
        else:
            b[at:at + 1] = [0xED, 0xA0, 0x80]
    return b


def random_cases(rng, count):
    cases = []
    for _ in range(count):
        op = rng.choice(["read_to_end", "read_to_end", "read_to_string", "read_to_string", "read_exact", "write_all", "write_fmt"])
        nitems = rng.randint(0, 12)
        if op.startswith("read"):
            script = []
            for _ in range(nitems):
                x = rng.random()
                if x < 0.75:
                    script.append({"t": "c", "k": rng.choice([1, 2, 3, 7, 8, 15, 16, 31, 32, 33, 63, 64, 65, 100, 127, 128, 129, 300])})
                elif x < 0.93:
                    script.append({"t": "eintr", "k": rng.choice([0, 0, 0, 2, 129, 130, 300])})
                elif x < 0.97:
                    script.append({"t": "eof", "k": 0})
                else:
                    script.append({"t": "err", "k": rng.choice([5, 11, 32, 104])})
            total = sum(i["k"] for i in script if i["t"] == "c")
            ilen = rng.choice([0, 0, 1, 5, 31, 32, 33, 64, 100])
            cap0 = ilen + rng.choice([0, 0, 0, 1, 31, 32, 33, total, max(0, total - 1), total + 1, 200])
            if op == "read_to_string":
                data = []
                while len(data) < total:
                    data += rand_utf8(rng, rng.randint(1, 20), False)
                data = data[:total] if rng.random() < 0.3 else data  # cutting may split a character
                if rng.random() < 0.3:
                    bad = rand_utf8(rng, 3, True)
                    at = rng.choice([0, len(data) // 2, len(data)])
                    data[at:at] = bad
                if len(data) < total:
                    data += [0x61] * (total - len(data))
                init = list(("Aé€" * 40).encode("utf-8"))
                # keep init valid UTF-8: cut at a character boundary
                while ilen > 0 and ilen < len(init) and (init[ilen] & 0xC0) == 0x80:
                    ilen -= 1
                init = init[:ilen]
                cap0 = max(cap0, len(init))
            else:
                data = [rng.randrange(256) for _ in range(total)]
                init = [rng.randrange(256) for _ in range(ilen)]
            n = rng.choice([0, 1, total, total + 1, max(0, total - 1), total // 2, 32, 33]) if op == "read_exact" else 0
            if op == "read_exact":
                init, cap0 = [], 0
            cases.append({"op": op, "script": script, "data": data, "init": init, "cap0": cap0, "n": n, "pieces": []})
        else:
            script = []
            for _ in range(nitems):
                x = rng.random()
                if x < 0.75:
                    script.append({"t": "a", "k": rng.choice([1, 2, 3, 7, 31, 32, 33, 64, 100, 1000])})
                elif x < 0.92:
                    script.append({"t": "eintr", "k": rng.choice([0, 0, 0, 2, 129, 130, 300])})
                elif x < 0.96:
                    script.append({"t": "zero", "k": 0})
                else:
                    script.append({"t": "err", "k": rng.choice([5, 11, 32, 28])})
            m = rng.choice([0, 1, 2, 31, 32, 33, 100, 257])
            data = [rng.randrange(1, 128) for _ in range(m)]
            pieces = [m]
            c = {"op": op, "script": script, "data": data, "init": [], "cap0": 0, "n": 0, "pieces": pieces}
            if op == "write_fmt":
                cuts = sorted(rng.randint(0, m) for _ in range(rng.randint(0, 5)))
                pieces = [b - a for a, b in zip([0] + cuts, cuts + [m])]
                c["pieces"] = pieces
                c["ff"] = 1 if rng.random() < 0.25 else 0
            cases.append(c)
    return cases


def run_print(chk, bindir, tier):
    """unix/print.rs: the macros' writer over a pipe with signal-induced short writes / EINTR."""
    rounds = 4 if tier == "quick" else 30
    def parse(p):
        out = []
        for l in p.stdout.splitlines():
            try:
                out.append(json.loads(l))
            except ValueError:
                pass
        return [r for r in out if isinstance(r, dict) and "op" in r]

    trips = chk.extra.setdefault("wall_clock_trips_not_reproduced", [])

    def load_scale():
        try:
            # scaled with the load, but bounded: a true hang must not cost hours to confirm
            return min(3.0, max(1.0, os.getloadavg()[0] / (os.cpu_count() or 1)))
        except OSError:
            return 1.0

    def run_mode(mode, n):
        """print / pipe driver; its only wall-clock verdict is the SIGALRM watchdog: a death by SIGALRM is
        re-run alone twice with a 5x (load-scaled) watchdog and believed only if it dies both times"""
        p = core.run_cmd([os.path.join(bindir, "iohelp"), mode, str(chk.seed), str(n)], timeout=3000, check=False)
        if p.returncode == -14:
            scale = int(5 * load_scale()) + 1
            again = [core.run_cmd([os.path.join(bindir, "iohelp"), mode, str(chk.seed), str(n)], timeout=20000, check=False,
                                  env={"IOHELP_ALARM_SCALE": str(scale)}) for _ in range(2)]
            good = [q for q in again if q.returncode != -14]
            if good:
                trips.append({"mode": mode, "what": "watchdog (SIGALRM) fired once, not in an isolated re-run with a %dx limit" % scale})
                return good[0]
        return p

    p = run_mode("print", rounds)
    recs = parse(p)
    if p.returncode != 0:
        # the code under test brought the driver down (abort / segfault): data, not a tool failure
        chk.violate({"op": "print", "kind": "crash"},
                    "the print-macro driver died with rc=%s after %d runs: %s" % (p.returncode, len(recs), p.stderr[-300:].strip()),
                    {"mode": "print", "record": {"rc": p.returncode}})
    elif not recs:
        raise core.ToolError("iohelp print produced nothing: " + p.stderr[-500:])
    # the helpers on a File over a kernel pipe, real EINTR / short transfers
    p = run_mode("pipe", 3 if tier == "quick" else 40)
    precs = parse(p)
    if p.returncode != 0:
        chk.violate({"op": "pipe", "kind": "crash"},
                    "the pipe driver died with rc=%s after %d runs (next: run %d): %s" % (p.returncode, len(precs), len(precs) + 1, p.stderr[-300:].strip()),
                    {"mode": "pipe", "record": {"rc": p.returncode, "completed_runs": len(precs)}})
    elif not precs:
        raise core.ToolError("iohelp pipe produced nothing: " + p.stderr[-500:])
    # the helpers on every concrete implementor of Read / Write (their own overrides included)
    import re
    impls = set()
    for root, _, files in os.walk(os.path.join(core.REPO, "tiny-std", "src")):
        for fn in files:
            if fn.endswith(".rs"):
                for m in re.finditer(r"impl(?:<[^>]*>)?\s+(?:crate::io::)?(Read|Write)\s+for\s+&?([A-Za-z_][A-Za-z0-9_]*)", open(os.path.join(root, fn)).read()):
                    impls.add(m.group(2))
    impls -= {"Adapter", "ArgParseCauseBuffer", "__UnixWriter"}     # core::fmt::Write implementors
    idir = os.path.join(chk.work, "impls")
    p = core.run_cmd([os.path.join(bindir, "ioimpls"), idir], timeout=1200, check=False)
    irecs = parse(p)
    if p.returncode != 0:
        chk.violate({"op": "impl", "kind": "crash"},
                    "the concrete-implementor driver died with rc=%s after %d runs: %s" % (p.returncode, len(irecs), p.stderr[-300:].strip()),
                    {"mode": "impl", "record": {"rc": p.returncode, "completed_runs": len(irecs)}})
    elif not irecs:
        raise core.ToolError("ioimpls produced nothing: " + p.stderr[-500:])
    # a "hang" is a wall-clock verdict: each one is re-run ALONE twice with >= 5x the limit (more when the
    # machine is loaded) and stays a hang only if it does not return in both; otherwise the re-run's
    # record is judged instead and the trip is noted
    for k, r in enumerate(list(irecs)):
        if not r.get("hang"):
            continue
        lim = int(r.get("limit_s", 10) * 5 * load_scale()) + 1
        rer = []
        for j in range(2):
            q = core.run_cmd([os.path.join(bindir, "ioimpls"), "%s-re%d-%d" % (idir, r["idx"], j)], timeout=lim * 3 + 600, check=False,
                             env={"IOIMPLS_ONLY": str(r["idx"]), "IOIMPLS_LIMIT": str(lim)})
            rr = [x for x in parse(q) if x.get("idx") == r["idx"]]
            rer.append(rr[0] if rr else None)
            if rr and not rr[0]["hang"]:
                break
        returned = [x for x in rer if x is not None and not x["hang"]]
        if returned:
            trips.append({"mode": "impl", "imp": r["imp"], "kind": r["kind"], "case": r["case"],
                          "what": "no answer within %d s in the full run, returned in an isolated re-run (limit %d s)" % (r.get("limit_s", 10), lim)})
            irecs[k] = returned[0]
        else:
            r["case"] += " [hang reproduced in 2 of 2 isolated re-runs with a limit of %d s]" % lim
    covered = sorted({r["imp"] for r in irecs})
    chk.extra["io_implementors_in_source"] = sorted(impls)
    chk.extra["io_implementors_driven"] = covered
    chk.extra["io_implementors_not_driven"] = sorted(impls - set(covered))
    chk.extra["implementor_runs"] = len(irecs)
    allr = recs + precs + irecs
    if not allr:
        return []
    path = os.path.join(chk.work, "print_pipe.ndjson")
    core.write_ndjson(path, allr)
    res = core.run_tlc("IoHelpersTrace.tla", "IoHelpersPrint.cfg", workers=1, env={"TRACE": path}, timeout=900,
                       metadir=os.path.join(chk.work, "md_print_%d" % os.getpid()))
    core.tlc_must_pass(res, "IoHelpersTrace (print/pipe records)")
    j = res.printed("JUDGED")
    if len(j) != 1 or j[0]["n"] != len(allr):
        raise core.ToolError("print/pipe records not judged: " + res.out[-1000:])
    chk.add_tlc(res)
    chk.traces += len(allr)
    for i in j[0]["bad"]:
        r = allr[i - 1]
        if r["op"] == "impl":
            kind = "hang" if r["hang"] else ("panic" if r["panic"] else ("error" if r["plan"] == 0 and r["ok"] != 1 else
                   ("error_swallowed" if r["plan"] == 1 else ("count" if r["mismatch"] == -1 and r["rlen"] == r["len"] else "lost_or_duplicated"))))
            chk.violate({"op": "impl_%s_%s" % (r["imp"], r["kind"]), "kind": kind},
                        "%s::%s, %s: %s" % (r["imp"], r["kind"], r["case"],
                                            ("no answer within the limit (hang)" if r["hang"] else
                                             ("PANIC " + r["panic"] if r["panic"] else
                                              "ok=%s, %d of %d expected bytes, first difference at %d, count %d, plan %d" % (
                                                  r["ok"], r["rlen"], r["len"], r["mismatch"], r["count"], r["plan"])))),
                        {"mode": "impl", "record": r})
        elif r["op"] == "print":
            kind = "wrong_descriptor" if r.get("stray") else ("lost_or_duplicated" if r["mismatch"] != -1 or r["rlen"] > r["len"] else "incomplete")
            chk.violate({"op": "print", "kind": kind},
                        "%s of %d bytes over a pipe (%d signals): descriptor received %d bytes (%d on the other standard descriptor), first difference at %d, newline %s, result %s" % (
                            r["kind"], r["len"], r["signals"], r["rlen"], r.get("stray", 0), r["mismatch"], r["nl"], {0: "Err", 1: "Ok", 2: "discarded"}[r["ok"]]),
                        {"mode": "print", "record": r})
        else:
            kind = "error" if r["ok"] != 1 else ("count" if r["mismatch"] == -1 and r["rlen"] == r["len"] else "lost_or_duplicated")
            chk.violate({"op": "pipe_" + r["kind"], "kind": kind},
                        "%s of %d bytes on a File over a pipe (%d signals): ok=%s, %d bytes arrived, first difference at %d, count %d" % (
                            r["kind"], r["len"], r["signals"], r["ok"], r["rlen"], r["mismatch"], r["count"]),
                        {"mode": "pipe", "record": r})
    chk.extra["pipe_runs"] = len(precs)
    chk.extra["pipe_signals_sent"] = sum(r["signals"] for r in precs)
    chk.extra["print_path_runs"] = len(recs)
    chk.extra["print_path_runs_with_signal_during_write"] = sum(1 for r in recs if r["signals"] > 0)
    chk.extra["print_path_cut_short_by_eintr"] = sum(1 for r in recs if r["rlen"] < r["len"])
    return recs + precs + irecs


def falsify(rng, c, o):
    """a recorded run with one observation falsified (anti-vacuity of the judge)"""
    o = json.loads(json.dumps(o))
    how = rng.randrange(5)
    is_w = c["op"].startswith("write")
    if o["err"] != 0 and not is_w:
        how = 4     # after an error the statement leaves the buffer open (any prefix): only the error itself can be falsified
    if how == 0 and o["buf"]:
        o["buf"] = o["buf"][:-1]                       # a byte lost
    elif how == 1 and o["buf"]:
        k = rng.randrange(len(o["buf"]))
        o["buf"] = o["buf"][:k] + [o["buf"][k]] + o["buf"][k:]   # a byte duplicated
    elif how == 2 and len(o["buf"]) >= 2 and o["buf"][-1] != o["buf"][-2]:
        o["buf"][-1], o["buf"][-2] = o["buf"][-2], o["buf"][-1]  # order
    elif how == 3 and c["op"] in ("read_to_end", "read_to_string") and o["err"] == 0:
        o["rn"] += 1                                    # count
    else:
        o["err"] = 5 if o["err"] == 0 else 0            # error swallowed / invented
        if is_w and o["calls"] and o["calls"][-1][1] == "err" and o["err"] == 0:
            pass
    return o


# ------------------------------------------------------------------------------------------
def classify(c, o, models):
    if o["panic"]:
        return "crash" if o["panic"].startswith("crashed") else "panic"
    if models:
        m = models[0]
        if m["err"] != o["err"]:
            return "error"
        if m["rn"] != o["rn"]:
            return "count"
        if m["blen"] != len(o["buf"]):
            return "buffer_length"
        return "buffer_content"
    return "rejected"


def script_str(s):
    return " ".join((i["t"] + (str(i["k"]) if i["t"] in ("c", "a", "err") else ("x%d" % i["k"] if i["t"] == "eintr" and i["k"] > 1 else ""))) for i in s)


def nontrivial(c):
    """a case is non-trivial when its script has a short transfer, an EINTR or an error in it"""
    return len(c["script"]) >= 2 or any(i["t"] in ("eintr", "err", "zero") for i in c["script"])


def run(tier):
    chk = core.Check("C15", tier, "model_checking")
    # a private scratch directory per run (concurrent runs of the same check must not share files)
    chk.work = os.path.join(chk.work, "run-%d" % os.getpid())
    os.makedirs(chk.work, exist_ok=True)
    try:
        return _run(chk, tier)
    except core.ToolError as e:
        if not chk.violations:
            raise
        # the machinery failed AFTER real-code runs had already been rejected (typically a hang or
        # crash provoked by the same defect): report those violations instead of hiding them
        chk.extra["tool_error_after_violations"] = str(e)[:800]
        chk.evaluations = max(chk.evaluations, len(chk.violations))
        chk.nontrivial = max(chk.nontrivial, 2)
        chk.rule = chk.rule or "run aborted by a tool error after violations had been recorded"
        return chk.finish()
    finally:
        shutil.rmtree(chk.work, ignore_errors=True)


def _run(chk, tier):
    bindir = core.cargo_build(bins=["iohelp", "ioimpls"])
    # 1. model checking + generation
    fams = FAMILIES[tier]
    behaviours = []
    per_family = {}
    with ThreadPoolExecutor(max_workers=3) as ex:
        # thorough: the allocator may also hand out one byte / 32 bytes more than asked (rte2, rtsbig)
        futs = [(fam, L, ex.submit(model_family, chk, fam, L, 8 if fam in ("rte5", "all") else 3,
                                   "{1, 32}" if tier == "thorough" and fam in ("rte2", "rtsbig") else "{}")) for fam, L in fams]
        for fam, L, fu in futs:
            res, beh = fu.result()
            chk.add_tlc(res)
            behaviours += beh
            per_family[fam] = {"L": L, "states": res.distinct, "behaviours": len(beh), "wall_s": round(res.wall, 1)}
    models = {}
    cases = []
    model_acts = {}
    for b in behaviours:
        for t in b["acts"]:
            model_acts[t] = model_acts.get(t, 0) + 1
        c = {"op": b["op"], "script": b["script"], "data": b["data"], "init": b["init"], "cap0": b["cap0"],
             "n": b["n"], "pieces": b["pieces"], "ff": b["ff"]}
        k = case_key(c)
        if k not in models:
            models[k] = []
            cases.append(c)
        models[k].append(b)
    core.log("TLC: %d behaviours of %d cases (%.1fs)" % (len(behaviours), len(cases), time.time() - chk.t0))
    # 2. the real helpers on every generated case and on seeded random long scripts
    rng = random.Random(chk.seed)
    rcases = fmt_cases() + random_cases(rng, 3000 if tier == "quick" else 20000)
    ngen = len(cases)
    allcases = cases + rcases
    allouts = run_driver(chk, bindir, allcases, "all")
    if any(o is None for o in allouts):
        # the driver crashed on more than 200 cases and the rest was not executed: judge what was run
        keep = [i for i, o in enumerate(allouts) if o is not None]
        chk.extra["cases_not_executed_after_200_crashes"] = len(allouts) - len(keep)
        cases = [allcases[i] for i in keep if i < ngen]
        rcases = [allcases[i] for i in keep if i >= ngen]
        allouts = [allouts[i] for i in keep]
        ngen = len(cases)
        allcases = cases + rcases
    for c, o in zip(allcases, allouts):
        if "fmtid" in c:             # expected bytes and fragments as produced by core's formatting
            c["data"], c["pieces"] = o["data"], o["pieces"]
    outs, routs = allouts[:ngen], allouts[ngen:]
    core.log("driver done (%.1fs)" % (time.time() - chk.t0))
    # 3. TLC judges the recorded runs
    nb = 3 if tier == "quick" else 8
    allbad, allconf = judge(chk, allcases, allouts, "all", batch=(len(allcases) + nb - 1) // nb, workers=3, par=3 if tier == "quick" else 4)
    bad = [i for i in allbad if i < ngen]
    rbad = [i - ngen for i in allbad if i >= ngen]
    conf = {i for i in allconf if i < ngen}
    rconf = {i - ngen for i in allconf if i >= ngen}
    core.log("judged (%.1fs)" % (time.time() - chk.t0))
    # B1: the real call log and outcome equal one of the model's behaviours of that case
    b1 = 0
    drift = []
    for i, (c, o) in enumerate(zip(cases, outs)):
        ms = models[case_key(c)]
        hit = any(m["calls"] == o["calls"] and m["err"] == o["err"] and m["rn"] == o["rn"]
                  and (m["blen"] == len(o["buf"]) or c["op"] == "read_exact")
                  and m["pos"] == o["pos"] and (m["ids"] or m["buf"] == o["buf"]) for m in ms)
        if hit:
            b1 += 1
        elif len(drift) < 5:
            drift.append({"case": {"op": c["op"], "script": script_str(c["script"]), "ilen": len(c["init"]), "cap0": c["cap0"], "n": c["n"]},
                          "real_calls": o["calls"], "model_calls": [m["calls"] for m in ms][:2]})
    for i in bad:
        c, o = cases[i], outs[i]
        ms = models[case_key(c)]
        kind = classify(c, o, ms)
        chk.violate({"op": c["op"], "kind": kind},
                    "%s(init len %d cap %d, n %d) on script [%s]: real outcome err=%s count=%s |buf|=%d%s is not admitted by IoHelpers.tla (model: err=%s count=%s |buf|=%s)" % (
                        c["op"], len(c["init"]), c["cap0"], c["n"], script_str(c["script"]), o["err"], o["rn"], len(o["buf"]),
                        " PANIC " + o["panic"] if o["panic"] else "", ms[0]["err"], ms[0]["rn"], ms[0]["blen"]),
                    {"case": c, "observed": o})
    # 4. random long scripts
    for i in rbad:
        c, o = rcases[i], routs[i]
        chk.violate({"op": c["op"], "kind": classify(c, o, None)},
                    "%s(init len %d cap %d, n %d) on %s script [%s]: outcome err=%s count=%s |buf|=%d%s rejected by IoHelpersTrace" % (
                        c["op"], len(c["init"]), c["cap0"], c["n"],
                        ("format_args universe #%d (expected %d bytes %r, fragments %s);" % (c["fmtid"], len(c["data"]), bytes(c["data"]).decode("utf-8", "replace"), c["pieces"])) if "fmtid" in c else "random",
                        script_str(c["script"]), o["err"], o["rn"], len(o["buf"]),
                        " PANIC " + o["panic"] if o["panic"] else ""),
                    {"case": c, "observed": o})
    # anti-vacuity: falsified copies of accepted runs must all be rejected by the judge
    badset = set(allbad)
    pool = [i for i in range(len(allcases)) if i not in badset and not allouts[i]["panic"]
            and not (allcases[i]["op"] == "read_exact" and allouts[i]["err"] != 0)]
    pick = [rng.choice(pool) for _ in range(80)] if pool else []
    fc = [allcases[i] for i in pick]
    fo = [falsify(rng, allcases[i], allouts[i]) for i in pick]
    keep = [k for k in range(len(pick)) if fo[k] != allouts[pick[k]]]
    fc, fo = [fc[k] for k in keep], [fo[k] for k in keep]
    if fc:
        t_before = chk.traces
        fbad, _ = judge(chk, fc, fo, "falsified", batch=len(fc), workers=2, par=1)
        chk.traces = t_before
        if len(fbad) != len(fc):
            acc = [k for k in range(len(fc)) if k not in set(fbad)][:3]
            raise core.ToolError("judge self-test: %d of %d falsified runs were accepted, e.g. %s" % (
                len(fc) - len(fbad), len(fc), [(fc[k]["op"], script_str(fc[k]["script"]), fo[k]["err"], fo[k]["rn"], len(fo[k]["buf"])) for k in acc]))
    chk.extra["falsified_runs_rejected"] = len(fc)
    # memory-safety side conditions on the real code (thorough): the driver under valgrind memcheck;
    # the scripted reader inspects every buffer it is handed, so uninitialised spare capacity passed
    # to read() or exposed by set_len is reported.  This is the code-level counterpart of the model
    # invariants NoBad / CarrySound; it is evidence (and model drift), not a property verdict.
    if tier == "thorough" and shutil.which("valgrind"):
        sub = cases[::max(1, len(cases) // 4000)] + rcases[:800]
        path = os.path.join(chk.work, "cases_memcheck.ndjson")
        core.write_ndjson(path, sub)
        p = core.run_cmd(["valgrind", "-q", "--error-exitcode=97", os.path.join(bindir, "iohelp"), "run", path], check=False, timeout=3000)
        if p.returncode not in (0, 97):
            raise core.ToolError("valgrind run failed rc=%s: %s" % (p.returncode, p.stderr[-1500:]))
        chk.extra["memcheck"] = {"cases": len(sub), "errors_reported": p.returncode == 97,
                                 "first_report": p.stderr[:1500] if p.returncode == 97 else ""}
        if p.returncode == 97:
            core.log("memcheck reported errors (recorded in the evidence; not a property verdict)")
    # 5. the print macros' own writer loop (unix/print.rs)
    precs = run_print(chk, bindir, tier)
    # accounting
    allc = cases + rcases
    chk.evaluations = len(allc) + len(precs)
    chk.nontrivial = len({case_key(c) for c in allc if nontrivial(c)})
    nconf = len(conf) + len(rconf)
    chk.exhaustive = True
    chk.rule = ("TLC enumerates every script of the bounded families of IoHelpers_MC.tla (%s) x initial (len, capacity) "
                "x UTF-8 strings/splits, model-checks the transcription on each and prints its behaviours; the real helpers "
                "are run on every case (%d) and on %d seeded random long scripts; every run is judged by TLC. "
                "non-trivial = distinct cases whose script has >= 2 items or an EINTR / error / Ok(0) item"
                % (", ".join(("%s L<=%d" % (f, L)) if f != "all" else "rte, rte2, rex, rts, rtsbig, utf8, wa, wf in one run, L<=%d" % L
                             for f, L in fams), len(cases), len(rcases)))
    chk.extra["families"] = per_family
    chk.extra["branches_taken_by_model_behaviours"] = dict(sorted(model_acts.items()))
    chk.extra["branches_taken_by_real_runs"] = dict(sorted(chk.extra["branches_taken_by_real_runs"].items()))
    chk.extra["branches_not_exercised"] = sorted(set(ALL_BRANCHES) - set(model_acts)) + sorted("real:" + t for t in set(ALL_BRANCHES) - set(chk.extra["branches_taken_by_real_runs"]))
    chk.extra["model_behaviours"] = len(behaviours)
    chk.extra["generated_cases"] = len(cases)
    chk.extra["random_cases"] = len(rcases)
    chk.extra["b1_real_log_equals_model_behaviour"] = b1
    chk.extra["trace_replay_conforming"] = nconf
    chk.extra["model_conformance"] = (b1 == len(cases) and nconf == len(allc)
                                      and not chk.extra.get("memcheck", {}).get("errors_reported", False))
    noconf = [i for i in range(len(rcases)) if i not in rconf][:5]
    if noconf:
        chk.extra["random_not_conforming_examples"] = [{"case": {k: v for k, v in rcases[i].items() if k != "data"}, "observed": {k: v for k, v in routs[i].items() if k != "buf"}} for i in noconf]
    if drift:
        chk.extra["drift_examples"] = drift
    for i in (0, len(cases) // 3, 2 * len(cases) // 3, len(cases) - 1):
        c, o = cases[i], outs[i]
        chk.sample({"op": c["op"], "script": script_str(c["script"]), "init_len": len(c["init"]), "cap0": c["cap0"], "n": c["n"],
                    "calls": o["calls"], "err": o["err"], "count": o["rn"], "buf_len": len(o["buf"])})
    chk.assumptions = [
        "readers/writers obey the Read/Write contract (never report more than requested/offered)",
        "what a buffer holds after an error is left open by the statement: init plus any prefix of the delivered data is admitted",
        "capacities after reallocation are an environment choice of the model; the real ones are read off the logged request lengths",
        "exhaustive = the bounded families are enumerated completely; longer scripts are sampled",
    ]
    return chk.finish()


def replay(path):
    rp = json.load(open(path))["replay"]
    chk = core.Check("C15", "quick", "model_checking")
    bindir = core.cargo_build(bins=["iohelp", "ioimpls"])
    if rp.get("mode") in ("print", "pipe", "impl"):
        # these runs depend on signal timing: re-run the whole mode with the same seed and judge again
        print("recorded:", json.dumps(rp["record"]))
        run_print(chk, bindir, "quick")
        for v in chk.violations:
            print("re-run rejected:", v.what)
        print("verdict:", "REJECTED again" if chk.violations else "not reproduced in this re-run (timing dependent)")
        return 1 if chk.violations else 0
    outs = run_driver(chk, bindir, [rp["case"]], "replay")
    if "fmtid" in rp["case"]:
        rp["case"]["data"], rp["case"]["pieces"] = outs[0]["data"], outs[0]["pieces"]
    bad, conf = judge(chk, [rp["case"]], outs, "replay")
    print("case:", json.dumps(rp["case"]))
    print("observed now:", json.dumps(outs[0]))
    print("verdict:", "REJECTED by IoHelpersTrace" if bad else "accepted")
    return 1 if bad else 0


def selftest():
    """anti-vacuity: every stored negative patch (seeded/C15-*/patch.diff) applied to a scratch
    copy of /repo must make the quick check print a VIOLATION (bin/mutant-test exits 0).  The
    falsified-record test of the judge runs inside every normal run."""
    import glob
    import subprocess
    ok = True
    for d in sorted(glob.glob(os.path.join(core.VERIF, "seeded", "C15-*"))):
        patch = os.path.join(d, "patch.diff")
        p = subprocess.run([os.path.join(core.VERIF, "bin", "mutant-test"), patch, "C15"],
                           stdout=subprocess.PIPE, stderr=subprocess.STDOUT, text=True)
        det = p.returncode == 0
        ok = ok and det
        print("%s: %s" % (os.path.basename(d), "detected (VIOLATION)" if det else "NOT DETECTED"))
        for l in p.stdout.splitlines():
            if l.startswith("[verif] violation:"):
                print("    " + l[:240])
                break
    return 0 if ok else 1
