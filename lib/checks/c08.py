"""C08 - memcpy/memmove/memset/memcmp/bcmp supplied to no-libc binaries match C for every length,
alignment, overlap; never write outside the destination.

1. TLC model-checks the transcription of tiny-start/src/symbols/mem.rs (specs/MemAlg.tla) against the
   definitional operators (specs/Mem.tla) for EVERY call that fits a small memory, for several
   (WORD, THRESHOLD) pairs including the real one (8, 16).  A counterexample there is only a lead.
2. The no-libc probe (probe/mem, debug and release) calls the REAL exported symbols for every n, every
   destination/source misalignment 0..15, every overlap distance, fill classes, every first-difference
   position and both signs, on a tagged arena; every line (the whole arena after the call, run-length
   encoded) is judged by TLC (specs/MemJudge.tla) against Mem.tla.  Only that verdict counts.
"""
import concurrent.futures
import json
import os
import re
import subprocess
import threading

from vlib import core

# lengths of the quick tier: every multiple of the word size with both neighbours, the powers of two and their
# neighbours, a length inside every range between them (fast paths are usually selected by such ranges)
BOUNDARY = [0, 1, 2, 3, 4, 5, 7, 8, 9, 12, 15, 16, 17, 20, 23, 24, 25, 28, 31, 32, 33, 36, 39, 40]
FULL_ALIGN_N = [0, 1, 7, 8, 9, 15, 16, 17, 23, 24, 25, 31, 32, 33, 40]   # thorough: memcmp/bcmp with all 256 alignment pairs
ALL_N = list(range(41))
THRESHOLD = 16          # WORD_COPY_THRESHOLD of mem.rs on x86_64 (checked against the probe's meta line: word = 8)
_LOCK = threading.Lock()
BATCH = 25000
PAR = 4                 # concurrent single-worker TLC judges


# --------------------------------------------------------------------------------------------
# expected cardinality of the probe's enumeration (so that a silently shortened run is noticed)
# --------------------------------------------------------------------------------------------
def expected_counts(ns, fns, full):
    c = {}
    if "cpy" in fns:
        c["memcpy"] = len(ns) * 16 * 16 * 2
    if "mov" in fns:
        c["memmove"] = len(ns) * 16 * 16 * 2 + sum(16 * (2 * n + 3) for n in ns)
    if "set" in fns:
        c["memset"] = len(ns) * 16 * 9
    per = (lambda n: 256 * (2 * n + 1)) if full else (lambda n: 16 * (6 * n + 1))
    if "cmp" in fns:
        c["memcmp"] = sum(per(n) for n in ns)
    if "bcmp" in fns:
        c["bcmp"] = sum(per(n) for n in ns)
    return c


# --------------------------------------------------------------------------------------------
# running the probe
# --------------------------------------------------------------------------------------------
def run_probe(binary, cmd, timeout=600):
    """Returns (complete lines (parsed), status, partial) - status 'ok' | 'crashed:<sig>' | 'exit:<rc>' | 'timeout'."""
    try:
        p = subprocess.run([binary], input=(cmd + "\n").encode(), stdout=subprocess.PIPE, stderr=subprocess.PIPE,
                           timeout=timeout)
        out, rc = p.stdout, p.returncode
        status = "ok" if rc == 0 else ("crashed:%d" % -rc if rc < 0 else "exit:%d" % rc)
    except subprocess.TimeoutExpired as e:
        out, status = e.stdout or b"", "timeout"
    text = out.decode("latin-1")
    raw = text.split("\n")
    partial = raw[-1]
    recs = []
    for l in raw[:-1]:
        try:
            recs.append(json.loads(l))
        except ValueError:
            partial = l
            status = status if status != "ok" else "garbled"
            break
    if status == "ok" and (not recs or recs[-1].get("f") != "end"):
        status = "truncated"
    return recs, status, partial


def judge(chk, recs, tag):
    """TLC decides every record. Returns (set of rejected indices, n judged)."""
    if not recs:
        return set(), 0
    jobs = []
    for k in range(0, len(recs), BATCH):
        path = os.path.join(chk.work, "judge_%s_%d.ndjson" % (tag, k))
        core.write_ndjson(path, recs[k:k + BATCH])
        jobs.append((k, path, len(recs[k:k + BATCH])))

    def one(job):
        k, path, n = job
        res = core.run_tlc("MemJudge.tla", "MemJudge.cfg", workers=1, env={"TRACE": path}, timeout=3000, xmx="3g")
        core.tlc_must_pass(res, "MemJudge")
        j = res.printed("JUDGED")
        if len(j) != 1 or j[0]["n"] != n:
            raise core.ToolError("MemJudge did not report on all %d records: %s" % (n, res.out[-1500:]))
        if j[0]["disagree"]:
            raise core.ToolError("MemJudge: cell-level and run-level judgement disagree on records %s of %s" % (j[0]["disagree"][:5], path))
        return k, res, j[0]["bad"]

    bad = set()
    with concurrent.futures.ThreadPoolExecutor(max_workers=PAR) as ex:
        for k, res, b in ex.map(one, jobs):
            with _LOCK:
                chk.add_tlc(res)
            bad |= {k + i - 1 for i in b}
    return bad, len(recs)


# --------------------------------------------------------------------------------------------
# describing a rejected line (for the signature / the human; the verdict is TLC's)
# --------------------------------------------------------------------------------------------
def describe(r):
    f = r["f"]
    if f in ("memcmp", "bcmp"):
        a, b = r["a"], r["b"]
        diff = [i for i in range(r["n"]) if a[i] != b[i]]
        if not diff:
            rel = "equal"
        else:
            i = diff[0]
            rel = ("a<b" if a[i] < b[i] else "a>b") + ("/signbit" if (a[i] ^ b[i]) & 0x80 else "")
        return ({"fn": f, "kind": "wrong_result", "class": rel},
                "%s(n=%d, first difference at %s: %s) returned %d" % (
                    f, r["n"], diff[0] if diff else "none", rel, r["ret"]))
    if "G" in r:
        return ({"fn": f, "kind": "wrong_result", "guard": r["G"]},
                "%s(n=%d) with the source %s an unreadable page (dm=%d, delta=%d): destination %s, source was %s, ret-dest=%d" % (
                    f, r["n"], "ending at" if r["G"] == "end" else "starting behind", r["dm"], r["delta"], r.get("dst"), r["src"], r["ret"]))
    n, d = r["n"], r["d"]
    outside = [x for x in r["runs"] if not (x[2] == 0 and x[3] == 0) and (x[0] < d or x[0] + x[1] > d + n)]
    kind = "write_outside" if outside else ("bad_return" if r["ret"] != d else "wrong_result")
    sig = {"fn": f, "kind": kind, "path": "words" if n >= THRESHOLD else "bytes"}
    if f != "memset":
        s = r["s"]
        sig["overlap"] = "none" if (d + n <= s or s + n <= d) else ("dst_below_src" if d < s else "dst_above_src" if d > s else "same")
    what = "%s(n=%d, dst=arena+%d (mod 16 = %d), %s) -> ret arena+%d, arena afterwards %s" % (
        f, n, d, d % 16, ("src=arena+%d (mod 16 = %d)" % (r["s"], r["s"] % 16)) if f != "memset" else "c=%d" % r["c"],
        r["ret"], json.dumps(r["runs"])[:300])
    return sig, what


def replay_cmd(r):
    f = r["f"]
    if f in ("memcmp", "bcmp"):
        return "onecmp %s %d %d %d %d %d" % (f, r["n"], r["am"], r["bm"], r["p"], r["pr"])
    if "G" in r or r["L"] > 256:
        return None
    return "one %s %d %d %d" % (f, r["n"], r["d"], r["c"] if f == "memset" else r["s"])


def partial_call(partial):
    """the probe announces a call before making it: '{"f":"memmove","L":208,"n":17,"d":80,"s":75' """
    try:
        return json.loads(partial + "}")
    except ValueError:
        return {"f": "?"}


# --------------------------------------------------------------------------------------------
# anti-vacuity canaries: corrupted copies of accepted real lines must all be rejected by the judge
# --------------------------------------------------------------------------------------------
def canaries(chk, calls, bad):
    import copy
    out = []

    def pick(pred):
        for i, r in enumerate(calls):
            if i not in bad and "G" not in r and pred(r):
                return copy.deepcopy(r)
        return None

    r = pick(lambda r: r["f"] == "memcpy" and r["n"] >= 16 and r["L"] <= 256)
    if r:
        c = copy.deepcopy(r); c["runs"][1][3] += 1; out.append(("copy offset shifted by one", c))
        c = copy.deepcopy(r); c["ret"] += 1; out.append(("return value off by one", c))
        c = copy.deepcopy(r)
        d = c["runs"][0][1]
        c["runs"] = [[0, d - 1, 0, 0], [d - 1, 1, 1, 77]] + c["runs"][1:]
        out.append(("one byte written just below the destination", c))
        c = copy.deepcopy(r)
        last = c["runs"][-1]
        c["runs"] = c["runs"][:-1] + [[last[0], 1, 1, 78], [last[0] + 1, last[1] - 1, 0, 0]]
        out.append(("one byte written just above the destination", c))
        c = copy.deepcopy(r); c["runs"][1][1] -= 1; c["runs"][2][0] -= 1; c["runs"][2][1] += 1
        out.append(("last destination byte not copied", c))
    r = pick(lambda r: r["f"] == "memmove" and r["n"] >= 16 and r["L"] <= 256 and 0 < r["d"] - r["s"] < r["n"])
    if r:
        c = copy.deepcopy(r)
        k = r["d"] - r["s"]
        c["runs"] = [[0, r["d"], 0, 0], [r["d"], k, 0, -k], [r["d"] + k, r["n"] - k, 0, -2 * k]] + c["runs"][2:]
        out.append(("overlapping memmove done forwards (source overwritten before read)", c))
    r = pick(lambda r: r["f"] == "memset" and r["n"] >= 16 and r["L"] <= 256 and r["c"] == 165)
    if r:
        c = copy.deepcopy(r); c["runs"][1][3] = 164; out.append(("wrong fill byte", c))
    r = pick(lambda r: r["f"] == "memcmp" and r["p"] < r["n"])
    if r:
        c = copy.deepcopy(r); c["ret"] = -c["ret"]; out.append(("memcmp sign flipped", c))
        c = copy.deepcopy(r); c["ret"] = 0; out.append(("memcmp reports equal", c))
    r = pick(lambda r: r["f"] == "bcmp" and r["p"] == r["n"] and r["n"] > 0)
    if r:
        c = copy.deepcopy(r); c["ret"] = 1; out.append(("bcmp reports a difference for equal ranges", c))
    r = pick(lambda r: r["f"] in ("memcpy", "memmove") and r["L"] > 256)
    if r:
        c = copy.deepcopy(r); c["runs"][1][3] += 1; out.append(("large copy: offset shifted by one", c))
        c = copy.deepcopy(r); c["runs"][1][1] -= 1; c["runs"][2][0] -= 1; c["runs"][2][1] += 1
        out.append(("large copy: last byte not copied", c))
    if not out:
        return 0
    rej, n = judge(chk, [c for _, c in out], "canary")
    missed = [out[i][0] for i in range(len(out)) if i not in rej]
    if missed:
        raise core.ToolError("MemJudge accepted corrupted lines (vacuous judge?): %s" % missed)
    return len(out)


def model_check(chk, tier):
    # quick: the real (8, 16) pair on a 32-cell memory (n up to 2*threshold); thorough: 40 cells and (4, 16)
    cfgs = [("MemAlg_w2.cfg", 8), ("MemAlg_w4.cfg", 8), ("MemAlg_w8q.cfg" if tier == "quick" else "MemAlg_w8.cfg", 8)]
    if tier != "quick":
        cfgs.append(("MemAlg_w4t16.cfg", 8))
    info = []
    for cfg, w in cfgs:
        res = core.run_tlc("MemAlg.tla", cfg, workers=w, timeout=3000, xmx="6g")
        if res.invariant_violated or any("Temporal properties were violated" in e or "Deadlock" in e for e in res.errors):
            # a counterexample in the MODEL: a lead only (AGENT_GUIDE verdict rules); the probe run below
            # decides on the real code.  Recorded in the evidence.
            info.append({"cfg": cfg, "model_counterexample": res.invariant_violated or res.errors[:2]})
            core.log("MemAlg %s: model counterexample (lead, not a verdict): %s" % (cfg, res.invariant_violated or res.errors[:2]))
            continue
        core.tlc_must_pass(res, "MemAlg " + cfg)
        with _LOCK:
            chk.add_tlc(res)
        info.append({"cfg": cfg, "states": res.distinct, "transitions": res.generated, "wall_s": round(res.wall, 1)})
    chk.extra["transcription_model_checked"] = info


STEPSTORES = os.path.join(core.VERIF, "tools", "bin", "stepstores")


def conformance(chk, tier, binaries):
    """B1-style binding of the transcription: single-step the real calls of the DEBUG probe (tools/stepstores),
    log every store into the arena, and let TLC (MemAlgTrace.tla) run the transcription on the same calls
    with the real constants, demanding the same sequence of stores.  Divergence = model drift (reported,
    never a verdict)."""
    ns = [0, 1, 7, 8, 15, 16, 17, 23, 24, 25, 31, 32, 33, 40] if tier == "quick" else list(range(41))
    dms, sms = ([0, 1, 7], [0, 3, 8]) if tier == "quick" else ([0, 1, 4, 7], [0, 3, 5, 8])
    calls = []
    for n in ns:
        for dm in dms:
            for sm in sms:
                calls.append(("memcpy", n, 32 + dm, 128 + sm))
                calls.append(("memmove", n, 128 + dm, 32 + sm))
            for delta in (-9, -8, -1, 1, 7, 8, 9):
                calls.append(("memmove", n, 80 + dm, 80 + dm + delta))
            calls.append(("memset", n, 32 + dm, 165))
    inp = os.path.join(chk.work, "steps.in")
    with open(inp, "w") as f:
        f.write("steps\n" + "".join("%s %d %d %d\n" % c for c in calls))
    core.run_cmd(["make", "-s", "-C", os.path.join(core.VERIF, "tools"), "bin/stepstores"])

    def step(build, binary):
        out = os.path.join(chk.work, "steps_%s.out" % build)
        log = os.path.join(chk.work, "steps_%s.ndjson" % build)
        p = subprocess.run([STEPSTORES, binary, inp, out, log], stdout=subprocess.PIPE, stderr=subprocess.PIPE, timeout=1500)
        if p.returncode != 0:
            raise core.ToolError("stepstores failed: %s" % p.stderr.decode()[-500:])
        lines = [json.loads(l) for l in open(out) if l.startswith('{"f":"mem') and l.rstrip().endswith("}")]
        steps = [json.loads(l) for l in open(log)]
        rs = []
        for c, s in list(zip(lines, steps)):
            if "died" in s:
                break
            rs.append({"build": build, "f": c["f"], "n": c["n"], "d": c["d"], "s": c.get("s", 0), "c": c.get("c", 0), "stores": s["stores"]})
        return rs, steps

    # clause write_outside on the store log (debug AND release): no store may leave [d, d+n) - judged by TLC
    all_logs = []
    for build in ("debug", "release"):
        if build in binaries:
            rs, st = step(build, binaries[build])
            all_logs.append((build, rs, st))
    judged = [r for _, rs, _ in all_logs for r in rs]
    store_info = {"calls": len(judged), "builds": [b for b, _, _ in all_logs]}
    if judged:
        spath = os.path.join(chk.work, "stores_all.ndjson")
        canary = dict(judged[-1], stores=judged[-1]["stores"] + [[judged[-1]["d"] + judged[-1]["n"], 1]])   # one byte behind the range
        core.write_ndjson(spath, judged + [canary])
        res = core.run_tlc("MemStores.tla", "MemStores.cfg", workers=1, env={"TRACE": spath}, timeout=3000, xmx="4g")
        core.tlc_must_pass(res, "MemStores")
        with _LOCK:
            chk.add_tlc(res)
        j = res.printed("JUDGED")
        if len(j) != 1 or j[0]["n"] != len(judged) + 1:
            raise core.ToolError("MemStores did not report on all %d store logs" % len(judged))
        bad = {b["i"]: b["stores"] for b in j[0]["bad"]}
        if len(judged) + 1 not in bad:
            raise core.ToolError("MemStores accepted a store behind the destination range (vacuous judge?)")
        del bad[len(judged) + 1]
        store_info["stores_judged"] = sum(len(r["stores"]) for r in judged)
        store_info["canaries_rejected"] = 1
        for i, ks in sorted(bad.items()):
            r = judged[i - 1]
            outside = [r["stores"][k - 1] for k in ks]
            with _LOCK:
                chk.violate({"fn": r["f"], "kind": "write_outside", "seen_by": "store_log", "path": "words" if r["n"] >= THRESHOLD else "bytes"},
                            "[%s] %s(n=%d, dst=arena+%d, %s): store(s) %s leave the destination range [%d, %d) (single-stepped with a "
                            "concurrent writer of the neighbouring bytes; all stores: %s)" % (
                                r["build"], r["f"], r["n"], r["d"], ("src=arena+%d" % r["s"]) if r["f"] != "memset" else "c=%d" % r["c"],
                                outside, r["d"], r["d"] + r["n"], json.dumps(r["stores"])[:300]),
                            {"build": r["build"], "record": r, "replay_cmd": None, "steps_line": "%s %d %d %d" % (
                                r["f"], r["n"], r["d"], r["c"] if r["f"] == "memset" else r["s"])})
        with _LOCK:
            chk.evaluations += len(judged)
            chk.traces += len(judged) - len(bad)
    chk.extra["store_log"] = store_info
    recs, steps = (all_logs[0][1], all_logs[0][2]) if all_logs and all_logs[0][0] == "debug" else ([], [])
    recs = [{k: r[k] for k in ("f", "n", "d", "s", "c", "stores")} for r in recs]
    info = {"calls_single_stepped": len(recs), "of": len(calls), "instructions": sum(s["steps"] for s in steps[:len(recs)])}
    if recs:
        trace = os.path.join(chk.work, "steps_trace.ndjson")
        core.write_ndjson(trace, recs)
        res = core.run_tlc("MemAlgTrace.tla", "MemAlgTrace.cfg", workers=1, env={"TRACE": trace}, timeout=3000, xmx="4g")
        core.tlc_must_pass(res, "MemAlgTrace")
        chk.add_tlc(res)
        conf = {x["k"] for x in res.printed("CONF")}
        div = res.printed("DIV")
        if len(conf) + len({x["k"] for x in div}) != len(recs):
            raise core.ToolError("MemAlgTrace did not decide every call: %d + %d of %d" % (len(conf), len(div), len(recs)))
        info.update({"conform": len(conf), "diverged": len({x["k"] for x in div}), "states": res.distinct,
                     "first_divergences": [dict(x, call=recs[x["k"] - 1]) for x in sorted(div, key=lambda x: x["k"])[:3]]})
        if div:
            core.log("C08: model drift - the stores of %d of %d single-stepped calls differ from MemAlg.tla (not a verdict)" % (
                info["diverged"], len(recs)))
    chk.extra["model_conformance"] = info
    chk.extra["model_conformance_ok"] = bool(recs) and info.get("diverged", 1) == 0 and len(recs) == len(calls)


def model_level(chk, tier):
    model_check(chk, tier)
    lemma = core.run_tlc("MemRunLemma.tla", "MemRunLemma.cfg" if tier == "quick" else "MemRunLemma_t.cfg", workers=4,
                         timeout=3000, xmx="6g")
    core.tlc_must_pass(lemma, "MemRunLemma")
    with _LOCK:
        chk.add_tlc(lemma)
    chk.extra["run_judge_equivalence_lemma"] = {"cases": lemma.distinct, "wall_s": round(lemma.wall, 1),
                                                "what": "CellJudge = RunJudge for every run list (<= 3 runs) and every memmove/memset call on a scaled arena"}


def action_coverage(chk, module, cfgs):
    """DESIGN 3.3 (3): tlc -coverage 1 on exhaustive configurations; an action that never fires is listed."""
    counts = {}
    for cfg in cfgs:
        res = core.run_tlc(module, cfg, workers=4, timeout=3000, xmx="4g", coverage=True)
        for m in re.finditer(r"^<(\w+) line \d+, col \d+ to line \d+, col \d+ of module \w+>: (\d+):(\d+)", res.out, re.M):
            if m.group(1) not in ("Init",):
                counts[m.group(1)] = counts.get(m.group(1), 0) + int(m.group(3))
    chk.extra["action_coverage"] = counts
    chk.extra["actions_not_exercised"] = sorted(a for a, n in counts.items() if n == 0)


def run(tier):
    chk = core.Check("C08", tier, "exploration")
    # the model-level work (transcription vs definition, run-judgement lemma) runs next to the probe work
    bg = concurrent.futures.ThreadPoolExecutor(max_workers=1)
    model_future = bg.submit(model_level, chk, tier)

    builds = {}
    for rel in (False, True):
        bdir = core.cargo_build(template="probe/mem", release=rel)
        builds["release" if rel else "debug"] = os.path.join(bdir, "memprobe")

    # the same sources built for the CPU of this machine (-C target-cpu=native): code selected by cfg!(target_feature = ..)
    try:
        bdir = core.cargo_build(template="probe/mem-native", release=True)
        builds["native-release"] = os.path.join(bdir, "memprobe")
        cfgout = subprocess.run(["rustc", "--print", "cfg", "-C", "target-cpu=native"], stdout=subprocess.PIPE, stderr=subprocess.PIPE,
                                timeout=60).stdout.decode()
        feats = sorted(set(re.findall(r'target_feature="([^"]+)"', cfgout)))
        chk.extra["native_build_target_features"] = feats
        chk.extra["native_build_has_avx"] = "avx" in feats
    except core.ToolError as e:
        chk.extra["native_build_error"] = str(e)[:300]
    if tier != "quick":
        # the same symbols linked the other two ways (release): static (non-PIE) and self-relocating static PIE
        for mode in ("static", "spie"):
            bdir = core.cargo_build(template="probe/mem-" + mode, release=True)
            builds[mode + "-release"] = os.path.join(bdir, "memprobe")
    try:
        conformance(chk, tier, builds)
    except (core.ToolError, OSError, subprocess.SubprocessError, ValueError) as e:
        # the step-level binding is auxiliary evidence (needs ptrace): its failure must not hide the verdict
        core.log("C08: step-level conformance not available: %s" % str(e)[:300])
        chk.extra["model_conformance"] = {"error": str(e)[:300]}
        chk.extra["model_conformance_ok"] = False
    quick = tier == "quick"
    plans = []   # (tag, cmd, expected counts)
    if quick:
        ns = BOUNDARY
        plans.append(("small", "small cpy,mov,set,cmp,bcmp %s sub" % ",".join(map(str, ns)),
                      expected_counts(ns, {"cpy", "mov", "set", "cmp", "bcmp"}, False)))
        plans.append(("large", "large %d 60 65536" % chk.seed, None))
    else:
        rest = [n for n in ALL_N if n not in FULL_ALIGN_N]
        plans.append(("copyset", "small cpy,mov,set %s sub" % ",".join(map(str, ALL_N)),
                      expected_counts(ALL_N, {"cpy", "mov", "set"}, False)))
        plans.append(("cmpfull", "small cmp,bcmp %s full" % ",".join(map(str, FULL_ALIGN_N)),
                      expected_counts(FULL_ALIGN_N, {"cmp", "bcmp"}, True)))
        plans.append(("cmpsub", "small cmp,bcmp %s sub" % ",".join(map(str, rest)),
                      expected_counts(rest, {"cmp", "bcmp"}, False)))
        plans.append(("large", "large %d 400 1048576" % chk.seed, None))

    # lengths 41..130 on the 640-byte arena (run-level judgement) and the guarded sources / compare operands
    mid_ns = list(range(41, 131)) if not quick else sorted(set(list(range(41, 74)) + list(range(79, 131, 8)) +
                                                                  [95, 96, 97, 127, 128, 129, 130]))
    guard_ns = list(range(0, 41)) + [47, 48, 49, 63, 64, 65, 72, 95, 96, 97, 127, 128, 129, 130]
    mid_plan = ("mid", "mid %s" % ",".join(map(str, mid_ns)), None)
    guard_plan = ("guard", "guard %s" % ",".join(map(str, guard_ns)), None)
    # overlapping memmove with large lengths and small distances (a bulk path may only start after kilobytes)
    bigov_plan = ("bigov", "bigov 4032,4096,4160,8192,65539", {"memmove": 5 * 2 * 75 * 2})
    # ... and at distances just below / above multiples of a page with n >= 32 KiB (page-aliasing heuristics)
    bigov2_plan = ("bigov2", "bigov2 32768,65539,131072", {"memmove": 3 * 1040})
    # lengths of megabytes (streaming / chunked paths): release and native probes only (the debug byte loops are too slow)
    huge_plan = ("huge", "huge 2097144,2097181,2101307,4194317,16777221", {"memcpy": 15, "memmove": 45})
    plans += [mid_plan, guard_plan, bigov_plan, bigov2_plan]
    nontrivial = set()
    ncanary = 0
    per_fn = {}
    native_plan = ("small", "small cpy,mov,set %s sub" % ",".join(map(str, BOUNDARY)), expected_counts(BOUNDARY, {"cpy", "mov", "set"}, False))
    boundary_plan = ("small", "small cpy,mov,set,cmp,bcmp %s sub" % ",".join(map(str, BOUNDARY)),
                     expected_counts(BOUNDARY, {"cpy", "mov", "set", "cmp", "bcmp"}, False))
    # 1. run every plan on every build (seconds), 2. judge all of it with up to 8 single-worker TLC processes
    def plans_of(build):
        large_plan = next(pl for pl in plans if pl[0] == "large")
        return (plans if build in ("debug", "release")
                else [native_plan, large_plan, mid_plan, guard_plan, bigov_plan, bigov2_plan] if build == "native-release"
                else [boundary_plan, large_plan, guard_plan, bigov_plan]) + ([huge_plan] if build in ("release", "native-release") else [])

    def load_scale():
        try:
            return max(1.0, os.getloadavg()[0] / (os.cpu_count() or 1))
        except OSError:
            return 1.0

    base_limit = 120 if quick else 600

    def run_one(job):
        build, binary, (tag, cmd, expect) = job
        # (a complete plan takes seconds; a hang of the code under test is a TimedOut event - after re-confirmation below)
        return job, run_probe(binary, cmd, timeout=int(base_limit * load_scale()))

    # all (build, plan) probe runs side by side (each is a single-threaded process)
    jobs = [(build, binary, pl) for build, binary in builds.items() for pl in plans_of(build)]
    with concurrent.futures.ThreadPoolExecutor(max_workers=6) as ex:
        outcomes = list(ex.map(run_one, jobs))
    runs = []
    trip_notes = []
    for (build, binary, (tag, cmd, expect)), (recs, status, partial) in outcomes:
        if status == "timeout":
            # a WALL-CLOCK trip only counts if the same plan, run ALONE with a limit >= 5x the original (scaled by the load),
            # times out in 2 of 2 re-runs; otherwise the re-run's output is judged and the trip is noted
            limit = int(5 * base_limit * load_scale())
            reproduced = 0
            for attempt in (1, 2):
                r2, s2, p2 = run_probe(binary, cmd, timeout=limit)
                if s2 == "timeout":
                    reproduced += 1
                    continue
                recs, status, partial = r2, s2, p2
                break
            trip_notes.append({"build": build, "plan": tag, "isolated_limit_s": limit, "reproduced": reproduced, "of": 2 if reproduced == 2 else attempt})
        if True:
            meta = [r for r in recs if r.get("f") == "meta"]
            calls = [r for r in recs if r.get("f") not in ("meta", "end")]
            if meta and (meta[0]["word"] != 8 or meta[0]["small_mod64"] != 0):
                raise core.ToolError("probe arena not aligned / unexpected word size: %s" % meta[0])
            if tag == "guard" and any(r.get("f") == "noguard" for r in calls):
                raise core.ToolError("the probe could not set up its guard pages (mmap/mprotect)")
            if status != "ok":
                pc = partial_call(partial)
                kind = "timeout" if status == "timeout" else "crash"
                if tag == "guard" and kind == "crash":
                    # the source / a compare operand lies against an unreadable page: a fault inside the announced call is a
                    # load outside [src, src+n)
                    kind = "read_outside"
                sig = {"fn": pc.get("f", "?"), "kind": kind}
                if "G" in pc:
                    sig["guard"] = pc["G"]
                chk.violate(sig, "%s probe %s during %s (after %d completed calls): %s" % (build, status, partial[:200], len(calls), cmd[:60]),
                            {"build": build, "cmd": cmd, "status": status, "announced_call": pc,
                             "replay_cmd": replay_cmd(pc) if "n" in pc and ("s" in pc or "c" in pc or "pr" in pc) else None})
            elif expect is not None:
                got = {}
                for r in calls:
                    got[r["f"]] = got.get(r["f"], 0) + 1
                if got != expect:
                    raise core.ToolError("probe enumeration incomplete: got %s expected %s" % (got, expect))
            runs.append((build, tag, calls))
    chk.extra["wall_clock_trips"] = trip_notes
    chk.extra["wall_clock_trips_not_reproduced"] = [n for n in trip_notes if n["reproduced"] < 2]
    with concurrent.futures.ThreadPoolExecutor(max_workers=2) as ex:
        judged = list(ex.map(lambda r: judge(chk, r[2], "%s_%s" % (r[0], r[1])), runs))
    for (build, tag, calls), (bad, n) in zip(runs, judged):
        ncanary += canaries(chk, calls, bad) if build == "debug" else 0
        chk.traces += n - len(bad)
        chk.evaluations += n
        for r in calls:
            per_fn[r["f"]] = per_fn.get(r["f"], 0) + 1
            if "G" in r:
                if r["n"] >= THRESHOLD:
                    nontrivial.add((r["f"], "guard", r["G"], r["n"], r.get("dm", r.get("bm")), r.get("delta", r.get("p"))))
            elif r["f"] in ("memcmp", "bcmp"):
                if r["p"] < r["n"]:
                    nontrivial.add((r["f"], r["n"], r["am"], r["bm"], r["p"], r["pr"]))
            elif r["n"] >= THRESHOLD:
                nontrivial.add((r["f"], r["n"], r["d"], r.get("s", r.get("c"))))
        for i in sorted(bad):
            r = calls[i]
            sig, what = describe(r)
            chk.violate(sig, "[%s] %s - rejected by MemJudge/Mem.tla" % (build, what),
                        {"build": build, "record": r, "replay_cmd": replay_cmd(r)})
        if calls and len(chk.samples) < 6:
            chk.sample({"build": build, "plan": tag, "line": json.dumps(calls[len(calls) // 2])[:400]})
    model_future.result()
    bg.shutdown()
    if not quick:
        action_coverage(chk, "MemAlg.tla", ["MemAlg_w4.cfg"])
    chk.nontrivial = len(nontrivial)
    chk.exhaustive = False
    chk.rule = ("the probe calls the real exported symbols for n in %s, destination and source misalignment 0..15 (both orders of the "
                "buffers), memmove additionally with every overlap distance -(n+1)..n+1 for every destination misalignment, memset with 9 int "
                "fill values (incl. values needing conversion to unsigned char), memcmp/bcmp with the first difference at every position, six "
                "value pairs (both signs, across the sign bit, 0/255), reversed relation after it, %s alignments; plus random lengths up to %s "
                "(run-level judgement). Every line judged by TLC. non-trivial = distinct copy/set calls with n >= 16 (word-wise path) and distinct compare calls "
                "with a difference (the same call in the other build is not counted again)" % (
                    "the boundary set %s" % BOUNDARY if quick else "0..40", "16" if quick else "256 (boundary n) / 16",
                    "64 KiB" if quick else "1 MiB"))
    chk.assumptions = ["x86_64 only; WORD_SIZE 8, WORD_COPY_THRESHOLD 16 (lengths 0..40 = 2*threshold + word cover every head/body/tail split)",
                       "writes further than the arena (>= 32 bytes from the destination on either side) are not observed",
                       "loads outside the source / compare operands are observed where they cross into an unreadable page placed exactly at the end (or start) of the range; an over-read that stays inside the same page as the range is not seen",
                       "code under cfg!(target_feature) is exercised for the features of the machine the check runs on only (extra.native_build_target_features)",
                       "memcpy is only called with non-overlapping ranges (overlap is undefined in C)",
                       "the arena is a 64-byte aligned static: 'misalignment' is the address modulo 16"]
    chk.extra["calls_per_function"] = per_fn
    chk.extra["builds"] = sorted(builds)
    chk.extra["canaries_rejected"] = ncanary
    chk.extra["tlc_states_total"] = chk.states
    chk.extra["tlc_judged_lines"] = chk.traces
    return chk.finish()


def replay(path):
    rp = json.load(open(path))["replay"]
    chk = core.Check("C08", "quick", "exploration")
    if rp.get("steps_line"):
        # a store-log violation: single-step that one call again and judge its stores
        bdir = core.cargo_build(template="probe/mem", release=rp.get("build") == "release")
        inp = os.path.join(chk.work, "replay_steps.in")
        open(inp, "w").write("steps\n%s\n" % rp["steps_line"])
        out, log = inp + ".out", inp + ".ndjson"
        subprocess.run([STEPSTORES, os.path.join(bdir, "memprobe"), inp, out, log], timeout=120)
        s = json.loads(open(log).readline())
        r = rp["record"]
        inside = all(r["d"] <= a and a + l <= r["d"] + r["n"] for a, l in s["stores"])
        print("replayed %r: stores %s -> %s" % (rp["steps_line"], s["stores"], "accepted" if inside else "REJECTED (a store leaves [d, d+n))"))
        return 0 if inside else 1
    cmd = rp.get("replay_cmd")
    if not cmd:
        cmd = rp.get("cmd")
    bdir = core.cargo_build(template="probe/mem", release=rp.get("build") == "release")
    recs, status, partial = run_probe(os.path.join(bdir, "memprobe"), cmd)
    calls = [r for r in recs if r.get("f") not in ("meta", "end")]
    print("replayed %r: status=%s" % (cmd, status))
    if status != "ok":
        print("partial line:", partial[:300])
        return 1
    bad, n = judge(chk, calls, "replay")
    for i, r in enumerate(calls):
        print(("REJECTED " if i in bad else "accepted ") + json.dumps(r)[:500])
    return 1 if bad else 0


def selftest():
    """(1) the canaries of a quick run (corrupted lines rejected), (2) one stored negative patch must yield a
    VIOLATION, one benign patch must not."""
    rc = run("quick")
    if rc != 0:
        print("selftest: quick run on the unchanged tree did not exit 0")
        return 1
    ev = json.load(open(os.path.join(core.out_dir("evidence"), "C08.json")))
    print("selftest: %d canaries rejected" % ev["coverage"].get("canaries_rejected", 0))
    ok = ev["coverage"].get("canaries_rejected", 0) > 0
    for slug, want in (("C08-memmove-always-forward", 0), ("C08-benign-threshold32", 1)):
        p = subprocess.run([os.path.join(core.VERIF, "bin", "mutant-test"), os.path.join(core.VERIF, "seeded", slug, "patch.diff"), "C08"],
                           stdout=subprocess.PIPE, stderr=subprocess.STDOUT, timeout=3000)
        print("selftest: %s -> mutant-test rc=%d (expected %d)" % (slug, p.returncode, want))
        ok = ok and p.returncode == want
    print("selftest ok" if ok else "selftest FAILED")
    return 0 if ok else 2
