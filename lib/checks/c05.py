"""C05 - threads: closure runs once; join awaits exit, returns its value, None on panic; spawn fails cleanly."""
from checks import thr_main


def run(tier):
    return thr_main.run("C05", tier)


def replay(path):
    return thr_main.replay("C05", path)


def selftest():
    return thr_main.selftest("C05")
