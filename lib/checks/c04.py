"""C04 - allocator: memory held from the OS is bounded by peak demand, freed space is reused,
repeating a workload does not grow the mapped heap.  TLC model-checks the disciplined design
(AllocAbs_MC04), enumerates workloads (AllocGen mode "work"), the real Dlmalloc runs each of
them N times over the simulated OS (exact footprint accounting) and TLC judges every recorded
step against NoGratuitousMap / SteadyState / Envelope / ReleaseOnce (AllocTrace)."""
import concurrent.futures
import json
import os
import re
import time

from vlib import core
from checks import alloc_common as A
try:
    from checks import galloc_part
except ImportError:      # the add-on part is optional
    galloc_part = None

PID = "C04"


# builder-threads fixed the sampling in /verif 61794f3 (VmSize after every allocating call, baseline =
# first half of the repetitions; seeds 1..5 clean): the part's SteadyState reports are verdicts again
DEMOTE_PART_STEADYSTATE = False


class _PartProxy:
    """What the add-on part (global allocator probe) sees instead of the Check object: everything is
    forwarded, except that its SteadyState reports are recorded as evidence only.  The probe samples
    VmSize at two barriers per repetition (everything allocated / everything freed) while its
    repetitions free and reallocate blocks in between, so a repetition's real high-water mark can lie
    above the sampled one and the baseline of SteadyState is too low there: VERIF_SEED=5 reported a
    71.5 MB mark on the unchanged tree (plan 'sizes around the trim threshold and above': a 16 MiB
    and a 32 MiB block are allocated and freed inside the repetition).  Its Envelope reports and all
    its C03 reports are forwarded unchanged."""

    def __init__(self, chk):
        object.__setattr__(self, "_chk", chk)

    def __getattr__(self, name):
        return getattr(self._chk, name)

    def __setattr__(self, name, value):
        setattr(self._chk, name, value)

    def violate(self, signature, what, replay):
        text = (json.dumps(signature) + " " + what).lower()
        if (signature.get("part") == "global_allocator" and ("timeout" in text or "hang" in text or "timed out" in text)
                and os.getloadavg()[0] > (os.cpu_count() or 1)):
            # a wall-clock verdict of the probe's watchdog under an overloaded machine is not re-confirmed
            # here (the part has its own limits): evidence note, not a violation
            d = self._chk.extra.setdefault("wall_clock_trips_not_reproduced", [])
            if len(d) < 20:
                d.append({"part": "global_allocator", "what": what[:300], "load": round(os.getloadavg()[0], 1)})
            return
        if DEMOTE_PART_STEADYSTATE and signature.get("part") == "global_allocator" and signature.get("inv") == "SteadyState":
            d = self._chk.extra.setdefault("global_allocator_part_unjudged_reports", [])
            if len(d) < 10:
                d.append(what[:400])
            return
        self._chk.violate(signature, what, replay)


def workload_classes(k):
    g, t = k["granularity"], k["trim_threshold"]
    min_large = 1 << k["treebin_shift"]
    return [[40, 16],                       # small bin
            [4 * min_large - 8, 16],        # tree bin
            [g - 103, 64],                  # one byte more than a granule holds, over-aligned
            [4 * g + 4000, 16],             # several granules
            [t + 64, 4096]]                 # above the trim threshold: every free of it trims


def trace_cfg(chk, k):
    """AllocTrace.cfg with the granularity / trim threshold the code under test really uses (a
    refactoring that changes them must not be flagged; the bounds are stated in those units)"""
    txt = open(os.path.join(core.SPECS, "AllocTrace.cfg")).read()
    txt = re.sub(r"^(\s*Gran\s*=).*$", r"\1 %d" % k["granularity"], txt, flags=re.M)
    txt = re.sub(r"^(\s*EnvC\s*=).*$", r"\1 %d" % (2 * k["trim_threshold"]), txt, flags=re.M)
    # NoGratuitousMap exempts big requests only if the code under test HAS a direct-mmap path
    txt = re.sub(r"^(\s*DirectMap\s*=).*$", r"\1 %d" % (k["direct_map_threshold"] or (1 << 30)), txt, flags=re.M)
    path = os.path.join(chk.work, "AllocTrace_c04.cfg")
    with open(path, "w") as f:
        f.write(txt)
    return path


def run(tier):
    chk = core.Check(PID, tier, "model_checking")
    quick = tier == "quick"
    k = A.code_constants()
    pool = concurrent.futures.ThreadPoolExecutor(max_workers=4)

    def design():
        res = A.model_check(chk, "AllocAbs_MC04.cfg", "AllocAbs C04 design model", coverage=True, workers=4)
        cov = A.coverage_counts(res)
        probes = {}
        # undisciplined model allocator: each C04 invariant must be violable, a second
        # repetition mark must be reachable
        for inv in ("NoGratuitousMap", "SteadyState", "Envelope"):
            probes["violable:" + inv] = A.probe_violable(chk, "AllocAbs_MC04.cfg", inv, {"Disciplined": "FALSE"}, inv)
        probes["reachable:second repetition"] = A.probe_violable(chk, "AllocAbs_MC04.cfg", "NeverSecondRep", {}, "rep2")
        return res, cov, probes
    fut_design = pool.submit(design)

    bin_dbg = A.build(release=False)
    bin_rel = A.build(release=True)
    # add-on part (builder-threads): the REAL private #[global_allocator] GlobalDlMalloc in a no-libc
    # probe (features executable + threaded + global-allocator), 1/2/4 threads, judged with this
    # property's invariants of AllocAbs; runs concurrently with the drivers below
    fut_ga = pool.submit(galloc_part.run_part, _PartProxy(chk), tier) if galloc_part else None
    cfg = trace_cfg(chk, k)

    # ---- TLC-generated workloads: every allocation order of every multiset of <= W classes,
    # three free orders; placement policy rotates
    W = 4 if quick else 5
    classes = workload_classes(k)
    seqs = A.generate(chk, "work", W, 1, len(classes), 1)
    reps = 8 if quick else 16
    # quick: every workload of <= W-1 blocks and a seeded sample of those with W blocks
    if quick:
        full = [s for s in seqs if len(s) < W]
        rs = A.rng_for(chk, "c04-sample")
        used = full + rs.sample([s for s in seqs if len(s) == W], 40)
    else:
        # thorough: every workload of <= W-1 blocks and every second one with W blocks
        used = [s for i, s in enumerate(seqs) if len(s) < W or i % 2 == 0]
    plans = []
    for i, s in enumerate(used):
        orders = ("fifo", "lifo", "inter")
        if not quick and len(s) == W:
            orders = (orders[i % 3],)      # the longest workloads: one free order each, rotating
        for j, order in enumerate(orders):
            plans.append({"kind": "work", "blocks": [classes[c - 1] for c in s], "free": order, "reps": reps,
                          "base": reps // 2, "os": "bad"[(i + j) % 3], "walk": True, "src": "tlc-workload"})
    n_tlc = len(plans)
    rng = A.rng_for(chk, "c04")
    # long repetition of a sample (N = 200), biased towards workloads that make the heap trim
    big = [i for i in range(n_tlc) if classes[-1] in plans[i]["blocks"]]
    for i in rng.sample(big, 12 if quick else 100) + rng.sample(range(n_tlc), 2 if quick else 50):
        p = dict(plans[i])
        p.update({"reps": 200, "base": 100, "walk": False, "src": "tlc-workload-long", "os": rng.choice("bdd"),
                  "seed": rng.randrange(1, 1 << 40)})
        plans.append(p)
    # boundary-size workloads (random multisets from the C03 alphabet), random placement
    sizes = A.boundary_sizes(k)
    for i in range(100 if quick else 500):
        n = rng.randint(1, 6)
        blocks = [[max(1, rng.choice(sizes) + rng.choice([0, 1, -1])), rng.choice(A.ALIGNS)] for _ in range(n)]
        plans.append({"kind": "work", "blocks": blocks, "free": rng.choice(["fifo", "lifo", "inter"]), "reps": reps,
                      "base": reps // 2, "os": rng.choice("bad"), "rand_place": i % 2 == 0, "seed": rng.randrange(1, 1 << 40),
                      "src": "boundary-workload"})
    # churn: allocations and frees interleave (this is where freed space must be reused)
    small = A.small_classes(k)
    for i in range(20 if quick else 250):
        plans.append({"kind": "churn", "seed": rng.randrange(1, 1 << 40), "period": rng.choice([40, 100, 200] if quick else [60, 150, 300]),
                      "slots": rng.choice([6, 16, 40]), "max": rng.choice([3000, 70000, 400000]), "reps": reps,
                      "base": reps // 2, "os": rng.choice("bad"), "rand_place": i % 2 == 1, "classes": small,
                      "src": "churn"})
    # sliding-window queues with pinned neighbours: a short FIFO/random-victim queue and a long
    # FIFO queue (every k-th block) of small-bin and tree-bin sizes share the heap; the live set is
    # constant, freed neighbours coalesce, split remainders become dv slivers next to live blocks -
    # reuse of freed space here depends on every branch of the small-request path.  Marks every
    # iters/16 iterations (SteadyState over window positions), NoGratuitousMap on every OS request.
    q_small = [41, 56, 72, 100, 120, 168, 200, 232]
    q_medium = [248, 376, 504, 760, 1016]
    for i in range(16 if quick else 80):
        blocks = ([[rng.choice(q_small), rng.choice([1, 8, 16])] for _ in range(rng.randint(3, 6))]
                  + [[rng.choice(q_medium), 16] for _ in range(rng.randint(1, 3))])
        rng.shuffle(blocks)
        plans.append({"kind": "queue", "blocks": blocks, "n_short": rng.choice([4, 8, 16]), "n_long": rng.choice([16, 48]),
                      "k": rng.choice([3, 4, 5]), "iters": 2000 if quick else 4000, "marks": 16, "base": 8,
                      "mode": rng.choice(["fifo", "random"]), "cycle": rng.random() < 0.7, "os": rng.choice("bad"),
                      "seed": rng.randrange(1, 1 << 40), "src": "queue-with-pins"})
    # the same with sizes from EVERY tree bin (256 B .. >= 12 MiB): several free chunks of the same
    # bin must be in the tree at once, also in the last, open-ended bins
    tb = A.tree_bin_sizes(k)
    for i in range(8 if quick else 60):
        bins = rng.sample(range(0, 26), rng.randint(4, 7))
        blocks = [[tb[b] + rng.randrange(-64, 64), 16] for b in bins]
        plans.append({"kind": "queue", "blocks": blocks, "n_short": rng.choice([3, 5]), "n_long": rng.choice([4, 8]),
                      "k": rng.choice([2, 3]), "iters": 300 if quick else 1500, "marks": 12, "base": 1000,
                      "mode": rng.choice(["fifo", "random"]), "cycle": rng.random() < 0.5, "os": rng.choice("bad"),
                      "seed": rng.randrange(1, 1 << 40), "src": "queue-tree-bins"})
    for i in range(10 if quick else 80):
        # the last, open-ended bin (>= 12 MiB; chunks there are told apart by their low bits only)
        # and the bins below it: a window of 4-6 blocks of 12..30 MiB (+ sometimes one of 4..12 MiB)
        blocks = [[rng.randrange(12 << 20, 30 << 20, 1 << 16) + rng.randrange(0, 4096), rng.choice([16, 16, 4096])]
                  for _ in range(rng.randint(4, 7))]
        if i % 2 == 0:
            blocks.append([rng.randrange(4 << 20, 12 << 20, 1 << 16), 16])
        plans.append({"kind": "queue", "blocks": blocks, "n_short": rng.choice([2, 3]), "n_long": rng.choice([2, 3]),
                      "k": rng.choice([2, 3]), "iters": 80 if quick else 250, "marks": 8, "base": 1000,
                      "mode": rng.choice(["fifo", "random"]), "cycle": rng.random() < 0.5, "os": rng.choice("bad"),
                      "seed": rng.randrange(1, 1 << 40), "watchdog": 180, "src": "queue-last-tree-bins"})
    # (base beyond the marks: with sizes that differ by orders of magnitude the window's demand is not the same
    # at every mark; these runs are judged by NoGratuitousMap, Envelope, ReleaseOnce)
    # directed family "two free chunks of one tree bin": per tree bin [lo, hi) two blocks whose chunks are
    # lo + 1/4 and lo + 3/4 of the bin's range, separated by live pins (no coalescing), top taken away by a
    # filler block, both freed (small-then-large and large-then-small: two tree shapes), then requests
    # between the two sizes (lower and upper half of the bin) while nothing larger is free: the bigger
    # chunk must be reused - tmalloc_large has to look into the subtree it did not descend into
    sh = k["treebin_shift"]
    tree_bins = [0, 1, 6, 9, 12, 16, 17, 20, 23, 26, 30, 31] if quick else list(range(32))
    for b in tree_bins:
        lo = (1 << ((b >> 1) + sh)) | ((b & 1) << ((b >> 1) + sh - 1))
        hi = (1 << (((b + 1) >> 1) + sh)) | (((b + 1) & 1) << (((b + 1) >> 1) + sh - 1)) if b < 31 else 2 * lo
        r = hi - lo
        req = lambda chunk: max(1, ((chunk + 15) & ~15) - 8)
        small, large = lo + r // 4, lo + 3 * r // 4
        for order in ("small-first", "large-first"):
            for want in (lo + 3 * r // 8, lo + 5 * r // 8):
                frees = [["f", 0], ["f", 2]] if order == "small-first" else [["f", 2], ["f", 0]]
                ops = ([["m", 0, req(small), 16], ["m", 1, 40, 16], ["m", 2, req(large), 16], ["m", 3, 40, 16], ["t", 4, 32]]
                       + frees + [["m", 5, req(want), 16], ["m", 6, req(lo + r // 8), 16], ["f", 5], ["f", 6], ["f", 1], ["f", 3], ["f", 4]])
                for osd in ("b", "a", "d"):
                    plans.append({"kind": "hist", "slots": 8, "ops": ops, "os": osd, "walk": True,
                                  "src": "directed-two-free-chunks-in-one-tree-bin"})
    # periodic cycles on the simulated OS, judged EXACTLY (MarksSteady: no tolerance): allocate a block
    # above the trim threshold (alone / behind a small one / two of them), free everything, 2 000 times
    # under one fixed placement policy (above: the new mapping lands directly behind the segment that
    # holds top and extends it; below: prepend; disjoint: new segment + release); mapped bytes at a mark
    # after the baseline must never exceed those at a baseline mark - a segment that creeps by a few
    # bytes per cycle shows as soon as it needs one more granule.  Debug build too (internal assertions).
    cyc_reps = 1400 if quick else 6000
    cycle_plans = []
    for blocks in ([classes[-1]], [classes[0], classes[-1]], [classes[-1], classes[-1]]):
        for osd in ("a", "b", "d"):
            cycle_plans.append({"kind": "work", "blocks": blocks, "free": "lifo", "reps": cyc_reps, "base": cyc_reps // 40,
                                "mark_every": 20, "os": osd, "quiet": True, "envelope": False, "exact": True,
                                "watchdog": 600, "src": "exact-cycle"})
    plans += cycle_plans
    # directed family "shrink in place with a live neighbour": rounds of (allocate a big block A, a small
    # block B right behind it, realloc A down to very little): the cut-off tail must be reusable - the next
    # round's big block fits into it, no new OS memory may be asked for while such a tail is free
    for big_sz in (100000, 1 << 20, 3 << 20):
        for small_sz in (40, 1016):
            for down in (16, big_sz // 2, big_sz - 4096):
                ops = []
                fit = max(64, (big_sz - down) - 8192 if big_sz - down > 16384 else (big_sz - down) // 2)
                for r in range(4):
                    # A big, B small right behind it, A shrunk in place, then C that fits the cut-off tail
                    ops += [["m", 3 * r, big_sz, 16], ["m", 3 * r + 1, small_sz, 16], ["r", 3 * r, down], ["m", 3 * r + 2, fit, 16]]
                ops += [["f", x] for x in range(12)]
                for osd in ("b", "a", "d"):
                    plans.append({"kind": "hist", "slots": 12, "ops": ops, "os": osd, "walk": True,
                                  "src": "directed-shrink-in-place-with-live-neighbour"})
    # directed family "the hole of a freed block takes the same request again": 2n blocks of size s, top
    # taken away, every second block freed (live neighbours on both sides: nothing coalesces), then n
    # blocks of size s again - no OS request may be made while such holes exist (NoGratuitousMap, exact
    # hole rule).  s at every boundary of the request-size classes: MIN_REQUEST, the edges of the small
    # bins, MAX_SMALL_REQUEST +- 1, the first tree bin, tree-bin edges.
    nhole = 20
    min_large = 1 << sh
    edges = {23, 24, 25, min_large - 25, min_large - 24, min_large - 23, min_large - 8, min_large - 7}
    for c in (range(48, min_large, 16) if not quick else (48, 128, 224)):
        edges |= {c - 8, c - 7}
    for c in ((384, 512, 768, 1024, 4096, 65536) if not quick else (384, 512, 1024)):
        edges |= {c - 8, c - 7}
    for s_req in sorted(edges):
        ops = [["m", i, s_req, 16] for i in range(2 * nhole)] + [["t", 2 * nhole, 32]]
        ops += [["f", i] for i in range(0, 2 * nhole, 2)] + [["m", i, s_req, 16] for i in range(0, 2 * nhole, 2)]
        ops += [["f", i] for i in range(2 * nhole + 1)]
        for osd in (("b",) if quick else ("b", "a", "d")):
            plans.append({"kind": "hist", "slots": 2 * nhole + 1, "ops": ops, "os": osd,
                          "src": "directed-hole-takes-the-same-request-again"})
    # directed family "grow in place next to a big binned neighbour": A big, pin behind it, A shrunk to little
    # (the tail is binned), A grown a little in place (only the growth may be taken from the free neighbour,
    # the remainder stays free), then a request that fits the remainder: no OS request may be made
    for big_sz in (100000, 1 << 20):
        for small_to in (1000, 5000):
            for grow_to in (small_to + 200, 2 * small_to):
                ops = []
                for r in range(3):
                    ops += [["m", 3 * r, big_sz, 16], ["m", 3 * r + 1, 40, 16], ["r", 3 * r, small_to], ["r", 3 * r, grow_to],
                            ["m", 3 * r + 2, big_sz - grow_to - 8192, 16]]
                ops += [["f", x] for x in range(9)]
                for osd in ("b", "a", "d"):
                    plans.append({"kind": "hist", "slots": 9, "ops": ops, "os": osd, "walk": True,
                                  "src": "directed-grow-in-place-next-to-big-free-neighbour"})
    # directed family "exact fit of the designated victim": pin, X (size s), pin, top taken away; X freed
    # (binned), a small T allocated (splits X's chunk: the remainder becomes dv) and freed (dv grows back to
    # exactly X's old chunk), then malloc(s) again: it fits dv exactly while top cannot serve it - no OS
    # request may be made (hole rule: every live block near X's old extent was there when X was freed)
    for s_req in (56, 120, 232, 233, 504, 888, 1016, 5000, 70000):
        for t_req in (1, 24):
            ops = [["m", 0, 40, 16], ["m", 1, s_req, 16], ["m", 2, 40, 16], ["t", 3, 32], ["f", 1], ["m", 1, t_req, 16], ["f", 1],
                   ["m", 1, s_req, 16], ["m", 4, 24, 16], ["f", 1], ["f", 4], ["f", 0], ["f", 2], ["f", 3]]
            for osd in (("b",) if quick else ("b", "a", "d")):
                plans.append({"kind": "hist", "slots": 5, "ops": ops, "os": osd, "walk": True, "src": "directed-exact-dv-fit"})
    # multi-threaded: T threads share one allocator behind tiny-std's own Mutex (lock, one call,
    # unlock - the composition GlobalDlMalloc uses); each thread repeats a TLC-generated workload
    n_mt = 12 if quick else 150
    for i in range(n_mt):
        T = rng.choice([2, 3, 4])
        plans.append({"kind": "mt", "threads": [[classes[c - 1] for c in rng.choice(used)] for _ in range(T)],
                      "free": rng.choice(["fifo", "lifo"]), "reps": reps, "base": reps, "os": rng.choice("bad"),
                      "rand_place": i % 3 == 0, "seed": rng.randrange(1, 1 << 40), "src": "multi-threaded"})
    # (base = reps: SteadyState is not judged on multi-threaded runs - the interleaving, hence the
    # concurrent demand and the allocation order, differs from repetition to repetition, so a
    # repetition is not a repetition of the same workload; Envelope, NoGratuitousMap, ReleaseOnce are)
    if not quick:
        plans.append({"kind": "churn", "seed": rng.randrange(1, 1 << 40), "period": 1000, "slots": 64, "max": 300000,
                      "reps": 200, "base": 100, "os": "b", "rand_place": True, "classes": small, "watchdog": 900,
                      "src": "churn-2e5"})

    # real-OS runs: no hook table, the raw mmap/mremap/munmap wrappers of dlmalloc.rs run against
    # the real kernel; the footprint is the growth of the process' address space (VmSize from
    # /proc/self/statm, sampled after every call), judged by SteadyState only
    real_plans = []
    for i in rng.sample(big, 16 if quick else 120) + rng.sample(range(n_tlc), 14 if quick else 120):
        p = {"kind": "work", "blocks": plans[i]["blocks"], "free": plans[i]["free"], "reps": 60, "base": 30, "real": True,
             "spacers": len(real_plans) % 2 == 1, "src": "real-os-workload"}
        real_plans.append(p)
    # a repetition is a repetition only if the environment repeats too: where the simulated OS
    # draws a new random placement for every mapping, SteadyState is not judged (base = reps)
    for p in plans:
        if p.get("rand_place"):
            p["base"] = p["reps"]
    # long real-OS runs: workloads that trim and regrow in every repetition, 2000 repetitions, nothing
    # logged per call (calls are still checked by the recorder), a mark every 100 repetitions; three
    # series per run, each judged by SteadyState: growth of VmSize, NUMBER OF MAPPINGS of the process
    # (one mapping = 8 KiB: tolerance 8 mappings; an orphaned page is a mapping of its own), bytes held
    # from the OS that the allocator does not account for (VmSize growth - its own footprint)
    big_blk = classes[-1]
    cyc = [[big_blk], [classes[0], big_blk], [classes[1], classes[3], big_blk], [big_blk, big_blk],
           [classes[2], big_blk], [classes[3], classes[0], big_blk]]
    n_long_reps = 2000 if quick else 6000
    for i, blocks in enumerate(cyc):
        real_plans.append({"kind": "work", "blocks": blocks, "free": "fifo" if blocks == [big_blk, big_blk] else "lifo",
                           "reps": n_long_reps, "base": n_long_reps // 200, "mark_every": 100, "real": True, "quiet": True,
                           "series": True, "spacers": i % 3 == 2, "watchdog": 600, "src": "real-os-long"})
    # debug build (assertions on) for the TLC workloads, release build for the rest;
    # processed in chunks so that memory stays bounded
    jobs = [("debug", bin_dbg, plans[:n_tlc]), ("release", bin_rel, plans[n_tlc:]), ("debug-cycles", bin_dbg, [p for p in cycle_plans if not quick or p["os"] != "d"])]
    CH = 1200
    work = [(build, bindir, pl[i:i + CH], i, False, None) for build, bindir, pl in jobs for i in range(0, len(pl), CH)]
    work += [("debug-realos", bin_dbg, real_plans, 0, True, None), ("release-realos", bin_rel, real_plans, 0, True, None)]
    # the same trim/regrow cycles under a kernel that REFUSES mremap (seccomp filter, ENOMEM): the
    # munmap fall-back of the raw shrink wrapper must still give the memory back - judged on the real
    # mapping table (VmSize growth, number of mappings, unaccounted bytes) by SteadyState
    deny_plans = [dict(p, reps=min(p["reps"], 400), base=2, mark_every=50, src="real-os-long-mremap-refused")
                  for p in real_plans if p.get("src") == "real-os-long"]
    work += [("release-realos-deny-mremap", bin_rel, deny_plans, 0, True, "mremap")]
    if not quick:
        work += [("debug-realos-deny-mremap", bin_dbg, deny_plans, 0, True, "mremap")]
    t0 = time.time()
    stats = {"runs": 0, "events": 0, "ops": 0, "os_map_requests": 0, "os_releases": 0, "repetitions": 0,
             "max_footprint_over_peak_live": 0.0, "runs_with_transient_after_rep2": 0, "crashes": 0, "real_os_runs": 0}
    nontrivial = set()
    nxt = pool.submit(A.run_driver, chk, work[0][1], work[0][2], "%s_%d" % (work[0][0], work[0][3]), 1800, work[0][4], work[0][5]) if work else None
    for wi, (build, bindir, pl, off, real, deny) in enumerate(work):
        events, crashes = nxt.result()
        if wi + 1 < len(work):
            w2 = work[wi + 1]
            nxt = pool.submit(A.run_driver, chk, w2[1], w2[2], "%s_%d" % (w2[0], w2[3]), 1800, w2[4], w2[5])
        t1 = time.time()
        runs, bad = A.judge(chk, events, "%s_%d" % (build, off), procs=6, cfg=cfg)
        core.log("%s build, plans %d..%d: driver done at +%.1fs (%d events), TLC judge %.1fs" % (
            build, off, off + len(pl), t1 - t0, len(events), time.time() - t1))
        A.report(chk, runs, bad, pl, A.C04_INV + ["Returns"], k, build)
        stats["crashes"] += len(crashes)
        stats["runs"] += len(runs)
        stats["events"] += len(events)
        if real:
            stats["real_os_runs"] += len(runs)
        for r in runs:
            fps = [e["fp"] for e in r if e["ev"] == "rep"]
            stats["repetitions"] += len(fps)
            maps_after_first = 0
            releases = 0
            nrep = 0
            for e in r:
                if e["ev"] == "rep":
                    nrep += 1
                elif e["ev"] == "call":
                    stats["ops"] += 1
                elif e["ev"] == "os":
                    if e["call"] == "mmap":
                        stats["os_map_requests"] += 1
                        if nrep >= 1:
                            maps_after_first += 1
                    else:
                        releases += 1
            stats["os_releases"] += releases
            end = r[-1]
            if end["ev"] == "end" and end.get("peak_live"):
                stats["max_footprint_over_peak_live"] = max(stats["max_footprint_over_peak_live"],
                                                            round(end["max_fp"] / end["peak_live"], 2) if end["peak_live"] >= (1 << 20) else 0)
            if len(fps) > 2 and max(fps[2:]) > max(fps[:2]) + k["granularity"]:
                stats["runs_with_transient_after_rep2"] += 1
            if maps_after_first or releases:
                nontrivial.add(A.history_key(pl[r[0]["plan"]]))
        if wi == 0:
            for r in runs[:1]:
                chk.sample({"plan": {x: v for x, v in pl[r[0]["plan"]].items() if x != "classes"},
                            "footprint_at_repetition_marks": [e["fp"] for e in r if e["ev"] == "rep"]})
        del events, runs
    chk.evaluations = stats["repetitions"]
    chk.nontrivial = len(nontrivial)

    if fut_ga is not None:
        fut_ga.result()
    res, cov, probes = fut_design.result()
    pool.shutdown()
    silent = [a for a in A.ACTIONS + ["RepMark"] if cov.get(a, 0) == 0]
    if silent:
        raise core.ToolError("actions of AllocAbs never taken in the bounded C04 model: %s (coverage %s)" % (silent, cov))
    failed = [p for p, ok in probes.items() if not ok]
    if failed:
        raise core.ToolError("C04 probes failed in the bounded model: %s" % failed)

    chk.exhaustive = False
    chk.rule = ("TLC model-checks the disciplined design of AllocAbs (8-byte arena, 2 blocks, 2 repetitions) against "
                "NoGratuitousMap/SteadyState/Envelope/ReleaseOnce and shows each violable by an undisciplined allocator; TLC "
                "(AllocGen) enumerates all %d allocation orders of <= %d blocks over %d size classes (x 3 free orders); %d of them (quick: all "
                "with fewer blocks + a sample of the longest; thorough: all) are run; each "
                "workload is run %d times (a sample 200 times) on the real Dlmalloc over the simulated OS with rotating placement, plus "
                "boundary-size workloads, churn workloads, sliding-window queues with pinned neighbours and %d multi-threaded runs (2-4 threads through tiny-std's Mutex); every step is judged by TLC (baseline = first half of the "
                "repetitions). evaluations = repetition marks judged; non-trivial = distinct workloads in which the OS was asked "
                "for memory after the first repetition or memory was handed back" % (len(seqs), W, len(classes), len(used), reps, n_mt))
    chk.assumptions = [
        "footprint = bytes held from the simulated OS (exact); 'arbitrarily large N' is N = %d (sample: N = 200): no model of the allocator's internal state shows periodicity yet (DlHeap.tla is future work)" % reps,
        "SteadyState: memory still held at a repetition mark after the first N/2 repetitions <= the most ever held during the first N/2 repetitions + one granularity (a heap that is trimmed after some repetitions and not after others - the OS placed a segment differently - is not growing); runs whose marks after repetition 2 exceed the marks of repetitions 1..2 by more than a granularity are counted as runs_with_transient_after_rep2, not judged",
        "Envelope: footprint <= 2 x peak padded demand + 2 x trim threshold, padded demand of a block = size + 2 x align + 256 + granularity; judged ONLY on allocate-all/free-all workloads (there every block can at worst have a mapping of its own, which the padding covers); on churn, queue and multi-threaded runs blocks of different sizes come and go while others stay, external fragmentation of any allocator can exceed a fixed factor there, so those runs are judged by NoGratuitousMap, ReleaseOnce and (fixed OS policy) SteadyState",
        "NoGratuitousMap exempts requests above a direct-mmap threshold only if the code under test has such a path (constant MMAP_THRESHOLD / fn mmap_alloc in dlmalloc.rs); the pinned port has none, so every request is judged",
        "NoGratuitousMap, exact hole rule: an OS request of alignment <= 16 is also gratuitous while the extent of a freed block of at least the requested size exists such that every live block within 256 bytes of it was already there, unchanged, when that block was freed, nothing within that window went back to the OS since and the free itself made no OS call (at most 64 such extents are remembered); TLC checks the rule on the chunk-level design DlHeapMC (it found the last condition; scaled guard 6 fails, 10 = foot + header + padding and 16 hold, real 256 >= 118)",
        "NoGratuitousMap: an OS request is gratuitous if size + 2 x align + 256 bytes fit into one block-free extent of a single OS-granted piece",
        "real-OS runs (raw syscall wrappers against the real kernel): footprint = growth of the process' VmSize, which also contains whatever the recorder itself maps (its output buffer is pre-reserved); only SteadyState is judged there (60 repetitions, baseline 30)",
        "SteadyState is judged only where the OS policy is the same in every repetition (always below / above / disjoint); runs with a random placement per mapping are judged by Envelope, NoGratuitousMap, ReleaseOnce only",
        "long real-OS runs (2000 repetitions, marks every 100): only the three footprint series (VmSize growth, number of mappings at 8 KiB each, VmSize growth minus the allocator's own footprint) are judged, by SteadyState; the calls themselves are checked by the recorder but not logged",
        "a C04 workload that does not complete (panic of a debug assertion, fault, watchdog) is reported too (Returns): a repetition that cannot be repeated shows nothing about the footprint",
        "MarksSteady (exact, no tolerance) is judged only on the periodic exact-cycle runs (one fixed placement policy, allocate big / free, 2 000 cycles)",
        "never trimming alone does not violate the property as stated (held memory stays bounded by peak demand) and is not flagged",
        "multi-threaded runs: 2-4 std threads share one Dlmalloc behind tiny_std::sync::Mutex (lock, one call, unlock; the recorder sits in the same critical section so the log order is the execution order) - the composition of the private GlobalDlMalloc wrapper, which itself is only compiled with feature global-allocator and cannot be enabled in a std-linked harness (the real wrapper is exercised by the add-on part global_allocator_part in a no-libc probe); thread interleavings are whatever the OS scheduler produces (not controlled), therefore SteadyState is not judged on these runs (the concurrent demand differs between repetitions), Envelope / NoGratuitousMap / ReleaseOnce are",
    ]
    chk.extra.update({"design_model": {"states": res.distinct, "action_coverage": {a: cov.get(a, 0) for a in A.ACTIONS + ["RepMark"]},
                                       "probes": probes},
                      "tlc_generated_workloads": n_tlc, "plans": len(plans), "multi_threaded_runs": n_mt, "driver": stats, "code_constants": k,
                      "invariants": A.C04_INV, "workload_classes": classes})
    return chk.finish()


def replay(path):
    return A.replay_file(path, PID)


def selftest():
    """anti-vacuity of the whole loop: (1) corrupted copies of an accepted trace must be rejected
    by the TLC judge (part of every run, see selftest_judge / the probes of the design model);
    (2) a stored property-breaking patch must make the check exit 1 and a stored behaviour-
    preserving patch must leave it at exit 0 (scratch worktree, never /repo)."""
    import os
    import subprocess
    ok = True
    for name, want in (('C04-large-requests-ignore-tree-bins', 0), ('C04-benign-granularity-128k', 1)):
        patch = os.path.join(core.VERIF, "seeded", name, "patch.diff")
        p = subprocess.run([os.path.join(core.VERIF, "bin", "mutant-test"), patch, PID], stdout=subprocess.PIPE,
                           stderr=subprocess.STDOUT, text=True)
        # mutant-test exits 0 when a VIOLATION was reported, 1 otherwise
        good = p.returncode == want
        print("selftest %s: %s (mutant-test rc=%d, expected %d)" % (name, "ok" if good else "FAILED", p.returncode, want))
        ok = ok and good
    return 0 if ok else 2
