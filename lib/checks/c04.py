"""C04 - allocator: memory held from the OS is bounded by peak demand, freed space is reused,
repeating a workload does not grow the mapped heap.  TLC model-checks the disciplined design
(AllocAbs_MC04), enumerates workloads (AllocGen mode "work"), the real Dlmalloc runs each of
them N times over the simulated OS (exact footprint accounting) and TLC judges every recorded
step against NoGratuitousMap / SteadyState / Envelope / ReleaseOnce (AllocTrace)."""
import concurrent.futures
import os
import re
import time

from vlib import core
from checks import alloc_common as A

PID = "C04"


def workload_classes(k):
    g, t = k["granularity"], k["trim_threshold"]
    min_large = 1 << k["treebin_shift"]
    return [[40, 16],                       # small bin
            [4 * min_large - 8, 16],        # tree bin
            [g - 103, 64],                  # one byte more than a granule holds, over-aligned
            [4 * g + 4000, 16],             # several granules
            [t + 64, 4096]]                 # above the trim threshold: every free of it trims


def trace_cfg(chk, k):
    """AllocTrace.cfg with the granularity / trim threshold the code under test really uses (a
    refactoring that changes them must not be flagged; the bounds are stated in those units)"""
    txt = open(os.path.join(core.SPECS, "AllocTrace.cfg")).read()
    txt = re.sub(r"^(\s*Gran\s*=).*$", r"\1 %d" % k["granularity"], txt, flags=re.M)
    txt = re.sub(r"^(\s*EnvC\s*=).*$", r"\1 %d" % (2 * k["trim_threshold"]), txt, flags=re.M)
    path = os.path.join(chk.work, "AllocTrace_c04.cfg")
    with open(path, "w") as f:
        f.write(txt)
    return path


def run(tier):
    chk = core.Check(PID, tier, "model_checking")
    quick = tier == "quick"
    k = A.code_constants()
    pool = concurrent.futures.ThreadPoolExecutor(max_workers=3)

    def design():
        res = A.model_check(chk, "AllocAbs_MC04.cfg", "AllocAbs C04 design model", coverage=True, workers=4)
        cov = A.coverage_counts(res)
        probes = {}
        # undisciplined model allocator: each C04 invariant must be violable, a second
        # repetition mark must be reachable
        for inv in ("NoGratuitousMap", "SteadyState", "Envelope"):
            probes["violable:" + inv] = A.probe_violable(chk, "AllocAbs_MC04.cfg", inv, {"Disciplined": "FALSE"}, inv)
        probes["reachable:second repetition"] = A.probe_violable(chk, "AllocAbs_MC04.cfg", "NeverSecondRep", {}, "rep2")
        return res, cov, probes
    fut_design = pool.submit(design)

    bin_dbg = A.build(release=False)
    bin_rel = A.build(release=True)
    cfg = trace_cfg(chk, k)

    # ---- TLC-generated workloads: every allocation order of every multiset of <= W classes,
    # three free orders; placement policy rotates
    W = 4 if quick else 5
    classes = workload_classes(k)
    seqs = A.generate(chk, "work", W, 1, len(classes), 1)
    reps = 8 if quick else 24
    # quick: every workload of <= W-1 blocks and a seeded sample of those with W blocks
    if quick:
        full = [s for s in seqs if len(s) < W]
        rs = A.rng_for(chk, "c04-sample")
        used = full + rs.sample([s for s in seqs if len(s) == W], 100)
    else:
        used = seqs
    plans = []
    for i, s in enumerate(used):
        for j, order in enumerate(("fifo", "lifo", "inter")):
            plans.append({"kind": "work", "blocks": [classes[c - 1] for c in s], "free": order, "reps": reps,
                          "base": reps // 2, "os": "bad"[(i + j) % 3], "src": "tlc-workload"})
    n_tlc = len(plans)
    rng = A.rng_for(chk, "c04")
    # long repetition of a sample (N = 200), biased towards workloads that make the heap trim
    big = [i for i in range(n_tlc) if classes[-1] in plans[i]["blocks"]]
    for i in rng.sample(big, 24 if quick else 200) + rng.sample(range(n_tlc), 6 if quick else 100):
        p = dict(plans[i])
        p.update({"reps": 200, "base": 100, "src": "tlc-workload-long", "os": rng.choice("bdd"), "rand_place": rng.random() < 0.3,
                  "seed": rng.randrange(1, 1 << 40)})
        plans.append(p)
    # boundary-size workloads (random multisets from the C03 alphabet), random placement
    sizes = A.boundary_sizes(k)
    for i in range(150 if quick else 1500):
        n = rng.randint(1, 6)
        blocks = [[max(1, rng.choice(sizes) + rng.choice([0, 1, -1])), rng.choice(A.ALIGNS)] for _ in range(n)]
        plans.append({"kind": "work", "blocks": blocks, "free": rng.choice(["fifo", "lifo", "inter"]), "reps": reps,
                      "base": reps // 2, "os": rng.choice("bad"), "rand_place": i % 2 == 0, "seed": rng.randrange(1, 1 << 40),
                      "src": "boundary-workload"})
    # churn: allocations and frees interleave (this is where freed space must be reused)
    small = A.small_classes(k)
    for i in range(40 if quick else 400):
        plans.append({"kind": "churn", "seed": rng.randrange(1, 1 << 40), "period": rng.choice([40, 100, 200] if quick else [60, 150, 300]),
                      "slots": rng.choice([6, 16, 40]), "max": rng.choice([3000, 70000, 400000]), "reps": reps,
                      "base": reps // 2, "os": rng.choice("bad"), "rand_place": i % 2 == 1, "classes": small,
                      "src": "churn"})
    if not quick:
        plans.append({"kind": "churn", "seed": rng.randrange(1, 1 << 40), "period": 5000, "slots": 64, "max": 300000,
                      "reps": 200, "base": 100, "os": "b", "rand_place": True, "classes": small, "watchdog": 900,
                      "src": "churn-1e6"})

    # debug build (assertions on) for the TLC workloads, release for everything
    jobs = [("debug", bin_dbg, plans[:n_tlc] if quick else plans), ("release", bin_rel, plans[n_tlc:] if quick else plans)]
    t0 = time.time()
    drv = [(build, pl, pool.submit(A.run_driver, chk, bindir, pl, build)) for build, bindir, pl in jobs]
    stats = {"runs": 0, "events": 0, "ops": 0, "os_map_requests": 0, "os_releases": 0, "repetitions": 0,
             "max_footprint_over_peak_live": 0.0, "runs_with_transient_after_rep2": 0, "crashes": 0}
    nontrivial = set()
    for build, pl, fut in drv:
        events, crashes = fut.result()
        t1 = time.time()
        runs, bad = A.judge(chk, events, build, procs=6, cfg=cfg)
        core.log("%s build: driver done at +%.1fs (%d plans, %d events), TLC judge %.1fs" % (build, t1 - t0, len(pl), len(events), time.time() - t1))
        A.report(chk, runs, bad, pl, A.C04_INV, k, build)
        stats["crashes"] += len(crashes)
        stats["runs"] += len(runs)
        stats["events"] += len(events)
        for r in runs:
            fps = [e["fp"] for e in r if e["ev"] == "rep"]
            stats["repetitions"] += len(fps)
            maps_after_first = 0
            releases = 0
            nrep = 0
            for e in r:
                if e["ev"] == "rep":
                    nrep += 1
                elif e["ev"] == "call":
                    stats["ops"] += 1
                elif e["ev"] == "os":
                    if e["call"] == "mmap":
                        stats["os_map_requests"] += 1
                        if nrep >= 1:
                            maps_after_first += 1
                    else:
                        releases += 1
            stats["os_releases"] += releases
            end = r[-1]
            if end["ev"] == "end" and end.get("peak_live"):
                stats["max_footprint_over_peak_live"] = max(stats["max_footprint_over_peak_live"],
                                                            round(end["max_fp"] / end["peak_live"], 2) if end["peak_live"] >= (1 << 20) else 0)
            if len(fps) > 2 and max(fps[2:]) > max(fps[:2]) + k["granularity"]:
                stats["runs_with_transient_after_rep2"] += 1
            if maps_after_first or releases:
                nontrivial.add(A.history_key(pl[r[0]["plan"]]))
        for r in runs[:1]:
            chk.sample({"plan": {x: v for x, v in pl[r[0]["plan"]].items() if x != "classes"},
                        "footprint_at_repetition_marks": [e["fp"] for e in r if e["ev"] == "rep"]})
    chk.evaluations = stats["repetitions"]
    chk.nontrivial = len(nontrivial)

    res, cov, probes = fut_design.result()
    pool.shutdown()
    silent = [a for a in A.ACTIONS + ["RepMark"] if cov.get(a, 0) == 0]
    if silent:
        raise core.ToolError("actions of AllocAbs never taken in the bounded C04 model: %s (coverage %s)" % (silent, cov))
    failed = [p for p, ok in probes.items() if not ok]
    if failed:
        raise core.ToolError("C04 probes failed in the bounded model: %s" % failed)

    chk.exhaustive = False
    chk.rule = ("TLC model-checks the disciplined design of AllocAbs (8-byte arena, 2 blocks, 2 repetitions) against "
                "NoGratuitousMap/SteadyState/Envelope/ReleaseOnce and shows each violable by an undisciplined allocator; TLC "
                "(AllocGen) enumerates all %d allocation orders of <= %d blocks over %d size classes (x 3 free orders); %d of them (quick: all "
                "with fewer blocks + a sample of the longest; thorough: all) are run; each "
                "workload is run %d times (a sample 200 times) on the real Dlmalloc over the simulated OS with rotating placement, plus "
                "boundary-size workloads and churn workloads; every step is judged by TLC (baseline = first half of the "
                "repetitions). evaluations = repetition marks judged; non-trivial = distinct workloads in which the OS was asked "
                "for memory after the first repetition or memory was handed back" % (len(seqs), W, len(classes), len(used), reps))
    chk.assumptions = [
        "footprint = bytes held from the simulated OS (exact); 'arbitrarily large N' is N = %d (sample: N = 200): no model of the allocator's internal state shows periodicity yet (DlHeap.tla is future work)" % reps,
        "SteadyState: memory still held at a repetition mark after the first N/2 repetitions <= the most ever held during the first N/2 repetitions + one granularity (a heap that is trimmed after some repetitions and not after others - the OS placed a segment differently - is not growing); runs whose marks after repetition 2 exceed the marks of repetitions 1..2 by more than a granularity are counted as runs_with_transient_after_rep2, not judged",
        "Envelope (workload runs only): footprint <= 2 x peak padded demand + 2 x trim threshold, padded demand of a block = size + 2 x align + 256 + granularity",
        "NoGratuitousMap: an OS request is gratuitous if size + 2 x align + 256 bytes fit into one block-free extent of a single OS-granted piece",
        "never trimming alone does not violate the property as stated (held memory stays bounded by peak demand) and is not flagged",
        "single-threaded: the Mutex<Dlmalloc> global-allocator wrapper exists only under feature global-allocator, which cannot be enabled in a std-linked harness",
    ]
    chk.extra.update({"design_model": {"states": res.distinct, "action_coverage": {a: cov.get(a, 0) for a in A.ACTIONS + ["RepMark"]},
                                       "probes": probes},
                      "tlc_generated_workloads": n_tlc, "plans": len(plans), "driver": stats, "code_constants": k,
                      "invariants": A.C04_INV, "workload_classes": classes})
    return chk.finish()


def replay(path):
    return A.replay_file(path, PID)
