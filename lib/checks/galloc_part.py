"""C03/C04 part: the REAL global allocator (tiny-std feature `global-allocator`: the private
`#[global_allocator] GlobalDlMalloc` = `Mutex<Dlmalloc>` with `alloc_zeroed -> calloc`,
`realloc -> realloc`, every call under the lock), driven single- and multi-threaded by the no-libc
probe probe/galloc through `alloc::alloc::{alloc, alloc_zeroed, realloc, dealloc}` and judged by TLC
with builder-alloc's property-level specification (specs/AllocAbs.tla via specs/AllocTrace.tla).

Usage from a check (c03.py / c04.py):

    from checks import galloc_part
    galloc_part.run_part(chk, tier)        # chk = core.Check("C03"|"C04", tier, "model_checking")

`run_part` builds the probe from /repo's working tree, runs the plans, has TLC judge every recorded
run, calls `chk.violate(...)` for the invariants that belong to chk.pid (C03: Aligned, Disjoint,
Intact, NullJustified, OomClean, Returns; C04: SteadyState on single-threaded runs, Envelope on all),
adds to chk.traces / chk.evaluations / TLC statistics and records a summary in
chk.extra["global_allocator_part"].  It never calls chk.finish().

How a multi-threaded execution becomes a trace of AllocTrace (which knows one call at a time): the
probe draws a global ticket right AFTER alloc/alloc_zeroed/realloc returned and right BEFORE dealloc
(and before realloc) is called.  Events are ordered by ticket; an allocation enters `live` at its
ticket (it really was live a little earlier), a free leaves `live` at its ticket (it really stays
allocated a little longer), so the judged life of a block lies inside its real life: two blocks that
overlap in the judged trace overlapped for real.  With more than one thread a realloc is rendered as
free(old) at the ticket before the call and malloc(new) at the ticket after it (the allocator may
hand the old memory to another thread in between); single-threaded it is a native realloc call.
The footprint is the growth of VmSize since the start of the run, sampled by the main thread at two
barriers of every repetition (everything allocated / everything freed) and rendered as one synthetic
mapping far above the blocks, so that Envelope is evaluated on it; the `rep` events carry the same
numbers for SteadyState.  Worker threads (and their stacks) exist before the run starts.
"""
import json
import os
import re
import subprocess
import time

from vlib import core
from checks import alloc_common as A

C03_WANTED = {"Aligned", "Disjoint", "Intact", "NullJustified", "OomClean", "Returns"}
C04_WANTED = {"SteadyState", "Envelope"}
ALIGNS_ALL = [1, 2, 4, 8, 16, 32, 64, 128, 256, 512, 1024, 2048, 4096, 8192]
PEAK_TOL = 2 << 20        # tolerated growth of the all-live peak over the baseline repetitions (peakrule plans)
GRAN = 65536
WINDOW = 1 << 30          # block offsets live in [0, 2^30), the synthetic footprint mapping above


def build(release=False):
    return core.cargo_build(template="probe/galloc", bins=["gaprobe"], release=release)


def trace_cfg(chk, k):
    """AllocTrace.cfg with the granularity / trim threshold of the code under test (same
    substitution as c04.py makes)."""
    txt = open(os.path.join(core.SPECS, "AllocTrace.cfg")).read()
    txt = re.sub(r"^(\s*Gran\s*=).*$", r"\1 %d" % k["granularity"], txt, flags=re.M)
    txt = re.sub(r"^(\s*EnvC\s*=).*$", r"\1 %d" % (2 * k["trim_threshold"]), txt, flags=re.M)
    path = os.path.join(chk.work, "AllocTrace_galloc.cfg")
    with open(path, "w") as f:
        f.write(txt)
    return path


def plans(chk, tier, k):
    """workload plans: sizes from the C03 boundary alphabet, alignments 1..8192, 1/2/4 threads"""
    small = A.small_classes(k)
    big = [x for x in A.boundary_sizes(k) if x > 2 * k["granularity"] + 1]
    seed = chk.seed * 101
    quick = tier == "quick"
    reps1, base1 = (8, 4) if quick else (16, 8)      # baseline = the first half of the repetitions
    out = []

    def add(threads, reps, base, nblocks, ops, zeroed, realloc, xfree, sizes, aligns, what, burst=0):
        out.append({"idx": len(out), "threads": threads, "reps": reps, "base": base, "nblocks": nblocks, "ops": ops, "burst": burst,
                    "peakrule": bool(burst),
                    "seed": seed + len(out), "zeroed": zeroed, "realloc": realloc, "xfree": xfree,
                    "sizes": sizes, "aligns": aligns, "what": what})

    # ---- single-threaded (SteadyState is judged here)
    add(1, reps1, base1, 40, 150 if quick else 400, 30, 30, 0, small, ALIGNS_ALL, "mixed small classes, every alignment")
    add(1, reps1, base1, 24, 200 if quick else 500, 85, 10, 0, small, [1, 8, 16, 64], "zeroed allocations over recycled memory")
    add(1, reps1, base1, 24, 200 if quick else 500, 10, 75, 0, small, [16, 32, 64, 256, 4096, 8192], "realloc of over-aligned blocks")
    add(1, 6 if quick else 12, 3 if quick else 6, 4, 12, 50, 40, 0, big[:5], [16, 4096], "sizes around the trim threshold and above")
    if not quick:
        add(1, 8, 4, 3, 8, 50, 40, 0, big, [16, 8192], "all large sizes")
    # ---- multi-threaded (the lock of GlobalDlMalloc)
    for threads in (2, 4):
        for xfree in (0, 1):
            add(threads, 4 if quick else 10, 2, 32, 250 if quick else 700, 35, 30, xfree, small, ALIGNS_ALL,
                "%d threads, %s" % (threads, "blocks freed by the neighbour thread" if xfree else "blocks freed by their owner"))
    add(4, 4 if quick else 10, 2, 48, 300 if quick else 800, 80, 10, 1, small[:12], [1, 16, 64], "4 threads, zeroed small blocks, churn")
    add(2, 4 if quick else 10, 2, 24, 250 if quick else 600, 10, 75, 0, small, [32, 64, 4096, 8192], "2 threads, realloc of over-aligned blocks")
    # history length: few live blocks of the largest non-direct classes, many repetitions - whatever is
    # lost per repetition adds up against an envelope that only knows the (small) peak demand
    large = [x for x in small if x >= 30000] or small[-4:]
    for threads in (8, 4, 2):
        add(threads, 30 if quick else 80, 2, 4, 60, 20, 20, 1, large, [16, 64],
            "%d threads, few large blocks, long history (memory held vs. peak demand)" % threads)
    # many threads freeing at the same moment (all free their neighbour's blocks right after a barrier)
    add(8, 48 if quick else 120, 8 if quick else 20, 12, 0, 10, 0, 1, large, [16],
        "8 threads: one keeps the allocator busy, seven free their neighbour's blocks in tight bursts, long history", burst=1)
    return out


def script_line(p):
    return ("run idx=%d threads=%d reps=%d nblocks=%d ops=%d seed=%d zeroed=%d realloc=%d xfree=%d burst=%d sizes=%s aligns=%s" % (
        p["idx"], p["threads"], p["reps"], p["nblocks"], p["ops"], p["seed"], p["zeroed"], p["realloc"], p["xfree"], p.get("burst", 0),
        ",".join(map(str, p["sizes"])), ",".join(map(str, p["aligns"]))))


def run_probe(chk, bindir, plan, tag, timeout=45):
    d = os.path.join(chk.work, "galloc")
    os.makedirs(d, exist_ok=True)
    sp = os.path.join(d, "%s-%d.script" % (tag, plan["idx"]))
    op = os.path.join(d, "%s-%d.ndjson" % (tag, plan["idx"]))
    with open(sp, "w") as f:
        f.write(script_line(plan) + "\n")
    if os.path.exists(op):
        os.unlink(op)
    t0 = time.time()
    killed = False
    try:
        p = subprocess.run([os.path.join(bindir, "gaprobe"), sp, op], stdout=subprocess.PIPE, stderr=subprocess.PIPE, timeout=timeout)
        rc = p.returncode
    except subprocess.TimeoutExpired:
        killed, rc = True, -9
    if not os.path.exists(op):
        raise core.ToolError("gaprobe produced no output for plan %d (rc=%s)" % (plan["idx"], rc))
    evs = []
    lines = [l.strip() for l in open(op, errors="replace")]
    lines = [l for l in lines if l]
    broken = False
    for i, l in enumerate(lines):
        try:
            evs.append(json.loads(l))
        except ValueError:
            # the code under test runs in the recorder's address space: a corrupted line is the
            # consequence of undefined behaviour, the run counts as crashed from here on
            broken = True
            break
    return {"events": evs, "rc": rc, "killed": killed, "broken": broken, "wall": time.time() - t0, "path": op}


def to_trace(plan, raw, runno):
    """probe events -> the event vocabulary of AllocTrace (one run).  Returns (events, info)."""
    evs = raw["events"]
    if not any(e.get("ev") == "hello" for e in evs):
        if any(e.get("ev") == "boot" for e in evs):
            # the worker threads could not be started (tiny-std's thread::spawn died): not the
            # allocator's business (C05 judges that) - nothing to judge here, and not a tool failure
            return [], {"ops": 0, "complete": False, "skipped": True, "null": 0, "threads": plan["threads"], "no_workers": True}
        raise core.ToolError("gaprobe plan %d: no boot event (rc=%s)" % (plan["idx"], raw["rc"]))
    reset = next((e for e in evs if e.get("ev") == "reset"), None)
    ops = [e for e in evs if "op" in e]
    marks = [e for e in evs if e.get("ev") in ("high", "rep", "end")]
    info = {"ops": len(ops), "complete": any(e.get("ev") == "bye" for e in evs), "skipped": False,
            "null": 0, "threads": plan["threads"]}
    # SteadyState is only judged on single-threaded runs: for the others every repetition counts as
    # baseline (AllocTrace reports at most 6 violating steps per run - steps that would be filtered
    # out afterwards must not use that budget up)
    # Exception (plans with "peakrule", the burst plan): the SAME workload is repeated with all blocks
    # live at the first barrier of every repetition, so the footprint at that barrier must not keep
    # growing: SteadyState is fed with fp = that peak and hi = peak + PEAK_TOL - Gran, i.e. it says
    # "the peak of a later repetition is at most PEAK_TOL above the highest peak of the baseline ones"
    # (blocks that a free loses for good make the peak climb repetition after repetition).
    peakrule = plan["threads"] > 1 and plan.get("peakrule")
    base_reps = plan["base"] if (plan["threads"] == 1 or peakrule) else plan["reps"] + 1
    out = [{"ev": "reset", "run": runno, "plan": plan["idx"], "c04": True, "base": base_reps, "real": True}]
    if reset is None:
        out.append({"ev": "crash", "why": "no run started"})
        return out, info
    addrs = [(e["hi"] << 28) | e["lo"] for e in ops if (e["hi"] or e["lo"])]
    # offsets must keep the alignment of the addresses: the window starts at a multiple of 64 KiB
    base = (min(addrs) & ~65535) if addrs else 0
    span = max([a - base + e["sz"] for a, e in zip(addrs, [e for e in ops if (e["hi"] or e["lo"])])] or [0])
    if span >= WINDOW:
        info["skipped"] = True
        out.append({"ev": "skip", "why": "addresses span %d bytes" % span})
        return out, info
    multi = plan["threads"] > 1
    items = []   # (ticket, order, [events])
    for e in ops:
        null = not (e["hi"] or e["lo"])
        off = -1 if null else (((e["hi"] << 28) | e["lo"]) - base)
        info["null"] += 1 if null and e["op"] != "free" else 0
        ok, zero, prefix = bool(e["ok"]), bool(e["zero"]), bool(e["prefix"])
        sz = min(e["sz"], (1 << 30))
        if e["op"] in ("malloc", "calloc"):
            items.append((e["g"], [{"ev": "call", "op": e["op"], "id": e["id"], "size": sz, "align": e["al"], "t": e["t"]},
                                   {"ev": "ret", "off": off, "ok": ok, "zero": zero, "prefix": True}]))
        elif e["op"] == "free":
            items.append((e["g"], [{"ev": "call", "op": "free", "id": e["id"], "size": 0, "align": 1, "t": e["t"]},
                                   {"ev": "ret", "off": -1, "ok": ok, "zero": True, "prefix": True}]))
        elif e["op"] == "realloc":
            if multi and not null:
                items.append((e["g0"], [{"ev": "call", "op": "free", "id": e["id"], "size": 0, "align": 1, "t": e["t"], "of": "realloc"},
                                        {"ev": "ret", "off": -1, "ok": ok, "zero": True, "prefix": True}]))
                items.append((e["g"], [{"ev": "call", "op": "malloc", "id": e["id"], "size": sz, "align": e["al"], "t": e["t"], "of": "realloc"},
                                       {"ev": "ret", "off": off, "ok": True, "zero": True, "prefix": prefix}]))
            else:
                items.append((e["g"], [{"ev": "call", "op": "realloc", "id": e["id"], "size": sz, "align": e["al"], "t": e["t"]},
                                       {"ev": "ret", "off": off, "ok": ok, "zero": True, "prefix": prefix}]))
    vm0 = reset["vm"]
    cur = 0
    high = 0
    for m in marks:
        if m["ev"] == "end":
            items.append((m["g"], [{"ev": "end"}]))
            continue
        fp = min(max(0, m["vm"] - vm0) * 4096, WINDOW - 4096)
        evl = []
        if fp > cur:
            evl.append({"ev": "os", "call": "mmap", "size": fp - cur, "off": WINDOW + cur})
        elif fp < cur:
            evl.append({"ev": "os", "call": "munmap", "off": WINDOW + fp, "size": cur - fp})
        cur = fp
        high = max(high, fp)
        if m["ev"] == "rep":
            if peakrule:
                evl.append({"ev": "rep", "fp": high, "hi": high + PEAK_TOL - GRAN})
            else:
                evl.append({"ev": "rep", "fp": fp, "hi": high})
            high = fp
        items.append((m["g"], evl))
    items.sort(key=lambda x: x[0])
    for _, evl in items:
        out += evl
    if raw["broken"] or raw["killed"] or not info["complete"]:
        out = [e for e in out if e["ev"] != "end"]
        out.append({"ev": "timeout" if raw["killed"] else "crash",
                    "why": "recorder output corrupted" if raw["broken"] else "probe rc=%s" % raw["rc"]})
    elif not any(e["ev"] == "end" for e in out):
        out.append({"ev": "end"})
    return out, info


def describe(run, ei):
    e = run[ei]
    call = None
    for x in run[:ei + 1][::-1]:
        if x["ev"] == "call":
            call = x
            break
    return call, e


def run_part(chk, tier, builds=None):
    """Runs the global-allocator part for the property of `chk` (chk.pid in {"C03", "C04"})."""
    pid = chk.pid
    wanted = C03_WANTED if pid == "C03" else C04_WANTED
    k = A.code_constants()
    cfg = trace_cfg(chk, k)
    if builds is None:
        builds = [("debug", False)] if tier == "quick" else [("debug", False), ("release", True)]
    pl = plans(chk, tier, k)
    summary = {"plans": len(pl), "builds": [b for b, _ in builds], "runs": 0, "operations": 0, "skipped_runs": 0,
               "crashed_runs": 0, "threads": sorted({p["threads"] for p in pl}), "violations": 0, "per_plan": []}
    n_viol = 0
    for bname, rel in builds:
        bindir = build(release=rel)
        events = []
        metas = []
        hangs = 0
        for p in pl:
            if hangs >= 2:
                # a hang costs the whole timeout: two hung plans are evidence enough
                summary.setdefault("plans_not_run_after_hangs", []).append([bname, p["idx"]])
                continue
            limit = 45 if tier == "quick" else 180
            raw = run_probe(chk, bindir, p, bname, timeout=limit)
            if raw["killed"]:
                # a wall-clock limit tripped: re-confirm alone, twice, with at least 5 times the limit
                # (more under load); only a non-return seen both times counts
                factor = min(10.0, 5.0 * max(1.0, os.getloadavg()[0] / float(os.cpu_count() or 1)))
                again = [run_probe(chk, bindir, p, bname + "-reconfirm%d" % i, timeout=limit * factor) for i in range(2)]
                if not all(a["killed"] for a in again):
                    summary.setdefault("wall_clock_trips_not_reproduced", []).append({"plan": p["idx"], "build": bname, "limit_factor": round(factor, 1)})
                    raw = next(a for a in again if not a["killed"])
            hangs += 1 if raw["killed"] else 0
            tr, info = to_trace(p, raw, len(metas))
            metas.append((p, raw, info))
            events += tr
            summary["runs"] += 1
            summary["operations"] += info["ops"]
            summary["skipped_runs"] += 1 if info["skipped"] else 0
            summary["crashed_runs"] += 0 if (info["complete"] or info.get("no_workers")) else 1
            if info.get("no_workers"):
                summary["worker_threads_could_not_start"] = summary.get("worker_threads_could_not_start", 0) + 1
            if bname == builds[0][0]:
                summary["per_plan"].append({"plan": p["idx"], "what": p["what"], "threads": p["threads"], "reps": p["reps"],
                                            "ops": info["ops"], "wall_s": round(raw["wall"], 2)})
        if not events:
            continue
        runs, bad = A.judge(chk, events, "galloc_%s_%s" % (pid, bname), procs=4, cfg=cfg)
        chk.evaluations += sum(1 for e in events if e["ev"] == "ret")
        seen = set()
        for b in bad:
            run = runs[b["run_index"]]
            p, raw, info = metas[run[0]["run"]]
            inv = [i for i in b["inv"] if i in wanted]
            if p["threads"] > 1 and not p.get("peakrule"):
                inv = [i for i in inv if i != "SteadyState"]
            # one report per run and invariant (the replay file carries the first rejected event)
            inv = [i for i in inv if (b["run_index"], i) not in seen]
            seen.update((b["run_index"], i) for i in inv)
            call, e = describe(run, b["event_index"])
            for name in inv:
                op = (call or {}).get("of") or (call or {}).get("op", "none")
                sig = {"part": "global_allocator", "inv": name, "op": op if e["ev"] in ("ret", "call") else e["ev"],
                       "threads": "single" if p["threads"] == 1 else "multi",
                       "align_class": "base" if (call or {}).get("align", 1) <= 16 else "over-aligned"}
                upto = run[:b["event_index"] + 1]
                chk.violate(sig, "global allocator (%s build, %d thread(s), plan %d: %s): %s violated at event %d: %s -> %s" % (
                    bname, p["threads"], p["idx"], p["what"], name, b["event_index"],
                    {x: call[x] for x in ("op", "id", "size", "align", "t") if call and x in call}, e),
                    {"kind": "galloc", "plan": p, "build": bname, "violated": inv, "first_rejected_event": e,
                     "trace": upto[-40:], "trace_truncated": len(upto) > 40})
                n_viol += 1
    summary["violations"] = n_viol
    chk.extra["global_allocator_part"] = summary
    chk.assumptions.append("global allocator part: the judged life of a block (ticket after alloc .. ticket before dealloc) lies inside its real life; "
                           "footprint = growth of VmSize sampled at the two barriers of each repetition; SteadyState only on single-threaded runs")
    return summary


def replay_plan(chk, rp):
    """re-run one plan of a replay file (kind == "galloc")"""
    bindir = build(release=(rp.get("build") == "release"))
    k = A.code_constants()
    cfg = trace_cfg(chk, k)
    raw = run_probe(chk, bindir, rp["plan"], "replay")
    tr, info = to_trace(rp["plan"], raw, 0)
    runs, bad = A.judge(chk, tr, "galloc_replay", procs=1, cfg=cfg)
    for b in bad:
        print("rejected: event %d %s: %s" % (b["event_index"], b["inv"], runs[b["run_index"]][b["event_index"]]))
    return 1 if bad else 0
