"""C07 - start-up: argv, environment block and aux values delivered exactly in every link mode;
environment lookup = value of the FIRST entry whose name equals the key exactly; vDSO clock agrees
with the clock system call.

1. TLC model-checks the transcription of the start-up walk and of env::var / var_unix / args_os
   (specs/Startup.tla, algorithm level) against the definitional operators (property level) over the
   bounded domain; a counterexample there is a LEAD: its (env, key) is put first in the list of cases
   run on the real code.
2. TLC (specs/StartupGen.tla) enumerates environment blocks and argument vectors; tools/launch execs the
   no-libc probe (probe/start, -static, -spie; debug and release) with exactly those vectors and records
   the kernel's view (/proc/<pid>/auxv, cmdline, environ, memory at AT_RANDOM / AT_EXECFN, initial stack).
3. Every run becomes one trace record judged by TLC (specs/StartupJudge.tla).  Only that verdict counts.
"""
import concurrent.futures
import json
import os
import random
import re
import subprocess
import threading
import time

from vlib import core

MODES = [("dyn", "probe/start"), ("static", "probe/start-static"), ("spie", "probe/start-spie"),
         # dynamic PIE, tiny-std without the aux/vdso features: the other cfg variant of tiny_start::start::resolve
         ("dyn-noaux", "probe/start-noaux")]
# further static-PIE link variants (a reduced list of cases each; relocation image judged like "spie"):
#   spie-rel:  linked by lld with `-z rel` - REL relocations (implicit addends), the other loop of DynSection::relocate
#   spie-base: linked at image base 0x200000 - link-time addresses are not file offsets
#   spie-apply: linked by lld with --apply-dynamic-relocs - RELA entries whose places already hold the addend (a RELA
#               relocation must OVERWRITE the place)
LINK_VARIANTS = [("spie-rel", "probe/start-spie-rel"), ("spie-base", "probe/start-spie-base"), ("spie-apply", "probe/start-spie-apply")]
KEYS = [[], [65], [65, 66], [65, 66, 67], [65, 66, 67, 68], [66], [67]]
# keys that no name can equal: containing '=' or an embedded NUL (only `var` can take the latter: a &UnixStr holds none)
ODD_KEYS = [[65, 61], [61, 65], [61], [65, 0], [0], [65, 61, 120, 0, 66]]


def name_or_all(e):
    return e[:e.index(61)] if 61 in e else e


def keys_for(env):
    """the fixed keys plus keys made from the block itself: a whole entry "NAME=value"; an entry + NUL + the name of
    the NEXT entry (the strings lie back to back in memory); a name + NUL"""
    ks = KEYS + ODD_KEYS
    for k, e in enumerate(env[:3]):
        cands = [e] + ([e + [0] + name_or_all(env[k + 1])] if k + 1 < len(env) else []) + [name_or_all(e) + [0]]
        # an entry whose VALUE contains '=' (A=B=c): the keys "A=B", "A=B=" and "=B" - each is the text in front of some
        # '=' of the entry (or behind one), none is its name
        eqs = [i for i, b in enumerate(e) if b == 61]
        for j, pos in enumerate(eqs[1:], 1):
            cands += [e[:pos], e[:pos + 1], e[eqs[j - 1]:pos]]
        for cand in cands:
            if cand not in ks and len(cand) < 500:
                ks = ks + [cand]
    return ks
LAUNCH = os.path.join(core.VERIF, "tools", "bin", "launch")
_LOCK = threading.Lock()
BATCH = 1500
PAR = 4


def hx(bs):
    return bytes(bs).hex() if bs else "-"


def unhx(s):
    return [] if s == "-" else list(bytes.fromhex(s))


# --------------------------------------------------------------------------------------------
# TLC: model checking of the transcription, generation of cases
# --------------------------------------------------------------------------------------------
def tla_seq(txt):
    """<<65, 61>> / <<<<65>>, <<>>>> -> python lists"""
    return json.loads(txt.replace("<<", "[").replace(">>", "]"))


def model_check(chk, tier):
    """Returns leads: list of (env, key) from model counterexamples."""
    cfgs = ["Startup_boot.cfg", "Startup_lookup2.cfg", "Startup_utf8.cfg"]
    if tier != "quick":
        cfgs.append("Startup_lookup3.cfg")
    info, leads = [], []
    for cfg in cfgs:
        res = core.run_tlc("Startup_MC.tla", cfg, workers=8, timeout=3000, xmx="6g")
        if res.invariant_violated:
            # counterexample in the model: a lead, to be confirmed on the real code below
            states = res.out.split("State ")
            last = states[-1]
            me = re.search(r"/\\ env = (.*)", last)
            mk = re.search(r"/\\ key = (.*)", last)
            if me and mk:
                leads.append((tla_seq(me.group(1)), tla_seq(mk.group(1))))
            info.append({"cfg": cfg, "model_counterexample": res.invariant_violated, "lead": leads[-1:]})
            core.log("Startup %s: model counterexample %s (lead, replayed on the real code)" % (cfg, res.invariant_violated))
            continue
        core.tlc_must_pass(res, "Startup " + cfg)
        chk.add_tlc(res)
        info.append({"cfg": cfg, "states": res.distinct, "transitions": res.generated, "wall_s": round(res.wall, 1)})
    if tier != "quick":
        # anti-vacuity: the algorithm as found in the pinned tree must be rejected by the same invariants
        for cfg, inv in (("Startup_lookup2_pinned.cfg", {"LookupCorrect"}), ("Startup_lookup2_fixed1.cfg", {"LookupCorrect"}),
                         ("Startup_lookup2_noterm.cfg", {"ReadsInBounds", "LookupCorrect"}),
                         ("Startup_lookup2_lasteq.cfg", {"LookupCorrect"})):
            res = core.run_tlc("Startup_MC.tla", cfg, workers=8, timeout=3000, xmx="6g")
            info.append({"cfg": cfg, "expected_counterexample_found": bool(inv & set(res.invariant_violated)), "violated": res.invariant_violated})
            if not inv & set(res.invariant_violated):
                raise core.ToolError("%s: the defective algorithm variant was not rejected (vacuous invariant?)" % cfg)
    chk.extra["transcription_model_checked"] = info
    return leads


def model_check_aux(chk, tier):
    """Reloc.tla and Vdso.tla: transcription = definition over their bounded domains (no leads to replay: the real
    images are judged by the clauses reloc_image and vdso)."""
    info = []
    for cfg in (["Reloc_q.cfg"] if tier == "quick" else ["Reloc_t.cfg", "Reloc_t2.cfg"]):
        res = core.run_tlc("Reloc_MC.tla", cfg, workers=8, timeout=3000, xmx="6g")
        if res.invariant_violated:
            info.append({"cfg": cfg, "model_counterexample": res.invariant_violated})
            core.log("Reloc %s: model counterexample %s (lead; the real images are judged by clause reloc_image)" % (cfg, res.invariant_violated))
            continue
        core.tlc_must_pass(res, "Reloc " + cfg)
        with _LOCK:
            chk.add_tlc(res)
        info.append({"cfg": cfg, "states": res.distinct, "transitions": res.generated, "wall_s": round(res.wall, 1)})
    for cfg in ("Vdso_any.cfg", "Vdso_aligned.cfg"):
        res = core.run_tlc("Vdso_MC.tla", cfg, workers=4, timeout=3000, xmx="4g")
        if res.invariant_violated:
            info.append({"cfg": cfg, "model_counterexample": res.invariant_violated})
            core.log("Vdso %s: model counterexample %s (lead; the real images are judged by clause vdso)" % (cfg, res.invariant_violated))
            continue
        core.tlc_must_pass(res, cfg)
        with _LOCK:
            chk.add_tlc(res)
        info.append({"cfg": cfg, "states": res.distinct, "wall_s": round(res.wall, 1)})
    if tier != "quick":
        # anti-vacuity: the walk as found in the pinned tree (value rounded up to the section alignment) must be rejected
        res = core.run_tlc("Vdso_MC.tla", "Vdso_any_pinned.cfg", workers=4, timeout=3000, xmx="4g")
        info.append({"cfg": "Vdso_any_pinned.cfg", "expected_counterexample_found": "PinnedAdmissible" in res.invariant_violated})
        if "PinnedAdmissible" not in res.invariant_violated:
            raise core.ToolError("Vdso_any_pinned: the pinned walk was not rejected (vacuous invariant?)")
    if tier != "quick":
        # anti-vacuity: RELA entries that ADD to their place must be refuted by the same invariant
        res = core.run_tlc("Reloc_MC.tla", "Reloc_rela_adds.cfg", workers=4, timeout=3000, xmx="4g")
        info.append({"cfg": "Reloc_rela_adds.cfg", "expected_counterexample_found": "ImageCorrect" in res.invariant_violated})
        if "ImageCorrect" not in res.invariant_violated:
            raise core.ToolError("Reloc_rela_adds: the adding RELA variant was not rejected (vacuous invariant?)")
    if tier != "quick":
        res = core.run_tlc("Reloc_MC.tla", "Reloc_dynfirst.cfg", workers=4, timeout=3000, xmx="4g")
        info.append({"cfg": "Reloc_dynfirst.cfg", "lead_decided_by_model": "PT_DYNAMIC as FIRST program header is never seen by the walk "
                     "(it starts at the second header): base stays 0", "counterexample_found": bool(res.invariant_violated)})
    return info


def gen_scripts(chk):
    """TLC (ArgsIterGen.tla) enumerates the iterator scripts and checks default-methods-on-next = definition"""
    res = core.run_tlc("ArgsIterGen.tla", "ArgsIterGen.cfg", workers=4, timeout=3000, xmx="4g")
    core.tlc_must_pass(res, "ArgsIterGen")
    with _LOCK:
        chk.add_tlc(res)
    scripts = [v["script"] for v in res.printed("V")]
    if len(scripts) != res.distinct or len(scripts) < 100:
        raise core.ToolError("ArgsIterGen produced %d scripts / %d states" % (len(scripts), res.distinct))
    return scripts


def gen(chk, mode, maxenv):
    cfg = os.path.join(chk.work, "StartupGen_%s_%d.cfg" % (mode, maxenv))
    with open(cfg, "w") as f:
        f.write('CONSTANTS\n  GenMode = "%s"\n  GenMaxEnv = %d\nINIT GInit\nNEXT GNext\nINVARIANT Emit\nCHECK_DEADLOCK FALSE\n' % (mode, maxenv))
    res = core.run_tlc("StartupGen.tla", cfg, workers=8, timeout=3000, xmx="6g")
    core.tlc_must_pass(res, "StartupGen " + mode)
    chk.add_tlc(res)
    vecs = res.printed("V")
    expect = sum(23 ** k for k in range(maxenv + 1)) if mode == "env" else 85
    if len(vecs) != expect or res.distinct != expect:
        raise core.ToolError("StartupGen %s produced %d vectors / %d states, expected %d" % (mode, len(vecs), res.distinct, expect))
    return vecs


# --------------------------------------------------------------------------------------------
# running the probe
# --------------------------------------------------------------------------------------------
def write_cases(path, binary, cases, stack_every=0):
    with open(path, "w") as f:
        for i, c in enumerate(cases):
            f.write("case %d\nbin %s\n" % (i, binary))
            for a in c["argv"]:
                f.write("arg %s\n" % hx(a))
            for e in c["env"]:
                f.write("env %s\n" % hx(e))
            payload = "".join(hx(k) + "\n" for k in c["keys"]) + "".join(
                "it %s %s\n" % (v, ",".join("%s%s" % (o, k if o in "htp" else "") for o, k in s)) for v, s in c.get("scripts", []))
            f.write("in %s\n" % (payload.encode().hex() or "-"))
            if c.get("ids") and len(c["ids"]) == 4:
                f.write("ids4 %d %d %d %d\n" % tuple(c["ids"]))
            elif c.get("ids"):
                f.write("ids %d %d\n" % tuple(c["ids"]))
            f.write("wait clock real\n")
            if stack_every and i % stack_every == 1:
                f.write("stack\n")
            f.write("end\n")


def split0(h):
    return [list(x) for x in bytes.fromhex(h).split(b"\0")[:-1]]


def res_of(words):
    if words[0] == "ok":
        return {"k": "ok", "v": unhx(words[1])}
    return {"k": words[0]}


def stack_picture(r):
    """The REAL initial stack (memory from the initial stack pointer to the stack top, dumped by the launcher)
    as Startup.tla's picture: words argc, argv.., 0, envp.., 0, (key, value).., 0 with pointers into the dump
    rewritten to 1-based heap indices (heap = the dump itself), and the dump as byte sequence."""
    if "stack" not in r:
        return [], []
    mem = bytes.fromhex(r["stack"])
    sp = r["sp"]
    words = []
    nwords = len(mem) // 8

    def w(i):
        return int.from_bytes(mem[8 * i:8 * i + 8], "little")

    def conv(v):
        if sp <= v < sp + len(mem):
            return v - sp + 1
        return v if v < 2 ** 31 else 2 ** 30 + v % 2 ** 30      # not a pointer into the picture: only compared for equality

    i = 0
    argc = w(0)
    words.append(argc)
    i = 1
    zeros = 0
    while i < nwords and zeros < 2:        # argv.., 0, envp.., 0
        v = w(i)
        words.append(conv(v) if v else 0)
        zeros += 1 if v == 0 and (zeros == 1 or i == 1 + argc) else 0
        i += 1
    while i + 1 < nwords:                  # aux pairs up to AT_NULL
        k, v = w(i), w(i + 1)
        words += [k if k < 2 ** 31 else 2 ** 30, conv(v)]
        i += 2
        if k == 0:
            break
    return words, list(mem)


def parse_el(s):
    return {"k": "err"} if s == "E" else {"k": "ok", "v": unhx(s)}


def parse_obs(o):
    if o == "N":
        return {"t": "none"}
    if o[0] == "I":
        return {"t": "item", "el": parse_el(o[1:])}
    if o[0] == "#":
        return {"t": "num", "n": int(o[1:])}
    if o[0] == "H":
        lo, hi = o[1:].split(",")
        return {"t": "hint", "lo": int(lo), "hi": -1 if hi == "N" else int(hi)}
    if o[0] == "[":
        body = o[1:-1]
        els = [x for x in body.split(";") if x != ""] if body else []
        over = bool(els) and els[-1] == "!"
        return {"t": "list", "v": [parse_el(x) for x in els if x != "!"], "over": over}
    return {"t": "garbled"}


def utf8(bs):
    try:
        bytes(bs).decode("utf-8")
        return True
    except UnicodeDecodeError:
        return False


def to_record(c, mode, build, r):
    """launcher result + probe output -> trace record for StartupJudge"""
    rec = {"mode": mode, "build": build, "argv": c["argv"], "env": c["env"],
           "kargv": split0(r.get("cmdline", "")), "kenv": split0(r.get("environ", "")),
           "argc": [0, 0], "args_os": [], "args": [], "look": [],
           "aux": {"uid": -1, "gid": -1, "random": [], "execfn": []},
           "kaux": {"uid": -2, "gid": -2, "random": [], "execfn": []},
           "mono": [], "real": [], "reloc": [], "iters": [], "has_aux": mode != "dyn-noaux"}
    st = r.get("status")
    rec["status"] = "exit0" if (st == "exit" and r.get("code") == 0) else (
        "crashed:sig%d" % r["code"] if st == "signal" else "timeout" if st == "timeout" else "exit:%s" % r.get("code"))
    aux = dict((k, v) for k, v in r.get("auxv", []))
    rec["kaux"] = {"uid": aux.get(11, -2), "gid": aux.get(13, -2), "random": list(bytes.fromhex(r.get("random", ""))),
                   "execfn": list(bytes.fromhex(r.get("execfn", "")))}
    rec["st"], rec["heap"] = stack_picture(r)
    out = bytes.fromhex(r.get("out", "")).decode("latin-1")
    lines = out.split("\n")
    done = False
    look = {}
    order = []
    try:
        for l in lines:
            w = l.split(" ")
            if w[0] == "argc":
                rec["argc"] = [int(w[1]), int(w[2])]
            elif w[0] == "argos":
                rec["args_os"].append(unhx(w[1]))
            elif w[0] == "arg":
                rec["args"].append({"k": "ok", "v": unhx(w[2])} if w[1] == "ok" else {"k": "err"})
            elif w[0] in ("uid", "gid"):
                rec["aux"][w[0]] = int(w[1])
            elif w[0] in ("random", "execfn"):
                rec["aux"][w[0]] = [] if w[1] == "none" else unhx(w[1])
            elif w[0] == "reloc":
                rec["reloc"].append(unhx(w[2]))
            elif w[0] == "clock":
                rec[w[1]] = [[int(w[2]), int(w[3])], [int(w[4]), int(w[5])], [int(w[6]), int(w[7])]]
            elif w[0] in ("var", "varu"):
                if w[1] not in look:
                    look[w[1]] = {"key": unhx(w[1]), "var": {"k": "skipped"}, "varu": {"k": "skipped"}}
                    order.append(w[1])
                look[w[1]][w[0]] = res_of(w[2:])
            elif w[0] == "iter":
                rec["iters"].append({"v": w[1], "script": [[tk[0], int(tk[1:] or 0)] for tk in w[2].split(",")],
                                     "obs": [parse_obs(o) for o in w[3].split("|")]})
            elif w[0] == "done":
                done = True
    except (ValueError, IndexError):
        rec["status"] = "garbled" if rec["status"] == "exit0" else rec["status"]
    rec["look"] = [look[k] for k in order]
    # a key that is neither UTF-8 (no var) nor NUL-free (no var_unix) cannot be passed to either function: the probe
    # prints nothing for it
    askable = [k for k in c["keys"] if 0 not in k or utf8(k)]
    if rec["status"] == "exit0" and (not done or len(rec["look"]) != len(askable) or len(rec["iters"]) != len(c.get("scripts", []))):
        rec["status"] = "incomplete"
    return rec


def load_scale():
    """>= 1: how much slower than on an idle machine a wall-clock limit has to be taken (load average / CPUs)"""
    try:
        return max(1.0, os.getloadavg()[0] / (os.cpu_count() or 1))
    except OSError:
        return 1.0


def run_binary(chk, mode, build, binary, cases, tag, stack_every=0, timeout_ms=None, maxfail=10):
    cf = os.path.join(chk.work, "cases_%s_%s_%s.txt" % (mode, build, tag))
    of = os.path.join(chk.work, "launch_%s_%s_%s.ndjson" % (mode, build, tag))
    write_cases(cf, binary, cases, stack_every)
    if timeout_ms is None:
        timeout_ms = int(5000 * load_scale())
    p = subprocess.run([LAUNCH, cf, of, str(timeout_ms), str(maxfail)], stdout=subprocess.PIPE, stderr=subprocess.PIPE, timeout=6000)
    if p.returncode != 0:
        raise core.ToolError("launch failed rc=%d: %s" % (p.returncode, p.stderr.decode()[-500:]))
    res = {}
    for l in open(of):
        r = json.loads(l)
        res[r["id"]] = r
    if len(res) != len(cases):
        raise core.ToolError("launch reported %d of %d cases" % (len(res), len(cases)))
    recs, raws = [], []
    for i, c in enumerate(cases):
        if res[i].get("status") == "skipped":      # the launcher gave up on this binary after 10 consecutive / 30 failures in total
            continue
        if res[i].get("status") == "execfail":
            raise core.ToolError("execve of %s failed: errno %s" % (binary, res[i].get("code")))
        recs.append(to_record(c, mode, build, res[i]))
        recs[-1]["case_index"] = i
        raws.append(res[i])
    return recs, raws


def reconfirm_timeouts(chk, mode, build, binary, cases, recs, raws, notes):
    """A probe killed by the launcher's WALL-CLOCK limit (status timeout) - or not run because the launcher gave up after
    a series of such failures - only counts after the same single launches, run alone with a limit >= 5x the original
    (scaled by the load), time out in 2 of 2 re-runs.  Otherwise the re-run's record is judged and the trip is noted."""
    have = {r["case_index"] for r in recs}
    trips = [r["case_index"] for r in recs if r["status"] == "timeout"]
    skipped = [i for i in range(len(cases)) if i not in have]
    if not trips:
        return recs, raws
    limit = int(5 * 5000 * load_scale())
    todo = trips + skipped
    again = {}
    for attempt in (1, 2):
        if not todo:
            break
        rs, rw = run_binary(chk, mode, build, binary, [cases[i] for i in todo], "re%d" % attempt, timeout_ms=limit, maxfail=0)
        still = []
        for r, w in zip(rs, rw):
            i = todo[r["case_index"]]
            r["case_index"] = i
            if r["status"] == "timeout":
                still.append(i)
                again.setdefault(i, (r, w))
            else:
                again[i] = (r, w)
        todo = still
    confirmed = set(todo)            # timed out in the first run and in 2 of 2 isolated re-runs
    out = {r["case_index"]: (r, w) for r, w in zip(recs, raws)}
    for i, (r, w) in again.items():
        if i not in confirmed:
            out[i] = (r, w)
    notes.append({"binary": "%s/%s" % (mode, build), "timeouts_in_the_batch": len(trips), "not_run_by_the_launcher": len(skipped),
                  "reproduced_2_of_2": len(confirmed), "isolated_limit_ms": limit})
    order = sorted(out)
    return [out[i][0] for i in order], [out[i][1] for i in order]


def ids_usable(chk, binary):
    """can a process running under other ids exec the probe (work tree world-searchable)? If not, all runs keep
    the caller's ids (then a uid/gid mix-up is only visible when they differ)."""
    if os.geteuid() != 0:
        return False
    cf = os.path.join(chk.work, "ids_test.txt")
    of = os.path.join(chk.work, "ids_test.ndjson")
    write_cases(cf, binary, [{"argv": [[97]], "env": [], "keys": [], "ids": (1001, 2001)}])
    p = subprocess.run([LAUNCH, cf, of, "5000"], stdout=subprocess.PIPE, stderr=subprocess.PIPE, timeout=60)
    try:
        r = json.loads(open(of).readline())
    except (OSError, ValueError):
        return False
    return p.returncode == 0 and r.get("status") == "exit" and r.get("code") == 0


def judge(chk, recs, tag, harness_fatal=True):
    """-> dict index -> {"c": [clauses], "keys": [1-based look indices]}"""
    jobs = []
    for k in range(0, len(recs), BATCH):
        path = os.path.join(chk.work, "judge_%s_%d.ndjson" % (tag, k))
        core.write_ndjson(path, recs[k:k + BATCH])
        jobs.append((k, path, len(recs[k:k + BATCH])))

    def one(job):
        k, path, n = job
        res = core.run_tlc("StartupJudge.tla", "StartupJudge.cfg", workers=1, env={"TRACE": path}, timeout=3000, xmx="3g")
        core.tlc_must_pass(res, "StartupJudge")
        j = res.printed("JUDGED")
        if len(j) != 1 or j[0]["n"] != n:
            raise core.ToolError("StartupJudge did not report on all %d records: %s" % (n, res.out[-1500:]))
        if j[0]["harness"] and harness_fatal:
            raise core.ToolError("launcher did not deliver the vectors it was asked to (records %s of %s)" % (j[0]["harness"][:5], path))
        return k, res, j[0]["bad"]

    bad = {}
    with concurrent.futures.ThreadPoolExecutor(max_workers=PAR) as ex:
        for k, res, b in ex.map(one, jobs):
            with _LOCK:
                chk.add_tlc(res)
            for e in b:
                bad[k + e["i"] - 1] = e
    return bad


# --------------------------------------------------------------------------------------------
# anti-vacuity canaries: corrupted copies of accepted real records must all be rejected, each by the
# clause that the corruption concerns
# --------------------------------------------------------------------------------------------
def make_canaries(recs, bad):
    import copy
    out = []

    def pick(pred):
        for i, r in enumerate(recs):
            if i not in bad and r["status"] == "exit0" and pred(r):
                return copy.deepcopy(r)
        return None

    r = pick(lambda r: len(r["kargv"]) >= 2)
    if r:
        c = copy.deepcopy(r); c["args_os"] = c["args_os"][1:]; out.append(("args", "first argument missing", c))
        c = copy.deepcopy(r); c["argc"] = [c["argc"][0] - 1, c["argc"][1]]; out.append(("args", "len() one short", c))
    r = pick(lambda r: any(l["varu"]["k"] == "ok" for l in r["look"]) and any(l["varu"]["k"] == "missing" for l in r["look"]))
    if r:
        c = copy.deepcopy(r)
        i = [l["varu"]["k"] for l in c["look"]].index("missing")
        if c["look"][i]["key"]:
            c["look"][i]["varu"] = {"k": "ok", "v": [120]}
            out.append(("lookup", "phantom hit", c))
        c = copy.deepcopy(r)
        i = [l["varu"]["k"] for l in c["look"]].index("ok")
        if c["look"][i]["key"]:
            c["look"][i]["var"] = {"k": "missing"}
            out.append(("lookup", "exact entry missed by var", c))
    r = pick(lambda r: r["has_aux"] and r["kaux"]["uid"] != r["kaux"]["gid"])
    if r:
        c = copy.deepcopy(r); c["aux"]["uid"], c["aux"]["gid"] = c["aux"]["gid"], c["aux"]["uid"]
        out.append(("aux", "uid and gid swapped", c))
    r = pick(lambda r: r["has_aux"])
    if r:
        c = copy.deepcopy(r); c["aux"]["random"] = c["aux"]["random"][:15] + [(c["aux"]["random"][15] + 1) % 256]
        out.append(("aux", "last random byte differs", c))
    r = pick(lambda r: True)
    if r:
        c = copy.deepcopy(r); c["mono"][1] = [c["mono"][0][0] - 1, c["mono"][0][1]]
        out.append(("clock", "tiny-std reading before the first system-call reading", c))
        c = copy.deepcopy(r); c["real"][1] = [c["real"][2][0] + 5, 0]
        out.append(("clock", "tiny-std wall clock after the second system-call reading", c))
        c = copy.deepcopy(r); c["reloc"][19] = [0]; out.append(("reloc", "last table entry wrong", c))
        c = copy.deepcopy(r); c["status"] = "crashed:sig11"; out.append(("status", "crashed", c))
    r = pick(lambda r: r["st"] and len(r["kargv"]) >= 1 and r["kargv"][0])
    if r:
        c = copy.deepcopy(r); c["st"][1] = c["st"][1] + 1 if c["st"][1] else 0
        out.append(("stack", "argv[0] pointer of the real stack moved by one byte", c))
    return out


def judge_canaries(chk, out):
    if not out:
        return 0
    verdicts = judge(chk, [c for _, _, c in out], "canary", harness_fatal=False)
    missed = [(cl, what) for i, (cl, what, _) in enumerate(out) if i not in verdicts or cl not in verdicts[i]["c"]]
    if missed:
        raise core.ToolError("StartupJudge accepted corrupted records (vacuous clause?): %s" % missed)
    return len(out)


# --------------------------------------------------------------------------------------------
# algorithm-level conformance: the transcription run by TLC on REAL initial stacks
# --------------------------------------------------------------------------------------------
def conformance(chk, pool, limit):
    """pool: accepted records that carry a real stack picture.  TLC (StartupTrace.tla) runs the transcribed walk
    on each picture and compares argument list, collected aux values and every var / var_unix answer with what
    the real code reported.  Divergence = model drift (reported, not a verdict)."""
    if not pool:
        chk.extra["model_conformance"] = {"records": 0}
        chk.extra["model_conformance_ok"] = False
        return
    step = max(1, len(pool) // limit)
    recs = [{x: r[x] for x in ("st", "heap", "args_os", "argc", "look", "aux", "has_aux", "mode", "build")} for r in pool[::step][:limit]]
    path = os.path.join(chk.work, "stack_trace.ndjson")
    core.write_ndjson(path, recs)
    res = core.run_tlc("StartupTrace.tla", "StartupTrace.cfg", workers=4, env={"TRACE": path}, timeout=3000, xmx="6g")
    core.tlc_must_pass(res, "StartupTrace")
    chk.add_tlc(res)
    conf, div = res.printed("CONF"), res.printed("DIV")
    expect = sum(1 + sum(1 for l in r["look"] if l["varu"]["k"] != "skipped") + sum(1 for l in r["look"] if l["var"]["k"] != "skipped")
                 for r in recs)
    if len(conf) + len(div) != expect:
        raise core.ToolError("StartupTrace decided %d + %d of %d walks" % (len(conf), len(div), expect))
    chk.extra["model_conformance"] = {"records": len(recs), "walks": expect, "conform": len(conf), "diverged": len(div),
                                      "states": res.distinct, "modes": sorted({"%s/%s" % (r["mode"], r["build"]) for r in recs}),
                                      "first_divergences": [dict(d, mode=recs[d["rec"] - 1]["mode"]) for d in div[:3]]}
    chk.extra["model_conformance_ok"] = not div
    if div:
        core.log("C07: model drift - %d of %d walks of Startup.tla on real stacks differ from what the code reported (not a verdict)" % (
            len(div), expect))


# --------------------------------------------------------------------------------------------
# describing a rejected run (signature / human text; the verdict is TLC's)
# --------------------------------------------------------------------------------------------
def name_of(e):
    b = bytes(e)
    return b.split(b"=", 1)[0] if b"=" in b else None


def value_of(e):
    return bytes(e).split(b"=", 1)[1]


def look_class(env, key, res):
    """how the answer relates to the block (signature only; TLC took the decision)"""
    k = bytes(key)
    names = [name_of(e) for e in env]
    hits = [i for i, n in enumerate(names) if n == k]
    if not k:
        return "empty_key"
    if res["k"] == "ok":
        v = bytes(res["v"])
        pre = [i for i, n in enumerate(names) if n is not None and n != k and n != b"" and k.startswith(n) and value_of(env[i]) == v]
        if pre and (not hits or pre[0] < hits[0]):
            return "answered_from_entry_whose_name_is_a_proper_prefix_of_the_key"
        if not hits:
            return "phantom_hit"
        if any(value_of(env[i]) == v for i in hits[1:]):
            return "answered_from_a_later_duplicate"
        return "wrong_value"
    if res["k"] == "missing":
        return "exact_entry_missed" if hits else "missing_expected?"
    return res["k"]


def showenv(env):
    return [show(e) for e in env[:8]] + (["... %d entries in all, last %s" % (len(env), show(env[-1]))] if len(env) > 8 else [])


def show(bs):
    return repr(bytes(bs))[1:] if len(bs) < 40 else "<%d bytes>" % len(bs)


def report(chk, rec, verdict, replay):
    for clause in verdict["c"]:
        if clause == "status":
            chk.violate({"clause": "status", "mode": rec["mode"], "kind": rec["status"].split(":")[0]},
                        "[%s/%s] probe did not finish: %s (argv=%s env=%s)" % (
                            rec["mode"], rec["build"], rec["status"], [show(a) for a in rec["argv"]], showenv(rec["env"])),
                        replay)
        elif clause == "lookup":
            for ki in verdict["keys"]:
                l = rec["look"][ki - 1]
                cls = look_class(rec["kenv"], l["key"], l["varu"])
                if 0 in l["key"] or 61 in l["key"]:
                    cls = "key_with_nul_or_eq_answered"      # no name can equal such a key
                elif cls in ("wrong_value", "missing_expected?", "skipped") and l["var"]["k"] != "skipped":
                    cls = look_class(rec["kenv"], l["key"], l["var"])   # var_unix looks right: describe var's answer
                chk.violate({"clause": "lookup", "class": cls},
                            "[%s/%s] env=%s key=%s: var -> %s, var_unix -> %s" % (
                                rec["mode"], rec["build"], showenv(rec["kenv"]), show(l["key"]),
                                fmt_res(l["var"]), fmt_res(l["varu"])),
                            dict(replay, key=l["key"]))
        elif clause == "args":
            chk.violate({"clause": "args"},
                        "[%s/%s] kernel argv=%s but args_os()=%s args()=%s len=%s" % (
                            rec["mode"], rec["build"], [show(a) for a in rec["kargv"]], [show(a) for a in rec["args_os"]],
                            [fmt_res(a) for a in rec["args"]], rec["argc"]), replay)
        elif clause == "aux":
            chk.violate({"clause": "aux"},
                        "[%s/%s] aux getters %s but the kernel passed %s" % (rec["mode"], rec["build"], brief_aux(rec["aux"]), brief_aux(rec["kaux"])), replay)
        elif clause == "stack":
            chk.violate({"clause": "stack"},
                        "[%s/%s] the probe's answers differ from the real initial stack read with Startup.tla's Args/EnvBlock/Aux: args_os=%s aux=%s" % (
                            rec["mode"], rec["build"], [show(a) for a in rec["args_os"]], brief_aux(rec["aux"])), replay)
        elif clause == "iter":
            seen = set()
            for j, fb in verdict.get("iters", []):
                it = rec["iters"][j - 1]
                op = it["script"][fb - 1] if fb <= len(it["script"]) else ["?", 0]
                sig = (it["v"], op[0], fb > 1)
                if sig in seen:
                    continue
                seen.add(sig)
                chk.violate({"clause": "iter", "iterator": "args_os" if it["v"] == "o" else "args", "op": op[0],
                             "on": "advanced_iterator" if fb > 1 else "fresh_iterator"},
                            "[%s/%s] argv=%s: %s script %s: observation %d is %s, the Iterator laws prescribe otherwise (all observations: %s)" % (
                                rec["mode"], rec["build"], [show(a) for a in rec["kargv"]], "args_os()" if it["v"] == "o" else "args()",
                                it["script"], fb, json.dumps(it["obs"][fb - 1])[:120] if fb <= len(it["obs"]) else "missing",
                                json.dumps(it["obs"])[:300]),
                            dict(replay, scripts=[[it["v"], it["script"]]]))
        elif clause == "reloc":
            chk.violate({"clause": "reloc", "mode": rec["mode"]},
                        "[%s/%s] strings read through the probe's relocated pointer tables: %s" % (
                            rec["mode"], rec["build"], [show(x) for x in rec["reloc"]]), replay)
        elif clause == "clock":
            chk.violate({"clause": "clock", "mode": rec["mode"]},
                        "[%s/%s] clock readings (syscall, tiny-std, syscall) not ordered: mono=%s real=%s" % (
                            rec["mode"], rec["build"], rec["mono"], rec["real"]), replay)


def fmt_res(r):
    return "ok(%s)" % show(r["v"]) if r["k"] == "ok" else r["k"]


def brief_aux(a):
    return {"uid": a["uid"], "gid": a["gid"], "random": bytes(a["random"]).hex(), "execfn": show(a["execfn"])}


# --------------------------------------------------------------------------------------------
def vdso_used(binary):
    """anti-vacuity for the clock clause: with the vDSO function found, the probe's two tiny-std clock
    readings make no system call (4 clock_gettime calls instead of 6)."""
    try:
        p = subprocess.run(["strace", "-f", "-e", "trace=clock_gettime", binary], input=b"", stdout=subprocess.PIPE,
                           stderr=subprocess.PIPE, timeout=60)
    except (OSError, subprocess.TimeoutExpired):
        return None
    n = len(re.findall(r"^clock_gettime\(", p.stderr.decode("latin-1"), re.M))
    return {"clock_gettime_syscalls": n, "vdso_used": n == 4}


def reloc_audit(binary):
    """Static-PIE self-relocation seen from outside (a LEAD generator, never a verdict): every
    R_X86_64_RELATIVE word of the running probe must hold load base + addend.  Also reports where the
    probe's own pointer tables lie among the relocated words (first / last .rela.dyn entries)."""
    try:
        rl = subprocess.run(["readelf", "-rW", binary], stdout=subprocess.PIPE, stderr=subprocess.PIPE, timeout=60).stdout.decode()
        nm = subprocess.run(["nm", "-n", "-S", binary], stdout=subprocess.PIPE, stderr=subprocess.PIPE, timeout=60).stdout.decode()
    except (OSError, subprocess.TimeoutExpired):
        return None
    rel = [(int(m.group(1), 16), int(m.group(2), 16)) for m in re.finditer(r"^([0-9a-f]{16})\s+[0-9a-f]{16} R_X86_64_RELATIVE\s+([0-9a-f]+)", rl, re.M)]
    if not rel:
        return {"relative_relocations": 0}
    tables = []
    for m in re.finditer(r"^([0-9a-f]{16}) (?:([0-9a-f]{16}) )?\w (\S*(?:TABLE_RO|TABLE_RW|VERIF_TABLE_LAST)\S*)", nm, re.M):
        size = int(m.group(2), 16) if m.group(2) else 32
        tables.append((int(m.group(1), 16), size or 32))
    inside = lambda off: any(a <= off < a + s for a, s in tables)
    info = {"relative_relocations": len(rel), "last_entry_in_probe_table": inside(rel[-1][0]),
            "first_entry_in_probe_table": inside(rel[0][0]),
            "entries_in_probe_tables": sum(1 for o, _ in rel if inside(o))}
    p = subprocess.Popen([binary, "audit"], stdin=subprocess.PIPE, stdout=subprocess.PIPE, stderr=subprocess.PIPE, env={})
    try:
        seen = b""
        while b"clock real" not in seen:
            ch = p.stdout.readline()
            if not ch:
                break
            seen += ch
        base = None
        for l in open("/proc/%d/maps" % p.pid):
            if binary in l:
                lo = int(l.split("-")[0], 16)
                off = int(l.split()[2], 16)
                base = lo - off
                break
        wrong = []
        if base is not None:
            with open("/proc/%d/mem" % p.pid, "rb", buffering=0) as mem:
                for off, add in rel:
                    mem.seek(base + off)
                    v = int.from_bytes(mem.read(8), "little")
                    if v != base + add:
                        wrong.append({"offset": hex(off), "holds": hex(v), "expected": hex(base + add)})
        info["unrelocated_words"] = wrong[:20]
        info["unrelocated_count"] = len(wrong)
    except OSError as e:
        info["audit_error"] = str(e)
    finally:
        try:
            p.stdin.close()
        except OSError:
            pass
        try:
            p.wait(timeout=10)
        except subprocess.TimeoutExpired:
            p.kill()
    return info


BASEK = 1 << 30
AUX_COUNTS = [0, 0]     # images judged / accepted by the clauses reloc_image and vdso (added to the totals after the join)


def reloc_image(chk, bins):
    """Clause reloc_image (static PIE with self-relocation): the REAL relocation tables of each static-PIE probe
    (parsed from the ELF file by checks/elfparse.py) and the REAL memory of the running, stopped probe are judged
    by TLC (RelocJudge.tla) with the definitional Relocated of RelocDef.tla; RelocTrace.tla additionally runs the
    transcription Reloc.tla on the same real tables (conformance)."""
    from checks import elfparse
    recs, meta = [], []
    for (mode, build), binary in sorted(bins.items()):
        if not mode.startswith("spie"):
            continue
        elf = elfparse.Elf(open(binary, "rb").read())
        rela, rel = elf.rela_table(), elf.rel_table()
        dyn = dict(elf.dynamic())
        vaddrs = sorted({e[0] for e in rela} | {e[0] for e in rel})
        tset = set(vaddrs)
        for name in (".data.rel.ro", ".got", ".got.plt"):       # nothing writes these after start-up
            s = elf.section(name)
            if s:
                vaddrs += [a for a in range(s["addr"], s["addr"] + s["size"] - 7, 8) if a not in tset]
        vaddrs = sorted(set(vaddrs))
        index = {a: k + 1 for k, a in enumerate(vaddrs)}
        p = subprocess.Popen([binary, "image"], stdin=subprocess.PIPE, stdout=subprocess.PIPE, stderr=subprocess.PIPE, env={})
        try:
            seen = b""
            while b"clock real" not in seen:
                ch = p.stdout.readline()
                if not ch:
                    break
                seen += ch
            if b"clock real" not in seen:
                # the probe did not get through start-up: that is clause status' business (it runs the same binary)
                meta.append({"mode": mode, "build": build, "skipped": "probe did not reach its marker line"})
                continue
            base = load_base(p.pid, binary, elf)
            if base is None:
                raise core.ToolError("cannot find the load base of %s" % binary)
            after = []
            with open("/proc/%d/mem" % p.pid, "rb", buffering=0) as mem:
                for a in vaddrs:
                    mem.seek(base + a)
                    after.append(int.from_bytes(mem.read(8), "little"))
        finally:
            try:
                p.stdin.close()
            except OSError:
                pass
            try:
                p.wait(timeout=10)
            except subprocess.TimeoutExpired:
                p.kill()

        # exact, equality-preserving encoding into TLC's integers: run-time values inside the image become
        # BASEK + (v - base); other values below 2^29 stay; any other 64-bit value gets an id 2^29 + rank (the same
        # value always the same id), which can only ever be compared for equality
        bigs = {}

        def small(v):
            if 0 <= v < (1 << 29):
                return v
            return (1 << 29) + bigs.setdefault(v, len(bigs))

        def enc(v):
            if base <= v < base + (1 << 29):
                return BASEK + v - base
            return small(v)

        before = [small(elf.word_at(a)) for a in vaddrs]
        recs.append({"mode": mode, "build": build,
                     "rela": [[index[o], small(i), a if -(1 << 29) < a < (1 << 29) else small(a % (1 << 64))] for o, i, a in rela],
                     "rel": [[index[o], small(i)] for o, i in rel],
                     "before": before, "after": [enc(v) for v in after],
                     "dyn": [[small(tg), small(v)] for tg, v in elf.dynamic()],
                     "phdrs": [[small(ph["type"]), small(ph["vaddr"])] for ph in elf.phdrs],
                     "reladdr": small(dyn.get(17, 0)), "relaaddr": small(dyn.get(7, 0)),
                     "dynvaddr": next((ph["vaddr"] for ph in elf.phdrs if ph["type"] == 2), 0)})
        meta.append({"mode": mode, "build": build, "vaddrs": vaddrs, "base": base, "raw_after": after,
                     "rela_entries": len(rela), "rel_entries": len(rel), "words_judged": len(vaddrs)})
    info = {"binaries": [{k: m[k] for k in m if k not in ("vaddrs", "raw_after", "base")} for m in meta]}
    chk.extra["reloc_image"] = info
    if not recs:
        return
    path = os.path.join(chk.work, "reloc_image.ndjson")
    core.write_ndjson(path, recs)
    # canaries (anti-vacuity): the first image with (a) one relocated word left at its link-time value,
    # (b) one word that no entry names changed, (c) a relocated word holding base + addend + 8
    import copy
    canaries = []
    r0 = recs[0]
    tk = next((e[0] for e in r0["rela"] if e[1] == 8), None)
    nk = next((k for k in range(1, len(r0["before"]) + 1) if k not in {e[0] for e in r0["rela"]} | {e[0] for e in r0["rel"]}), None)
    if tk:
        c = copy.deepcopy(r0); c["after"][tk - 1] = c["before"][tk - 1]; canaries.append((tk, c))
        c = copy.deepcopy(r0); c["after"][tk - 1] += 8; canaries.append((tk, c))
    if nk:
        c = copy.deepcopy(r0); c["after"][nk - 1] += 1; canaries.append((nk, c))
    cpath = os.path.join(chk.work, "reloc_image_all.ndjson")
    core.write_ndjson(cpath, recs + [c for _, c in canaries])
    res = core.run_tlc("RelocJudge.tla", "RelocJudge.cfg", workers=1, env={"TRACE": cpath}, timeout=3000, xmx="3g")
    core.tlc_must_pass(res, "RelocJudge")
    with _LOCK:
        chk.add_tlc(res)
    j = res.printed("JUDGED")
    if len(j) != 1 or j[0]["n"] != len(recs) + len(canaries):
        raise core.ToolError("RelocJudge did not report on all %d images" % len(recs))
    for (k, _), v in zip(canaries, j[0]["v"][len(recs):]):
        if k not in v["bad"] or not set(v["bad"]) <= set(j[0]["v"][0]["bad"]) | {k}:
            raise core.ToolError("RelocJudge did not reject a corrupted image exactly at word %d: %s" % (k, v["bad"][:5]))
    info["canaries_rejected"] = len(canaries)
    full = [m for m in meta if "vaddrs" in m]
    for v, rec, m in zip(j[0]["v"], recs, full):
        if not v["wf"]:
            raise core.ToolError("relocation tables of %s/%s are not well formed (duplicate targets?)" % (rec["mode"], rec["build"]))
        with _LOCK:
            AUX_COUNTS[0] += 1
            AUX_COUNTS[1] += 0 if v["bad"] else 1
        if v["bad"]:
            targets = {e[0] for e in rec["rela"] if e[1] == 8} | {e[0] for e in rec["rel"] if e[1] == 8}
            unapplied = [k for k in v["bad"] if k in targets]
            kind = "relocation_not_applied" if unapplied else "word_changed_without_relocation"
            shown = [{"vaddr": hex(m["vaddrs"][k - 1]), "holds": hex(m["raw_after"][k - 1]),
                      "link_time": hex(rec["before"][k - 1]),
                      "rela_entry": next((n for n, e in enumerate(rec["rela"]) if e[0] == k), None)} for k in v["bad"][:5]]
            with _LOCK:
                chk.violate({"clause": "reloc_image", "mode": rec["mode"], "kind": kind},
                            "[%s/%s] %d of %d words of the running static-PIE image differ from Relocated(image) (load base %s): %s" % (
                                rec["mode"], rec["build"], len(v["bad"]), len(rec["before"]), hex(m["base"]), shown),
                            {"mode": rec["mode"], "build": rec["build"], "clause": "reloc_image", "words": shown,
                             "argv": [[97]], "env": [], "keys": []})
    info["relative_entries_judged"] = sum(v["targets"] for v in j[0]["v"][:len(recs)])
    # conformance of the transcription on the real tables
    try:
        res = core.run_tlc("RelocTrace.tla", "RelocTrace.cfg", workers=2, env={"TRACE": path}, timeout=3000, xmx="3g")
        core.tlc_must_pass(res, "RelocTrace")
        with _LOCK:
            chk.add_tlc(res)
        conf, div = res.printed("CONF"), res.printed("DIV")
        info["transcription_on_real_tables"] = {"conform": len(conf), "diverged": len(div), "states": res.distinct,
                                                "first_divergence": div[:1]}
        if div:
            core.log("C07: model drift - Reloc.tla run on the real tables ends in another memory than the real probe (not a verdict)")
    except core.ToolError as e:
        info["transcription_on_real_tables"] = {"error": str(e)[:300]}


def vdso_record(image, resolved, label, target):
    from checks import elfparse
    v = elfparse.Elf(image)
    ds = v.section(".dynstr")
    clamp = lambda x: x if x < (1 << 30) else (1 << 30)
    return {"mode": "image", "build": label, "target": target,
            "sections": [{"name": list(s["name"]), "align": clamp(s["addralign"])} for s in v.sections],
            "shstrndx": v.e_shstrndx,
            "dynstr": list(image[ds["offset"]:ds["offset"] + ds["size"]]) if ds else [0],
            "dynsym": [{"name": s[5], "value": clamp(s[1]), "shndx": s[3]} for s in v.symbols(".dynsym")],
            "resolved": resolved}


def vdso_images(chk, image):
    """The REAL lookup function (through the cfg-only hook tiny_std::elf::verif_find_clock_gettime, std-linked driver
    probe/vdsofn) run on the kernel's vDSO image and on variants of it that a kernel could equally ship:
    another alignment of .text, the function at a 16- but not 32-aligned address, no section-name table.
    Each (image, resolved offset) is judged by VdsoJudge.tla like the probes' own pointer."""
    import struct
    from checks import elfparse
    target = list(b"__vdso_clock_gettime")
    v = elfparse.Elf(image)
    variants = [("kernel", image)]
    text = v.section(".text")
    if text:
        for al in (16, 64, 128, 4096):
            b = bytearray(image)
            struct.pack_into("<Q", b, v.e_shoff + text["index"] * v.e_shentsize + 48, al)
            variants.append(("text_align_%d" % al, bytes(b)))
    dy = v.section(".dynsym")
    syms = v.symbols(".dynsym")
    tgt = next((k for k, s in enumerate(syms) if s[0] == bytes(target)), None)
    if dy and tgt is not None:
        for k, s in enumerate(syms):        # clock_gettime placed where another function of the vDSO lies
            if s[3] == syms[tgt][3] and s[1] != syms[tgt][1] and s[0].startswith(b"__vdso_"):
                b = bytearray(image)
                struct.pack_into("<Q", b, dy["offset"] + 24 * tgt + 8, s[1])
                variants.append(("function_at_%s" % hex(s[1]), bytes(b)))
    b = bytearray(image)
    struct.pack_into("<H", b, 62, 0)        # e_shstrndx = 0
    variants.append(("no_shstrndx", bytes(b)))
    bdir = core.cargo_build(template="probe/vdsofn")
    recs = []
    for label, img in variants:
        path = os.path.join(chk.work, "vdso_%s.img" % label)
        with open(path, "wb") as f:
            f.write(img)
        p = subprocess.run([os.path.join(bdir, "vdsofn"), path], stdout=subprocess.PIPE, stderr=subprocess.PIPE, timeout=60)
        out = p.stdout.decode().split()
        if p.returncode != 0 or len(out) != 2:
            resolved = -2           # the lookup faulted / panicked on this image
        else:
            resolved = -1 if out[1] == "none" else int(out[1])
        recs.append(vdso_record(img, resolved, label, target))
    return recs


def load_base(pid, binary, elf):
    """run-time address of link-time address 0 of the main executable (0 for a non-PIE static link)"""
    first = min((p for p in elf.phdrs if p["type"] == 1), key=lambda p: p["vaddr"])
    for l in open("/proc/%d/maps" % pid):
        if binary in l:
            lo = int(l.split("-")[0], 16)
            off = int(l.split()[2], 16)
            return lo - off - (first["vaddr"] - first["offset"])
    return None


def vdso_lookup(chk, bins):
    """Clause vdso: dump the REAL vDSO of each running aux-enabled probe, extract section headers / .dynstr / .dynsym
    with checks/elfparse.py, read the pointer tiny-std stored in its static VDSO_CLOCK_GET_TIME from the probe's
    memory, and let TLC (VdsoJudge.tla) decide: pointer admissible by the symbol table (verdict), transcribed walk
    on the real image = pointer (conformance), can the rounding of vdso.rs bite on this image (lead decided)."""
    from checks import elfparse
    target = list(b"__vdso_clock_gettime")
    recs, meta = [], []
    for (mode, build), binary in sorted(bins.items()):
        if mode not in ("dyn", "static", "spie"):
            continue
        elf = elfparse.Elf(open(binary, "rb").read())
        sym = next((s for s in elf.symbols(".symtab") if b"VDSO_CLOCK_GET_TIME" in s[0]), None)
        if sym is None:
            meta.append({"mode": mode, "build": build, "skipped": "no symbol VDSO_CLOCK_GET_TIME in the probe (stripped?)"})
            continue
        p = subprocess.Popen([binary, "vdso"], stdin=subprocess.PIPE, stdout=subprocess.PIPE, stderr=subprocess.PIPE, env={})
        try:
            seen = b""
            while b"clock real" not in seen:
                ch = p.stdout.readline()
                if not ch:
                    break
                seen += ch
            if b"clock real" not in seen:
                meta.append({"mode": mode, "build": build, "skipped": "probe did not reach its marker line"})
                continue
            aux = open("/proc/%d/auxv" % p.pid, "rb").read()
            pairs = [(int.from_bytes(aux[i:i + 8], "little"), int.from_bytes(aux[i + 8:i + 16], "little")) for i in range(0, len(aux) - 15, 16)]
            ehdr = dict(pairs).get(33, 0)
            base = load_base(p.pid, binary, elf)
            size = 0
            for l in open("/proc/%d/maps" % p.pid):
                if "[vdso]" in l:
                    lo, hi = [int(x, 16) for x in l.split()[0].split("-")]
                    if lo == ehdr:
                        size = hi - lo
            if not ehdr or not size or base is None:
                meta.append({"mode": mode, "build": build, "skipped": "no vDSO mapping / load base"})
                continue
            with open("/proc/%d/mem" % p.pid, "rb", buffering=0) as mem:
                mem.seek(ehdr)
                image = mem.read(size)
                mem.seek(base + sym[1])
                ptr = int.from_bytes(mem.read(8), "little")
        finally:
            try:
                p.stdin.close()
            except OSError:
                pass
            try:
                p.wait(timeout=10)
            except subprocess.TimeoutExpired:
                p.kill()
        kernel_image = image
        v = elfparse.Elf(image)
        ds, dy = v.section(".dynstr"), v.section(".dynsym")
        if ds is None or dy is None:
            meta.append({"mode": mode, "build": build, "skipped": "vDSO without .dynstr/.dynsym section headers"})
            continue
        clamp = lambda x: x if x < (1 << 30) else (1 << 30)
        rec = {"mode": mode, "build": build, "target": target,
               "sections": [{"name": list(s["name"]), "align": clamp(s["addralign"])} for s in v.sections],
               "shstrndx": v.e_shstrndx,
               "dynstr": list(image[ds["offset"]:ds["offset"] + ds["size"]]),
               "dynsym": [{"name": s[5], "value": clamp(s[1]), "shndx": s[3]} for s in v.symbols(".dynsym")],
               "resolved": -1 if ptr == 0 else (ptr - ehdr if ehdr <= ptr < ehdr + size else (1 << 30) + 1)}
        recs.append(rec)
        meta.append({"mode": mode, "build": build, "vdso_bytes": size, "dynsym_entries": len(rec["dynsym"]), "pointer": hex(ptr),
                     "vdso_base": hex(ehdr), "independent_lookup": [hex(s[1]) for s in v.symbols(".dynsym") if s[0] == bytes(target)]})
    info = {"binaries": meta}
    chk.extra["vdso_lookup"] = info
    if not recs:
        return
    nprobe = len(recs)
    try:
        recs += vdso_images(chk, kernel_image)
    except (core.ToolError, OSError, subprocess.SubprocessError, ValueError) as e:
        info["image_variants_error"] = str(e)[:300]
    # canaries: a pointer 16 bytes beside the symbol / a pointer to another symbol must be rejected
    import copy
    canaries = []
    if recs[0]["resolved"] >= 0:
        c = copy.deepcopy(recs[0]); c["resolved"] += 16; canaries.append(c)
        other = next((s["value"] for s in recs[0]["dynsym"] if s["shndx"] and s["value"] not in (recs[0]["resolved"], 0)), None)
        if other is not None:
            c = copy.deepcopy(recs[0]); c["resolved"] = other; canaries.append(c)
    path = os.path.join(chk.work, "vdso_lookup.ndjson")
    core.write_ndjson(path, recs + canaries)
    res = core.run_tlc("VdsoJudge.tla", "VdsoJudge.cfg", workers=1, env={"TRACE": path}, timeout=3000, xmx="3g")
    core.tlc_must_pass(res, "VdsoJudge")
    with _LOCK:
        chk.add_tlc(res)
    j = res.printed("JUDGED")
    if len(j) != 1 or j[0]["n"] != len(recs) + len(canaries):
        raise core.ToolError("VdsoJudge did not report on all %d images" % len(recs))
    if any(v["ok"] for v in j[0]["v"][len(recs):]):
        raise core.ToolError("VdsoJudge accepted a corrupted pointer (vacuous clause?)")
    info["canaries_rejected"] = len(canaries)
    full = [m for m in meta if "pointer" in m]
    variants = []
    for v, rec in list(zip(j[0]["v"], recs))[nprobe:]:
        variants.append({"image": rec["build"], "resolved": rec["resolved"], "admissible": v["ok"], "definitional_values": v["def"],
                         "walk_conforms": v["conform"]})
        with _LOCK:
            AUX_COUNTS[0] += 1
            AUX_COUNTS[1] += 1 if v["ok"] else 0
        if not v["ok"]:
            with _LOCK:
                chk.violate({"clause": "vdso", "kind": "faulted" if rec["resolved"] == -2 else "pointer_is_not_the_symbol"},
                            "the real lookup (find_vdso_clock_get_time) run on the vDSO image variant '%s' resolved offset %s, but the "
                            "image's dynamic symbol __vdso_clock_gettime has value(s) %s" % (rec["build"], rec["resolved"], v["def"]),
                            {"mode": "dyn", "build": "debug", "clause": "vdso", "variant": rec["build"], "argv": [[97]], "env": [], "keys": []})
    info["image_variants"] = variants
    for v, rec, m in list(zip(j[0]["v"], recs, full))[:nprobe]:
        m.update({"admissible": v["ok"], "walk_conforms": v["conform"], "symbols_aligned_to_section": v["aligned"],
                  "definitional_values": v["def"], "walk_result": v["walk"]})
        with _LOCK:
            AUX_COUNTS[0] += 1
            AUX_COUNTS[1] += 1 if v["ok"] else 0
        if not v["ok"]:
            with _LOCK:
                chk.violate({"clause": "vdso", "kind": "pointer_is_not_the_symbol"},
                            "[%s/%s] tiny-std stored %s for clock_gettime (vDSO at %s, offset %s) but the vDSO's dynamic symbol "
                            "__vdso_clock_gettime has value(s) %s" % (rec["mode"], rec["build"], m["pointer"], m["vdso_base"],
                                                                      rec["resolved"], v["def"]),
                            {"mode": rec["mode"], "build": rec["build"], "clause": "vdso", "argv": [[97]], "env": [], "keys": []})
        if not v["conform"]:
            core.log("C07: model drift - Vdso.tla's walk on the real vDSO gives %s, the code stored offset %s (not a verdict)" % (
                v["walk"], rec["resolved"]))
    info["model_conformance_ok"] = all(v["conform"] for v in j[0]["v"][:len(recs)])
    info["every_symbol_of_this_vdso_is_aligned_to_its_section"] = all(v["aligned"] for v in j[0]["v"][:nprobe])


EXTRA_ENVS = [
    [[70, 79, 61, 49], [70, 79, 79, 61, 50]],                       # FO=1 FOO=2  (the lead of DESIGN.md section 6)
    [[65, 61, 255, 254], [66, 61, 120]],                             # non-UTF-8 value
    [[65, 66, 67, 68, 61] + [76] * 200, [65, 61] + [76] * 200],      # long values
    [[65, 66, 61, 49], [65, 61, 50], [65, 66, 67, 61, 51], [65, 66, 67, 68, 61, 52], [66, 61, 53], [67, 61, 54], [61, 55]],
    [[61], [61, 61], [65], [65, 61]],
    # duplicates whose FIRST matching entry has a non-UTF-8 value and a later one a valid value, and the reverse:
    # var must answer from the first (NotUnicode resp. the value), var_unix returns the first one's bytes
    [[65, 61, 255, 254], [65, 61, 111, 107]],
    [[65, 61, 111, 107], [65, 61, 255, 254]],
    [[66, 61, 120], [65, 66, 61, 255], [65, 61, 255, 254], [65, 66, 61, 121], [65, 61, 111, 107], [65, 61, 255]],
]


def action_coverage(chk, module, cfgs):
    """DESIGN 3.3 (3): tlc -coverage 1 on exhaustive configurations; an action that never fires is listed."""
    counts = {}
    for cfg in cfgs:
        res = core.run_tlc(module, cfg, workers=4, timeout=3000, xmx="4g", coverage=True)
        for m in re.finditer(r"^<(\w+) line \d+, col \d+ to line \d+, col \d+ of module \w+>: (\d+):(\d+)", res.out, re.M):
            if m.group(1) not in ("Init",):
                counts[m.group(1)] = counts.get(m.group(1), 0) + int(m.group(3))
    chk.extra["action_coverage"] = counts
    chk.extra["actions_not_exercised"] = sorted(a for a, n in counts.items() if n == 0)


def run(tier):
    chk = core.Check("C07", tier, "model_checking")
    core.run_cmd(["make", "-s", "-C", os.path.join(core.VERIF, "tools"), "bin/launch"])
    quick = tier == "quick"
    bg = concurrent.futures.ThreadPoolExecutor(max_workers=1)
    bg2 = concurrent.futures.ThreadPoolExecutor(max_workers=1)
    model_future = bg.submit(model_check, chk, tier)
    bg3 = concurrent.futures.ThreadPoolExecutor(max_workers=1)
    aux_future = bg3.submit(model_check_aux, chk, tier)

    bins = {}
    for mode, tmpl in MODES:
        for rel in (False, True):
            bdir = core.cargo_build(template=tmpl, release=rel)
            bins[(mode, "release" if rel else "debug")] = os.path.join(bdir, "startprobe")
    not_exercised = {}
    for mode, tmpl in LINK_VARIANTS:
        for rel in (False, True):
            try:
                bdir = core.cargo_build(template=tmpl, release=rel)
                bins[(mode, "release" if rel else "debug")] = os.path.join(bdir, "startprobe")
            except core.ToolError as e:       # e.g. no usable lld: recorded, not fatal
                not_exercised["%s/%s" % (mode, "release" if rel else "debug")] = str(e)[-300:]
    chk.extra["link_variants_not_exercised"] = not_exercised

    AUX_COUNTS[0] = AUX_COUNTS[1] = 0
    image_future = bg2.submit(lambda: (reloc_image(chk, bins), vdso_lookup(chk, bins)))
    envs_all = gen(chk, "env", 3)
    argvs = [v["argv"] for v in gen(chk, "argv", 0)]
    rng = random.Random(chk.seed)
    small = [v for v in envs_all if len(v["env"]) <= 2]
    big = [v for v in envs_all if len(v["env"]) == 3]
    if quick:
        big = rng.sample(big, 300)
    # longer blocks (4..6 entries) drawn at random from the same 23 entries (the judge derives the expected
    # answers itself, so these need no generator output)
    entries = sorted({tuple(e) for v in small for e in v["env"]})
    longer = [{"env": [list(rng.choice(entries)) for _ in range(rng.randint(4, 6))], "look": None}
              for _ in range(150 if quick else 2000)]
    envs = [{"env": e, "look": None} for e in EXTRA_ENVS] + small + big + longer
    many_env = [list(b"K%02d=v%d" % (i, i)) for i in range(50)] + [list(b"K07=again"), list(b"K4=short"), list(b"novalue")]
    extra_cases = [
        # many arguments / many entries; keys: first, last, middle, absent, a key that is a proper prefix of ten names,
        # a duplicated name (first one must answer), an entry without '='
        {"argv": [list(b"arg%d" % i) for i in range(40)], "env": many_env,
         "keys": [list(b"K00"), list(b"K49"), list(b"K25"), list(b"K50"), list(b"K4"), list(b"K07"), list(b"K"), list(b"novalue")]},
        # non-UTF-8 name and key (var_unix only), non-UTF-8 value
        {"argv": [[255, 254], [97]], "env": [[255, 61, 120], [65, 61, 255], [255, 255, 61, 121]], "keys": [[255], [65], [255, 255], [255, 255, 255]]},
        # a 20 000-byte argument and a 20 000-byte value
        {"argv": [[97], [76] * 20000, []], "env": [[66, 61] + [77] * 20000, [65, 61, 120]], "keys": [[66], [65]]},
        # names around the word sizes (7, 8, 9, 15, 16, 17 bytes), each a proper prefix of the next; keys: every name,
        # one byte shorter / longer, last byte changed, first byte changed (a word-wise comparison would show here)
        {"argv": [[97]],
         "env": [list(b"ABCDEFGH=8"), list(b"ABCDEFG=7"), list(b"ABCDEFGHI=9"), list(b"ABCDEFGHIJKLMNOP=16"),
                 list(b"ABCDEFGHIJKLMNO=15"), list(b"ABCDEFGHIJKLMNOPQ=17"), list(b"ABCDEFGH=again")],
         "keys": [list(k) for k in (b"ABCDEFG", b"ABCDEFGH", b"ABCDEFGHI", b"ABCDEFGHIJKLMNO", b"ABCDEFGHIJKLMNOP", b"ABCDEFGHIJKLMNOPQ",
                                    b"ABCDEF", b"ABCDEFGHIJ", b"ABCDEFGHIJKLMN", b"ABCDEFGHIJKLMNOPQR", b"ABCDEFGX", b"ABCDEFGHIJKLMNOX",
                                    b"XBCDEFGH", b"ABCDEFGHIJKLMNOPX")]},
        # 200-byte key and name
        {"argv": [[97]], "env": [[76] * 199 + [61, 49], [76] * 200 + [61, 50], [76] * 201 + [61, 51]], "keys": [[76] * 200, [76] * 198, [76] * 202]},
    ]
    # leads from the model first (the model-level work ran next to builds and generation)
    leads = model_future.result()
    bg.shutdown()
    lead_cases = [{"argv": [[97]], "env": e, "keys": [k]} for e, k in leads]
    use_ids = ids_usable(chk, bins[("dyn", "debug")])
    chk.extra["runs_under_other_ids"] = use_ids
    # every third run under other real ids than root's 0/0 (a uid/gid mix-up is invisible for 0/0)
    cases = lead_cases + [{"argv": argvs[i % len(argvs)], "env": v["env"], "keys": keys_for(v["env"]),
                           "ids": ((1000 + i % 7, 1100 + i % 3, 2000 + i % 5, 2100 + i % 2) if i % 6 == 0      # real != effective: AT_UID,
                                   else (1000 + i % 7, 2000 + i % 5))                              # AT_EUID, AT_GID, AT_EGID pairwise distinct
                           if (i % 3 == 0 and use_ids) else None}
                          for i, v in enumerate(envs)]
    # a block of 5 001 entries (V0..V4999, LAST): the scan of var / var_unix has no bound on the number of entries
    big_env = [list(b"V%d=%d" % (i, i)) for i in range(5000)] + [list(b"LAST=z")]
    extra_cases.append({"argv": [[97]], "env": big_env, "always": True,
                        "keys": [list(k) for k in (b"V0", b"V4000", b"V4095", b"V4096", b"V4097", b"V4999", b"LAST", b"W", b"V5000")]})
    cases += [dict(c, ids=None) for c in extra_cases]
    # the Iterator surface of args_os() / args(): every generated script on a 5-argument vector, on a vector with a
    # non-UTF-8 argument in the middle, and on a 1-argument vector
    scripts = gen_scripts(chk)
    both = [(v, s) for s in scripts for v in ("o", "s")]
    for av in ([list(b"a%d" % i) for i in range(5)], [[97], [255, 254], [98]], [[122]]):
        cases.append({"argv": av, "env": [[65, 61, 120]], "keys": [[65]], "scripts": both, "ids": None})
    chk.extra["iterator_scripts"] = len(scripts)
    # every argument vector at least once even if there are few env blocks
    for i in range(len(envs), len(argvs)):
        cases.append({"argv": argvs[i], "env": [], "keys": KEYS[:2]})

    variant_modes = {m for m, _ in LINK_VARIANTS}
    # the link variants run the hand-written cases, the leads and every fourth (quick: eighth) generated case
    step = 8 if quick else 4
    reduced = [c for i, c in enumerate(cases) if i < len(lead_cases) + len(EXTRA_ENVS) or i % step == 0 or "scripts" in c or len(c["argv"]) > 10 or c.get("always")]

    trip_notes = []

    def work(item):
        (mode, build), binary = item
        mine = reduced if mode in variant_modes else cases
        recs, raws = run_binary(chk, mode, build, binary, mine, tier, stack_every=10 if quick else 25)
        return (mode, build), (recs, raws, mine)

    core.log("C07: %d cases per binary, %d binaries (t=%.0fs)" % (len(cases), len(bins), time.time() - chk.t0))
    results = {}
    with concurrent.futures.ThreadPoolExecutor(max_workers=8) as ex:
        for key, val in ex.map(work, sorted(bins.items())):
            results[key] = val
    # wall-clock trips are re-confirmed one binary at a time (alone), see reconfirm_timeouts
    for key in sorted(results):
        recs, raws, mine = results[key]
        results[key] = reconfirm_timeouts(chk, key[0], key[1], bins[key], mine, recs, raws, trip_notes)
    chk.extra["wall_clock_trips_not_reproduced"] = [n for n in trip_notes if n["reproduced_2_of_2"] < n["timeouts_in_the_batch"]]
    chk.extra["wall_clock_trips"] = trip_notes

    core.log("C07: execs done (t=%.0fs)" % (time.time() - chk.t0))
    nontrivial = set()
    lookups = 0
    stacks = 0
    canary_recs = []
    stack_pool = []
    with concurrent.futures.ThreadPoolExecutor(max_workers=4 if quick else 2) as ex:   # <= 8 single-worker judges in flight
        verdicts = dict(zip(sorted(results), ex.map(lambda k: judge(chk, results[k][0], "%s_%s" % k), sorted(results))))
    for (mode, build), (recs, raws) in sorted(results.items()):
        bad = verdicts[(mode, build)]
        canary_recs += make_canaries(recs, bad)
        chk.evaluations += len(recs)
        chk.traces += len(recs) - len(bad)
        for i, rec in enumerate(recs):
            if rec["st"] and i not in bad:
                stack_pool.append(rec)
            lookups += len(rec["look"])
            stacks += 1 if rec["st"] else 0
            names = [name_of(e) for e in rec["kenv"]]
            if len(set(n for n in names if n is not None)) < len([n for n in names if n is not None]) or \
               any(a is not None and b is not None and a != b and b.startswith(a) for a in names for b in names):
                nontrivial.add(tuple(tuple(e) for e in rec["kenv"]))
            if i in bad:
                report(chk, rec, bad[i], {"mode": mode, "build": build, "argv": rec["argv"], "env": rec["env"],
                                          "keys": [l["key"] for l in rec["look"]], "record": rec})
        if recs and len(chk.samples) < 6:
            r = recs[len(recs) // 3]
            chk.sample({"mode": mode, "build": build, "argv": [show(a) for a in r["argv"]], "env": [show(e) for e in r["env"]],
                        "look": [[show(l["key"]), fmt_res(l["varu"])] for l in r["look"]], "mono": r["mono"]})
    try:
        conformance(chk, stack_pool, 64 if quick else 400)
    except (core.ToolError, OSError, ValueError) as e:
        core.log("C07: algorithm-level conformance not available: %s" % str(e)[:300])
        chk.extra["model_conformance"] = {"error": str(e)[:300]}
        chk.extra["model_conformance_ok"] = False
    if not quick:
        action_coverage(chk, "Startup_MC.tla", ["Startup_boot.cfg", "Startup_lookup2.cfg"])
    image_future.result()
    bg2.shutdown()
    chk.evaluations += AUX_COUNTS[0]
    chk.traces += AUX_COUNTS[1]
    chk.extra["transcription_model_checked"] = chk.extra.get("transcription_model_checked", []) + aux_future.result()
    bg3.shutdown()
    core.log("C07: judged (t=%.0fs)" % (time.time() - chk.t0))
    chk.nontrivial = len(nontrivial)
    chk.exhaustive = not quick
    vd = {"%s/%s" % k: vdso_used(b) for k, b in sorted(bins.items()) if k[0] != "dyn-noaux"}
    chk.extra["vdso"] = vd
    unused = sorted(k for k, v in vd.items() if v and not v["vdso_used"])
    chk.extra["vdso_used"] = not unused and all(v is not None for v in vd.values())
    if unused:
        chk.extra["vdso_NOT_used_in"] = unused
        core.log("NOTE (documented non-verdict): tiny-std's clock does NOT go through the vDSO in %s - every reading is a system call; "
                 "the statement only constrains the vDSO clock 'when used'" % unused)
    def safe_audit(b):
        try:
            return reloc_audit(b)
        except (OSError, ValueError, subprocess.SubprocessError) as e:
            return {"audit_error": str(e)[:200]}
    chk.extra["relocation_audit"] = {"%s/%s" % k: safe_audit(b) for k, b in sorted(bins.items()) if k[0].startswith("spie")}
    for k, a in chk.extra["relocation_audit"].items():
        if a and a.get("unrelocated_count"):
            core.log("LEAD (not a verdict): %s: %d relocated word(s) of the running static-PIE probe do not hold base + addend: %s" % (
                k, a["unrelocated_count"], a["unrelocated_words"][:3]))
    chk.extra["model_leads_replayed"] = [{"env": [show(e) for e in e_], "key": show(k)} for e_, k in leads]
    chk.extra["canaries_rejected"] = judge_canaries(chk, canary_recs)
    chk.extra["execs"] = chk.evaluations
    chk.extra["lookups_judged"] = lookups
    chk.extra["real_initial_stacks_judged"] = stacks
    chk.extra["link_modes"] = [m for m, _ in MODES] + sorted({k[0] for k in bins} & {m for m, _ in LINK_VARIANTS})
    chk.rule = ("TLC (StartupGen.tla) enumerates all environment blocks of <= 3 entries over 23 entries (5 names x 4 values incl. '=y', "
                "'a=b', empty; 3 entries without '='; duplicates and prefix-related names included) - %s - and all 85 argument vectors "
                "of length <= 3 over {'', 'a', 0xff, 200 bytes}; each block is exec'd (exact vectors, tools/launch) in 3 link modes (+ dynamic PIE "
                "without the aux feature) x debug/release with all 7 keys looked up through var and var_unix; every run is one record judged by TLC "
                "(StartupJudge.tla: args, lookups, aux getters vs /proc/<pid>/auxv, clock order). non-trivial = distinct blocks that have a "
                "duplicate name or two names one a proper prefix of the other" % (
                    "all blocks of <= 2 entries plus a seeded sample of 300 3-entry blocks" if quick else "all 12 720 of them") + " (plus %d random blocks of 4..6 entries and a few hand-written cases: 40 arguments / 53 entries, non-UTF-8 names, 200-byte and 20 000-byte strings)" % (150 if quick else 2000))
    chk.assumptions = ["x86_64 only; kernel passes each aux key at most once",
                       "self-relocation: judged for every word named by .rela.dyn/.rel.dyn and for the other words of .data.rel.ro/.got; REL entries do not occur with this linker (model only)",
                       "vDSO lookup: the probes' stored pointer and the real lookup function on 11 variants of this kernel's vDSO image; other kernels' images are covered only by the bounded model",
                       "for the empty key 'missing' is admitted next to the definitional answer (names are non-empty in POSIX)",
                       "the Iterator surface of args()/args_os() is exercised by TLC-generated scripts of <= 3 calls on one iterator (argument vectors of 1, 3 and 5 items); size_hint may be any correct bracket of the remaining count",
                       "UTF-8 validity is decided only for all-ASCII strings (valid) and strings with a byte that never occurs in UTF-8 (invalid)",
                       "clock: the tiny-std reading lies between two direct system-call readings; whether it came from the vDSO is "
                       "measured by counting clock_gettime system calls under strace (extra.vdso)"]
    return chk.finish()


def replay(path):
    rp = json.load(open(path))["replay"]
    chk = core.Check("C07", "quick", "model_checking")
    core.run_cmd(["make", "-s", "-C", os.path.join(core.VERIF, "tools"), "bin/launch"])
    tmpl = dict(MODES)[rp["mode"]]
    bdir = core.cargo_build(template=tmpl, release=rp["build"] == "release")
    if rp.get("clause") in ("reloc_image", "vdso"):
        fn = reloc_image if rp["clause"] == "reloc_image" else vdso_lookup
        fn(chk, {(rp["mode"], rp["build"]): os.path.join(bdir, "startprobe")})
        for v in chk.violations:
            print("REJECTED", v.what[:1500])
        print("accepted" if not chk.violations else "%d violation(s)" % len(chk.violations))
        return 1 if chk.violations else 0
    case = {"argv": rp["argv"], "env": rp["env"], "keys": rp.get("keys") or [rp.get("key", [])],
            "scripts": [(v, s) for v, s in rp.get("scripts", [])]}
    recs, raws = run_binary(chk, rp["mode"], rp["build"], os.path.join(bdir, "startprobe"), [case], "replay")
    bad = judge(chk, recs, "replay")
    print(json.dumps(recs[0])[:3000])
    print("REJECTED %s" % bad[0] if bad else "accepted")
    return 1 if bad else 0


def selftest():
    """(1) the canaries of a quick run (corrupted records rejected clause by clause), (2) one stored negative
    patch must yield a VIOLATION, one benign patch must not."""
    rc = run("quick")
    if rc != 0:
        print("selftest: quick run on the unchanged tree did not exit 0")
        return 1
    ev = json.load(open(os.path.join(core.out_dir("evidence"), "C07.json")))
    print("selftest: %d canaries rejected" % ev["coverage"].get("canaries_rejected", 0))
    ok = ev["coverage"].get("canaries_rejected", 0) > 0
    for slug, want in (("C07-env-no-eq-check", 0), ("C07-benign-aux-bound", 1)):
        p = subprocess.run([os.path.join(core.VERIF, "bin", "mutant-test"), os.path.join(core.VERIF, "seeded", slug, "patch.diff"), "C07"],
                           stdout=subprocess.PIPE, stderr=subprocess.STDOUT, timeout=3000)
        print("selftest: %s -> mutant-test rc=%d (expected %d)" % (slug, p.returncode, want))
        ok = ok and p.returncode == want
    print("selftest ok" if ok else "selftest FAILED")
    return 0 if ok else 2
