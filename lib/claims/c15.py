"""Claim registered in MANIFEST.json for C15 (regenerate with bin/mkmanifest)."""
CLAIM = dict(
    engine='tlc+harness/iohelp',
    level='model_checking',
    design_ref='DESIGN.md section 7 C15',
    technique='TLA+ transcription of io.rs (read_to_end growth/probe/ReadBuf cursors, append_to_string guard, read_exact, write_all, write_fmt) model-checked by TLC against definitional operators over bounded script families; the real helpers run on every TLC-generated case with scripted, logging readers/writers; every recorded run judged by TLC (definitions) and replayed through the transcription (call-log conformance)',
    text="TLC explores the transcription of tiny-std/src/io.rs on every reader/writer script of bounded families (chunks of 1,2,31,32,33,64 bytes, EINTR, end of file, error; up to 4 items quick / 5 thorough; initial (len,cap) incl. exact fit; every split of 2-/3-/4-byte UTF-8 characters, invalid UTF-8 at start/middle/end; writers accepting 1,2,32,all,Ok(0),EINTR,error) and checks transcription => definition plus the set_len/assume_init side conditions. The real helpers are run on every generated case and on seeded random long scripts; TLC judges each recorded outcome against the definitional operators and replays each call log through the transcription.",
    note='Trusted: TLC, IoHelpers.tla, the scripted reader/writer of the driver. Scripts longer than the bound are sampled, not enumerated. Buffer contents after an error are left open (init + any prefix of the delivered data). Readers that break the Read contract (report more than requested) are not covered. The print macros (unix/print.rs) write to a raw fd with their own loop and are exercised separately over a pipe (short writes forced by signals), only prefix/complete delivery is asserted there.',
)
