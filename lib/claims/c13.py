"""Claim registered in MANIFEST.json for C13 (regenerate with bin/mkmanifest)."""
CLAIM = dict(
    engine='tlc+spawntrace+harness/spawnd+probe/spawnp+probe/spawnn',
    level='model_checking',
    design_ref='DESIGN.md section 7 C13; notes/C13.md',
    technique='TLA+ algorithm model of Command/do_spawn (Spawn.tla: two processes, sync pipe, one planned failure per run) '
              'model-checked exhaustively by TLC against the property-level clauses (SpawnAbs.tla) for every configuration x '
              'fault plan of the bounded space, with and without feature `start`; the TLC-generated plans are executed by the '
              'real code under an own fork-following ptrace tracer that injects the planned failure into the planned process; '
              'every recorded run (system calls of the whole tree, which task passed the return point, execve arguments, '
              'helper dump of argv/env/cwd/descriptors/ids, wait result) is judged by TLC (SpawnTrace.tla) and compared with '
              'the model\'s prediction (conformance).',
    text="Spawn.tla transcribes Command::arg/env (both `start` variants), setup_io, the sync pipe, fork, the child's "
         "close/dup2 x3/chdir/setuid/setgid/setpgid/pre-exec closures/execve/errno report/exit and the parent's close/read "
         "loop (0 | 8 | short | EINTR | error)/wait/return. TLC checks in every reachable state of every (configuration, "
         "fault) pair: argv/envp vectors NULL-terminated, the return point is passed only by the caller and at most once, "
         "Ok implies that no step up to exec failed and the child exec'ed exactly the configured program/argv/env/cwd/"
         "stdio/ids, Err implies a step that really failed (an interrupted read of the sync pipe does not count), carries its positive errno and leaves no child of this call running, the child never gets back into the caller's "
         "code, wait/try_wait report the child's status on every call of a sequence (status cache, ECHILD after reaping modelled), nobody blocks forever (deadlock freedom). Quick: all 64 stdio tables on a base "
         "command and on a command using every other setting + 720 configurations of the other dimensions (args, env, cwd, own/foreign uid/gid, pgroup, closures, program present/missing) x 31 fault plans (~470k states per `start` variant); the "
         "seven deviations (child-side `?`, negative execve errno, inverted env test, wait holding the "
         "child's stdio pipes = deadlock, try_wait not caching the status, EINTR not retried, EINTR returned at once) and two stray-pipe-end deviations of SpawnFlow.tla are re-exhibited by TLC on every run as an anti-vacuity test. Real code: every fault-free configuration and 3 (thorough 24) "
         "configurations per (fault, predicted outcome) class are executed in four builds - std-linked with `start`, "
         "std-linked without `start`, no-libc executable started by tiny-std's own _start (real Environment::Inherit), "
         "no-libc no-alloc executable using the free function process::spawn::<N> - quick ~6900 runs, thorough ~50000, "
         "with the failure injected by ptrace in the caller or in the forked child and the caller/child interleaving forced to free / caller-first / child-first in a third of the runs each; the caller's use of the returned Child is a TLC-generated sequence of 1..3 calls over wait / try_wait / "
         "try_wait-polled (all 39, with exit code, exit code >= 128 and SIGKILL; a status once reported must be reported again by every later call),  every other run uses Command::args/envs instead of arg/env, data flow through Stdio::MakePipe is checked against SpawnFlow.tla (all 3456 caller plans over write/close/read-to-EOF/wait x stdio tables x payload 0/1/65537 bytes model-checked; sampled plans executed: byte count + order-sensitive checksum per stream, stderr not crossed with stdout, EOF, self-blocking plans admitted to hang), each stdio pipe has exactly one descriptor on each side after spawn, the program's complete descriptor table holds nothing spawn created, Inherit/RawFd share the caller's open file description (offset footprint), Stdio::RawFd naming the caller's own descriptors 0/1/2 in every slot (63 tables: identity, 1>&2, 2>&1, shared, swaps) is judged on what the program observes, failures that do not go away (persistent injection for every step incl. ETXTBSY/EAGAIN/EINTR/ENOMEM on execve) and a real ETXTBSY (program file held open for writing) must end in Err, never in a spawn that does not return, the same Command is spawned twice (optionally with one more arg) and both children are judged, env entries with repeated key / empty value / '=' in value / empty key / no '=' are passed through,  helpers end by exit 0/3/7 or "
         "SIGKILL/SIGTERM; each trace is accepted or rejected by TLC at the property level and "
         "its per-process call sequence / result is compared with the model's prediction.",
    note="Trusted: TLC, SpawnAbs.tla, the tracer's view of the process tree (ptrace stops; per-task order is causal, "
         "cross-task order only through system-call stops), the helper's dump. One injected failure per run; injection "
         "suppresses the call (close is executed and its result overwritten). The std-linked `start` build passes a NULL "
         "envp for Environment::Inherit (tiny-std's ENV is only set by its own _start): both readings admitted there, "
         "the exact one is checked in the no-libc builds. Readings fixed in SpawnAbs.tla: an error of a parent-side "
         "step after the fork (sync-pipe read, wait4) need not carry an errno; a child that has reported its error and "
         "is about to exit is not 'running the caller's code' (reaping is not demanded). Not reached: "
         "running as a non-root caller (uid/gid settings: own ids and nobody/nogroup as root; refusals injected), signals during spawn, "
         "two simultaneous failures, aarch64. Descriptor leaks of do_spawn belong to C12. Known finding (genuine): a RawFd(0/1/2) whose descriptor an earlier slot has already replaced in the child picks up the replacement (sequential dup2).",
)
