"""Claim registered in MANIFEST.json for C10 (regenerate with bin/mkmanifest)."""
CLAIM = dict(
    engine='tlc+harness/ustr',
    level='exploration',
    design_ref='DESIGN.md section 7 C10',
    technique='TLA+ definitional spec (UnixStr.tla) enumerated by TLC as input/expected-output oracle; real results judged by TLC (UnixStrJudge.tla)',
    text="TLC enumerates every byte string up to the bound (alphabet NUL, '/', ASCII, 0xff) and every operand pair, predicts each constructor's exact stored bytes and judges the stored bytes of every produced value against the termination obligation; exhaustive small scope + random long operands + every text length 0..600 (with and without a terminator) + the formatted constructors with the text handed over in pieces cut at every boundary + real directory entries of every name length 1..255; an operation that does not return or faults is a violation. A pure-function property: TLA+ supplies the independent definition and the exhaustive judge, not a state-space argument.",
    note="Trusted: TLC, the definitional operators of UnixStr.tla, the driver's observation through as_slice(). Strings longer than the bound are sampled; unix_lit! is judged via from_str_checked at run time.",
)
