"""Claim registered in MANIFEST.json for C11 (regenerate with bin/mkmanifest)."""
CLAIM = dict(
    engine='tlc+harness/ustr',
    level='exploration',
    design_ref='DESIGN.md section 7 C11',
    technique='TLA+ definitional spec (UnixStr.tla) enumerated by TLC as input/expected-output oracle; guard-page placement for out-of-argument reads; random long operands judged by TLC',
    text="All pairs of strings up to length 3 (quick) / 4 (thorough) over {a,b,'/','.'} are enumerated by TLC together with the set of admissible answers of find, find_buf, match_up_to(_str), ends_with, path_join(_fmt), parent_path, path_file_name; the real operations are run on each with operands ending at a PROT_NONE page (a read outside an argument faults). Random long operands, multi-byte and non-UTF-8 operands (also as paths), byte needles with NUL, every operand length around small-buffer sizes (0..600), and the formatted variants with the text handed over in pieces cut at every boundary are judged by TLC against the same operators; an operation that does not return (CPU-time watchdog) or faults is a violation.",
    note='Trusted: TLC and UnixStr.tla. Where the API text leaves an answer open (trailing separator, no separator) all documented readings are admitted. Longer strings are sampled, not enumerated.',
)
