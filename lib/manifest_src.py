"""Claims registered in MANIFEST.json (regenerate with bin/mkmanifest)."""

SETUP_CMD = "./bin/setup"

HOOKS = {
    "guard": "tiny_std_verif",
    "enable": "rustflags --cfg tiny_std_verif --check-cfg cfg(tiny_std_verif) from the harness' own .cargo/config.toml (harness/dot-cargo/config.toml); never set for the repository's own build",
    "baseline_off_cmd": "cd /repo && cargo nextest run --workspace --no-fail-fast --tool-config-file pb:/w/lib/nextest.toml --profile pb --test-threads 8 --offline || cargo test --workspace --no-fail-fast --offline",
    "source_commits": [],
    "add_only": True,
}

ENGINES = [
    {"name": "tlc", "path": "/verif/specs", "serves_properties": [],
     "kind_free_text": "explicit TLA+ specifications checked / enumerated / used as trace judge by TLC 1.8 (lib/vlib/core.py run_tlc)"},
    {"name": "harness", "path": "/verif/harness", "serves_properties": [],
     "kind_free_text": "std-linked Rust drivers with path dependencies on /repo (instantiated under /verif/work/harness-<tag>), built with --cfg tiny_std_verif"},
]

NOTES = ("Every check is ./bin/check <id> <tier>; it rebuilds the drivers from /repo's working tree (or $VERIF_REPO), "
         "lets TLC generate/judge, writes evidence/<id>.json and replays/<id>-*.json. known_findings.json lists fixed and known defects.")

NOT_APPLICABLE = {}

import glob, importlib.util, os
CLAIMS = {}
for _f in sorted(glob.glob(os.path.join(os.path.dirname(os.path.abspath(__file__)), "claims", "c*.py"))):
    _spec = importlib.util.spec_from_file_location("claim_" + os.path.basename(_f)[:-3], _f)
    _m = importlib.util.module_from_spec(_spec)
    _spec.loader.exec_module(_m)
    CLAIMS[os.path.basename(_f)[:-3].upper()] = _m.CLAIM
