"""Claims registered in MANIFEST.json (regenerate with bin/mkmanifest)."""

SETUP_CMD = "./bin/setup"

HOOKS = {
    "guard": "tiny_std_verif",
    "enable": "rustflags --cfg tiny_std_verif --check-cfg cfg(tiny_std_verif) from the harness' own .cargo/config.toml (harness/dot-cargo/config.toml); never set for the repository's own build",
    "baseline_off_cmd": "cd /repo && cargo nextest run --workspace --no-fail-fast --tool-config-file pb:/w/lib/nextest.toml --profile pb --test-threads 8 --offline || cargo test --workspace --no-fail-fast --offline",
    "source_commits": [],
    "add_only": True,
}

ENGINES = [
    {"name": "tlc", "path": "/verif/specs", "serves_properties": [],
     "kind_free_text": "explicit TLA+ specifications checked / enumerated / used as trace judge by TLC 1.8 (lib/vlib/core.py run_tlc)"},
    {"name": "harness", "path": "/verif/harness", "serves_properties": [],
     "kind_free_text": "std-linked Rust drivers with path dependencies on /repo (instantiated under /verif/work/harness-<tag>), built with --cfg tiny_std_verif"},
]

NOTES = ("Every check is ./bin/check <id> <tier>; it rebuilds the drivers from /repo's working tree (or $VERIF_REPO), "
         "lets TLC generate/judge, writes evidence/<id>.json and replays/<id>-*.json. known_findings.json lists fixed and known defects.")

NOT_APPLICABLE = {}

CLAIMS = {}

CLAIMS["C10"] = dict(
    engine="tlc+harness/ustr", level="exploration", design_ref="DESIGN.md section 7 C10",
    technique="TLA+ definitional spec (UnixStr.tla) enumerated by TLC as input/expected-output oracle; real results judged by TLC (UnixStrJudge.tla)",
    text=("TLC enumerates every byte string up to the bound (alphabet NUL, '/', ASCII, 0xff) and every operand pair, "
          "predicts each constructor's exact stored bytes and judges the stored bytes of every produced value against the "
          "termination obligation; exhaustive small scope + random long operands + real directory entries. A pure-function "
          "property: TLA+ supplies the independent definition and the exhaustive judge, not a state-space argument."),
    note="Trusted: TLC, the definitional operators of UnixStr.tla, the driver's observation through as_slice(). Strings longer than the bound are sampled; unix_lit! is judged via from_str_checked at run time.")

CLAIMS["C11"] = dict(
    engine="tlc+harness/ustr", level="exploration", design_ref="DESIGN.md section 7 C11",
    technique="TLA+ definitional spec (UnixStr.tla) enumerated by TLC as input/expected-output oracle; guard-page placement for out-of-argument reads; random long operands judged by TLC",
    text=("All pairs of strings up to length 3 (quick) / 4 (thorough) over {a,b,'/','.'} are enumerated by TLC together with the set of "
          "admissible answers of find, find_buf, match_up_to(_str), ends_with, path_join(_fmt), parent_path, path_file_name; the real "
          "operations are run on each with operands ending at a PROT_NONE page (a read outside an argument faults). Random long operands "
          "are judged by TLC against the same operators."),
    note="Trusted: TLC and UnixStr.tla. Where the API text leaves an answer open (trailing separator, no separator) all documented readings are admitted. Longer strings are sampled, not enumerated.")
