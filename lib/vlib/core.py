"""Common plumbing for the tiny-std verification checks.

Everything here is tool plumbing: running TLC, building the harness from /repo's working tree,
writing evidence, matching violations against known_findings.json, printing verdict lines.
Exit codes: 0 = property held on everything explored (possibly with KNOWN-FINDING lines),
1 = VIOLATION (a recorded execution/output of the real code rejected by the specification),
2 = tool error (cargo, TLC, tracer, timeout of the machinery itself).
"""
import fcntl
import hashlib
import json
import os
import re
import shutil
import subprocess
import sys
import time

VERIF = os.path.dirname(os.path.dirname(os.path.dirname(os.path.abspath(__file__))))
REPO = os.path.abspath(os.environ.get("VERIF_REPO", "/repo"))
SPECS = os.path.join(VERIF, "specs")
WORK = os.path.join(VERIF, "work")
TLA_CP = "/opt/veriftools/tla/tla2tools.jar:/opt/veriftools/tla/CommunityModules-deps.jar"
GUARD = "tiny_std_verif"


class ToolError(Exception):
    pass


def log(*a):
    print("[verif]", *a, file=sys.stderr, flush=True)


def repo_tag():
    return "main" if REPO == "/repo" else "x" + hashlib.sha1(REPO.encode()).hexdigest()[:8]


# --------------------------------------------------------------------------------------------
# TLC
# --------------------------------------------------------------------------------------------
class TlcResult:
    def __init__(self, out, rc, wall):
        self.out = out
        self.rc = rc
        self.wall = wall
        self.generated = 0
        self.distinct = 0
        self.depth = 0
        m = None
        for m in re.finditer(r"(\d+) states generated, (\d+) distinct states found", out):
            pass
        if m:
            self.generated = int(m.group(1))
            self.distinct = int(m.group(2))
        m = re.search(r"depth of the complete state graph search is (\d+)", out)
        if m:
            self.depth = int(m.group(1))
        self.errors = [l for l in out.splitlines() if l.startswith("Error:")]
        self.invariant_violated = re.findall(r"Invariant (\S+) is violated", out)
        self.ok = (rc == 0 and not self.errors)

    def printed(self, tag):
        """Lines printed by PrintT(<<"tag", json-string>>) -> list of parsed JSON values."""
        res = []
        pre = '<<"%s", "' % tag
        for l in self.out.splitlines():
            if l.startswith(pre) and l.endswith('">>'):
                s = l[len(pre):-3]
                # TLC prints the string value with TLA+ escaping of \ and "
                s = s.replace('\\"', '"').replace("\\\\", "\\")
                res.append(json.loads(s))
        return res


def run_tlc(module, cfg=None, *, cwd=SPECS, workers=4, env=None, timeout=600, xmx="4g",
            simulate=None, depth=None, dump=None, deque=False, seed=None, extra=None,
            metadir=None, coverage=False, xss=None):
    """Run TLC on `module`(.tla in cwd) with config `cfg`. Returns TlcResult."""
    os.makedirs(WORK, exist_ok=True)
    md = metadir or os.path.join(WORK, "tlc-meta", "%s-%d-%d-%s" % (
        os.path.basename(module), os.getpid(), int(time.time() * 1000) % 10**9, os.urandom(4).hex()))
    os.makedirs(md, exist_ok=True)
    jvm = ["java", "-XX:+UseParallelGC", "-Xmx" + xmx, "-DTLA-Library=" + SPECS]
    if xss:
        jvm.append("-Xss" + xss)
    if deque:
        jvm.append("-Dtlc2.tool.queue.IStateQueue=StateDeque")
    cmd = jvm + ["-cp", TLA_CP, "tlc2.TLC", "-workers", str(workers), "-metadir", md,
                 "-cleanup", "-noGenerateSpecTE"]
    if cfg:
        cmd += ["-config", cfg]
    if simulate is not None:
        cmd += ["-simulate", "num=%d" % simulate]
    if depth is not None:
        cmd += ["-depth", str(depth)]
    if dump:
        cmd += ["-dump", "dot,actionlabels", dump]
    if seed is not None:
        cmd += ["-seed", str(seed)]
    if coverage:
        cmd += ["-coverage", "1"]
    if extra:
        cmd += extra
    cmd.append(module)
    e = dict(os.environ)
    e.pop("JAVA_TOOL_OPTIONS", None)
    if env:
        e.update({k: str(v) for k, v in env.items()})
    t0 = time.time()
    try:
        p = subprocess.run(cmd, cwd=cwd, env=e, stdout=subprocess.PIPE, stderr=subprocess.STDOUT,
                           timeout=timeout, text=True, errors="replace")
    except subprocess.TimeoutExpired:
        shutil.rmtree(md, ignore_errors=True)
        raise ToolError("TLC timed out after %ds: %s %s" % (timeout, module, cfg))
    shutil.rmtree(md, ignore_errors=True)
    return TlcResult(p.stdout, p.returncode, time.time() - t0)


def tlc_must_pass(res, what):
    if not res.ok:
        tail = "\n".join(res.out.splitlines()[-40:])
        raise ToolError("TLC did not pass on %s (rc=%d):\n%s" % (what, res.rc, tail))
    return res


# --------------------------------------------------------------------------------------------
# harness build (std-linked drivers, hooks on)
# --------------------------------------------------------------------------------------------
def _instantiate(template_dir, inst_dir):
    os.makedirs(inst_dir, exist_ok=True)
    for name in os.listdir(template_dir):
        src = os.path.join(template_dir, name)
        dst = os.path.join(inst_dir, name)
        if name.endswith(".in"):
            txt = open(src).read().replace("@REPO@", REPO).replace("@VERIF@", VERIF)
            dst = dst[:-3]
            if not os.path.exists(dst) or open(dst).read() != txt:
                with open(dst, "w") as f:
                    f.write(txt)
        elif name == "Cargo.lock":
            if not os.path.exists(dst):
                shutil.copy(src, dst)
        elif name == "dot-cargo":
            d2 = os.path.join(inst_dir, ".cargo")
            os.makedirs(d2, exist_ok=True)
            for n2 in os.listdir(src):
                shutil.copy(os.path.join(src, n2), os.path.join(d2, n2))
        else:
            if os.path.islink(dst):
                if os.readlink(dst) == src:
                    continue
                os.unlink(dst)
            elif os.path.exists(dst):
                continue
            os.symlink(src, dst)


def cargo_build(template="harness", bins=None, release=False, features=None, env=None,
                extra=None, timeout=1800):
    """Build (from REPO's current working tree) the cargo project under VERIF/<template>.
    Returns the directory that holds the binaries."""
    tdir = os.path.join(VERIF, template)
    inst = os.path.join(WORK, "%s-%s" % (template.replace("/", "_"), repo_tag()))
    os.makedirs(WORK, exist_ok=True)
    lock = open(os.path.join(WORK, ".cargo-%s.lock" % repo_tag()), "w")
    fcntl.flock(lock, fcntl.LOCK_EX)
    try:
        _instantiate(tdir, inst)
        cmd = ["cargo", "build", "--offline"]
        if release:
            cmd.append("--release")
        for b in bins or []:
            cmd += ["--bin", b]
        if features:
            cmd += ["--features", ",".join(features)]
        if extra:
            cmd += extra
        e = dict(os.environ)
        e["CARGO_NET_OFFLINE"] = "true"
        e.pop("RUSTFLAGS", None)
        if env:
            e.update(env)
        t0 = time.time()
        p = subprocess.run(cmd, cwd=inst, env=e, stdout=subprocess.PIPE, stderr=subprocess.STDOUT,
                           text=True, timeout=timeout)
        if p.returncode != 0:
            raise ToolError("cargo build failed in %s:\n%s" % (inst, "\n".join(p.stdout.splitlines()[-60:])))
        log("cargo build %s (%s) %.1fs" % (template, "release" if release else "debug", time.time() - t0))
    finally:
        fcntl.flock(lock, fcntl.LOCK_UN)
        lock.close()
    tgt = os.path.join(inst, "target")
    # cross-target builds (probes) put output under target/<triple>/
    for cand in (os.path.join(tgt, "x86_64-unknown-linux-gnu"), tgt):
        d = os.path.join(cand, "release" if release else "debug")
        if os.path.isdir(d):
            return d
    raise ToolError("no cargo output directory under " + tgt)


def run_cmd(cmd, *, stdin=None, timeout=600, env=None, cwd=None, check=True):
    e = dict(os.environ)
    if env:
        e.update({k: str(v) for k, v in env.items()})
    try:
        p = subprocess.run(cmd, input=stdin, stdout=subprocess.PIPE, stderr=subprocess.PIPE, text=True,
                           errors="replace", timeout=timeout, env=e, cwd=cwd)
    except subprocess.TimeoutExpired:
        raise ToolError("timeout after %ds: %s" % (timeout, " ".join(map(str, cmd))))
    if check and p.returncode != 0:
        raise ToolError("command failed rc=%d: %s\n%s" % (p.returncode, " ".join(map(str, cmd)), p.stderr[-3000:]))
    return p


# --------------------------------------------------------------------------------------------
# verdicts, findings, evidence
# --------------------------------------------------------------------------------------------
class Violation:
    def __init__(self, signature, what, replay):
        self.signature = signature  # dict: the identity used for known-findings matching
        self.what = what            # one human-readable line
        self.replay = replay        # JSON-serialisable: everything needed to reproduce


def load_findings():
    """known_findings.d/<ID>.json are the source (one file per property, edited by hand, never at
    run time); known_findings.json is their concatenation (bin/mkfindings) for readers and is
    only consulted when the directory is absent."""
    res = []
    d = os.path.join(VERIF, "known_findings.d")
    if os.path.isdir(d):
        for n in sorted(os.listdir(d)):
            if n.endswith(".json"):
                res += json.load(open(os.path.join(d, n)))
        return res
    p = os.path.join(VERIF, "known_findings.json")
    if os.path.exists(p):
        res += json.load(open(p))
    return res


def out_dir(kind):
    """evidence/ and replays/ belong to runs against /repo; runs against a scratch tree
    ($VERIF_REPO, used for mutant testing) write under work/ so they never masquerade as evidence."""
    if REPO == "/repo":
        d = os.path.join(VERIF, kind)
    else:
        d = os.path.join(WORK, "%s-%s" % (kind, repo_tag()))
    os.makedirs(d, exist_ok=True)
    return d


def match_finding(findings, pid, sig):
    for f in findings:
        if f.get("status") != "known" or f.get("property") != pid:
            continue
        fs = f.get("signature", {})
        if all(sig.get(k) == v for k, v in fs.items()):
            return f
    return None


class Check:
    """One run of one property check. Collects coverage numbers, violations, writes evidence."""

    def __init__(self, pid, tier, level):
        self.pid = pid
        self.tier = tier
        self.level = level
        self.seed = int(os.environ.get("VERIF_SEED", "1"))
        self.t0 = time.time()
        self.states = 0
        self.transitions = 0
        self.traces = 0
        self.evaluations = 0
        self.nontrivial = 0
        self.rule = ""
        self.samples = []
        self.assumptions = []
        self.extra = {}
        self.exhaustive = None
        self.violations = []
        self.work = os.path.join(WORK, pid if REPO == "/repo" else "%s-%s" % (pid, repo_tag()))
        os.makedirs(self.work, exist_ok=True)

    # -- accounting
    def add_tlc(self, res):
        self.states += res.distinct
        self.transitions += res.generated
        return res

    def sample(self, s, cap=6):
        if len(self.samples) < cap:
            self.samples.append(s)

    def violate(self, signature, what, replay):
        self.violations.append(Violation(signature, what, replay))

    # -- finish
    def finish(self):
        findings = load_findings()
        known_hit = {}
        new = []
        for v in self.violations:
            f = match_finding(findings, self.pid, v.signature)
            if f is not None:
                key = json.dumps(f.get("signature"), sort_keys=True)
                known_hit.setdefault(key, (f, []))[1].append(v)
            else:
                new.append(v)
        rdir = out_dir("replays")
        lines = []
        for key, (f, vs) in known_hit.items():
            lines.append("KNOWN-FINDING: property=%s %s (%d occurrence(s) this run, e.g. %s)" % (
                self.pid, f.get("what", ""), len(vs), vs[0].what))
        # group new violations by signature so one defect gives one line
        seen = {}
        for v in new:
            k = json.dumps(v.signature, sort_keys=True)
            seen.setdefault(k, []).append(v)
        n = 0
        for k, vs in seen.items():
            n += 1
            path = os.path.join(rdir, "%s-%s-%d.json" % (self.pid, self.tier, n))
            with open(path, "w") as fh:
                json.dump({"property": self.pid, "signature": vs[0].signature, "what": vs[0].what,
                           "occurrences": len(vs), "replay": vs[0].replay,
                           "more": [x.what for x in vs[1:6]]}, fh, indent=1)
            lines.append("VIOLATION property=%s replay=%s" % (self.pid, path))
            log("violation:", vs[0].what, "signature:", k)
        self.write_evidence(len(new), [f.get("what") for f, _ in known_hit.values()])
        for l in lines:
            print(l, flush=True)
        ok = not new
        print("%s %s %s: %s (%.1fs; states=%d traces=%d evals=%d)" % (
            self.pid, self.tier, "OK" if ok else "FAILED", "no unlisted violation" if ok else "%d unlisted violation signature(s)" % len(seen),
            time.time() - self.t0, self.states, self.traces, self.evaluations), flush=True)
        return 0 if ok else 1

    def write_evidence(self, nviol, known):
        cov = dict(self.extra)
        cov["evaluations"] = self.evaluations
        cov["distinct_nontrivial"] = self.nontrivial
        cov["rule"] = self.rule
        cov["samples"] = self.samples if self.samples else ["<none recorded>"]
        if self.level == "model_checking":
            cov["states"] = self.states
            cov["transitions"] = self.transitions
            cov["traces_validated_against_impl"] = self.traces
        if self.exhaustive is not None:
            cov["exhaustive"] = self.exhaustive
        if known:
            cov["known_findings_reproduced"] = known
        ev = {"property_id": self.pid, "tier": self.tier, "seed": self.seed, "level": self.level,
              "coverage": cov, "assumptions": self.assumptions,
              "wall_s": round(time.time() - self.t0, 2), "violations": nviol}
        with open(os.path.join(out_dir("evidence"), self.pid + ".json"), "w") as fh:
            json.dump(ev, fh, indent=1, default=str)


def write_ndjson(path, events):
    with open(path, "w") as f:
        for e in events:
            f.write(json.dumps(e, separators=(",", ":")) + "\n")
