//! Minimal twin of harness/src/lib.rs for the `start`-less build of the C13 driver.
pub use serde_json::{json, Value};
