CONSTANTS
  WORD = 8
  THRESHOLD = 16
  L = 208
  MaxN = 40
  Fns = {"memcpy", "memmove", "memset"}
  Fills = {0}
  WRAP = 1000000
INIT InitT
NEXT NextT
INVARIANT Report
CHECK_DEADLOCK FALSE
