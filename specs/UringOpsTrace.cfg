CONSTANTS
  N = 1
  Fault = ""
INIT TInit
NEXT TNext
CHECK_DEADLOCK FALSE
