CONSTANTS
  N = 4
  Progs <- F_WWRR
  Ord <- OrdCode
  MaxSpur = 1000
  MaxEintr = 1000
  MaxWeak = 1000
INIT TraceInit
NEXT TraceNext
CHECK_DEADLOCK FALSE
