CONSTANTS
  N = 4
  Progs <- F_WWRR
  Ord <- OrdCode
  MaxSpur = 0
  MaxEintr = 0
  MaxWeak = 0
SPECIFICATION Spec
INVARIANTS TypeOK WriterExclusive RaceFree TryNeverBlocks NoLostWakeup AssertsHold WordAgrees Progress
PROPERTY Termination
CHECK_DEADLOCK FALSE
