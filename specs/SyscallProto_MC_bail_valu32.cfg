CONSTANTS
  RawDom <- Dom
  Idiom = "bail_valu32"
  MaxIssues = 3
SPECIFICATION Spec
INVARIANTS TypeOK ReturnConforms LimitConforms
CHECK_DEADLOCK FALSE
