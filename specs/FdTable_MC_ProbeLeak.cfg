CONSTANTS Fds = {0, 1, 2}
SPECIFICATION Spec
INVARIANTS ProbeLeak
CHECK_DEADLOCK FALSE
