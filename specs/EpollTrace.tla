----------------------------- MODULE EpollTrace -----------------------------
(* X01 binding B2: replays what harness/src/bin/epollops.rs recorded on real pipes and        *)
(* socketpairs through the actions of Epoll.tla.  Every recorded operation is one step; the   *)
(* step computes the set of property clauses the recorded RESULT breaks (Reasons) and then     *)
(* follows the implementation (the state is updated with what was actually reported), so that *)
(* one bad result does not hide the rest of the sequence.                                     *)
(* Events (ndjson, IOEnv.TRACE): {"ev":"reset","seq":n,"kinds":[..]} then the driver's lines  *)
(* {"seq","i","op",..,"ok":bool,"hang":bool,"errno":n, "events":[{data,ev}], "us":..}       *)
EXTENDS Epoll, TLC, Json, IOUtils, SequencesExt
Rec == ndJsonDeserialize(IOEnv.TRACE)

VARIABLES i, bad
tvars == <<obj, interest, i, bad>>

TInit == /\ i = 1 /\ bad = <<>>
         /\ obj = [o \in Objs |-> NewObj("none")]
         /\ interest = [o \in Objs |-> None]

\* (lib/checks/x01.py normalises the driver's "res" into ok: BOOLEAN, hang: BOOLEAN, errno: Int,
\*  errno = -1 for an error without os code)
IsOk(e) == e.ok
ErrCode(e) == e.errno
Flag(e, R) == bad' = IF R = {} THEN bad ELSE Append(bad, [seq |-> e.seq, i |-> e.i, op |-> e.op, reasons |-> SetToSeq(R)])

\* --- epoll_ctl family: the result is determined by the interest list
CtlReasons(e, expectOk, errno) ==
    IF expectOk THEN (IF IsOk(e) THEN {} ELSE {"CtlFailed"})
    ELSE (IF IsOk(e) THEN {"CtlShouldFail"} ELSE IF ErrCode(e) = errno THEN {} ELSE {"CtlWrongErrno"})

NewEntry(e) == [data |-> e.data, mask |-> ToSet(e.mask), edge |-> "must", disabled |-> FALSE]

\* --- wait: result as a sequence of [data, ev]
Res(e) == [k \in 1..Len(e.events) |-> [data |-> e.events[k].data, ev |-> ToSet(e.events[k].ev)]]
ReportedObjs(e) == UNION {ObjOfData(e.events[k].data) : k \in 1..Len(e.events)}
MustNow == {o \in Objs : MustReport(o)}

WaitStep(e, intr) ==
    IF IsOk(e)
    THEN /\ Flag(e, WaitReasons(e.max, e.timeout, Res(e), e.us)
                    \cup (IF e.n # Len(e.events) THEN {"CountMismatch"} ELSE {}))
         /\ interest' = AfterReport(ReportedObjs(e))
    ELSE /\ Flag(e, IF e.hang THEN {"NeverReturned"}
                    ELSE IF intr /\ ErrCode(e) = 4 /\ MustNow = {} THEN {}
                    ELSE {"WaitFailed"})
         /\ UNCHANGED interest

\* --- ppoll over the same objects: level-triggered view of the requested events
PollReasons(e) ==
    LET ents == e.entries
        idx == 1..Len(ents)
        isObj(k) == "o" \in DOMAIN ents[k]
        m(k) == ToSet(ents[k].ev)
        rev(k) == ToSet(e.revents[k])
        req(k) == IF isObj(k) THEN ReqEv(obj[ents[k].o], obj[ents[k].o].kind, m(k)) ELSE {"NVAL"}
        alw(k) == IF isObj(k) THEN AllowedEv(obj[ents[k].o], obj[ents[k].o].kind, m(k)) ELSE {"NVAL"}
        ready == {k \in idx : rev(k) # {}}
    IN  (IF Len(e.revents) # Len(ents) THEN {"PollShape"} ELSE {})
        \cup (IF \E k \in idx : ~(rev(k) \subseteq alw(k)) THEN {"EventsNotAllowed"} ELSE {})
        \cup (IF \E k \in idx : ~(req(k) \subseteq rev(k)) THEN {"EventsMissing"} ELSE {})
        \cup (IF e.n # Cardinality(ready) THEN {"CountMismatch"} ELSE {})
        \cup (IF e.n = 0 /\ e.timeout > 0 /\ e.us < e.timeout * 1000 THEN {"EarlyTimeout"} ELSE {})
PollStep(e, intr) ==
    /\ IF IsOk(e) THEN Flag(e, PollReasons(e))
       ELSE Flag(e, IF e.hang THEN {"NeverReturned"}
                    ELSE IF intr /\ ErrCode(e) = 4
                            /\ \A k \in 1..Len(e.entries) :
                                  "o" \in DOMAIN e.entries[k]
                                  /\ ReqEv(obj[e.entries[k].o], obj[e.entries[k].o].kind, ToSet(e.entries[k].ev)) = {}
                         THEN {} ELSE {"PollFailed"})
    /\ UNCHANGED <<obj, interest>>

Step(e) ==
    CASE "ev" \in DOMAIN e ->     \* reset: new sequence, new objects
            /\ obj' = [o \in Objs |-> IF o <= Len(e.kinds) THEN NewObj(e.kinds[o]) ELSE NewObj("none")]
            /\ interest' = [o \in Objs |-> None]
            /\ UNCHANGED bad
      [] e.op \in {"register", "modify", "unregister"} /\ obj[e.o].closed ->
            /\ Flag(e, CtlReasons(e, FALSE, 9))
            /\ UNCHANGED <<obj, interest>>
      [] e.op = "close_watched" ->
            /\ obj' = [obj EXCEPT ![e.o].closed = TRUE]
            /\ interest' = [interest EXCEPT ![e.o] = None]
            /\ UNCHANGED bad
      [] e.op = "register" ->
            /\ Flag(e, CtlReasons(e, ~Registered(e.o), 17))
            /\ interest' = IF ~Registered(e.o) /\ IsOk(e) THEN [interest EXCEPT ![e.o] = NewEntry(e)] ELSE interest
            /\ UNCHANGED obj
      [] e.op = "modify" ->
            /\ Flag(e, CtlReasons(e, Registered(e.o), 2))
            /\ interest' = IF Registered(e.o) /\ IsOk(e) THEN [interest EXCEPT ![e.o] = NewEntry(e)] ELSE interest
            /\ UNCHANGED obj
      [] e.op = "unregister" ->
            /\ Flag(e, CtlReasons(e, Registered(e.o), 2))
            /\ interest' = IF Registered(e.o) /\ IsOk(e) THEN [interest EXCEPT ![e.o] = None] ELSE interest
            /\ UNCHANGED obj
      [] e.op = "register_bad" ->
            /\ Flag(e, CtlReasons(e, FALSE, IF e.what = "closed_fd" THEN 9 ELSE 1))
            /\ UNCHANGED <<obj, interest>>
      [] e.op = "peer_write" ->
            /\ obj' = [obj EXCEPT ![e.o].rx = @ + 1]
            /\ Touch(e.o, IF Registered(e.o) /\ "IN" \in interest[e.o].mask THEN "must" ELSE "may")
            /\ Flag(e, IF e.ok THEN {} ELSE {"DriverDrift"})
      [] e.op = "read_one" ->
            /\ obj' = [obj EXCEPT ![e.o].rx = IF @ > 0 THEN @ - 1 ELSE 0]
            /\ UNCHANGED interest
            /\ Flag(e, IF e.n = 1 THEN {} ELSE {"DriverDrift"})
      [] e.op = "read_all" ->
            /\ obj' = [obj EXCEPT ![e.o].rx = 0]
            /\ UNCHANGED interest
            /\ Flag(e, IF e.n = obj[e.o].rx THEN {} ELSE {"DriverDrift"})
      [] e.op = "fill" ->
            /\ obj' = [obj EXCEPT ![e.o].full = TRUE]
            /\ UNCHANGED <<interest, bad>>
      [] e.op = "peer_drain" ->
            /\ obj' = [obj EXCEPT ![e.o].full = FALSE]
            /\ Touch(e.o, IF Registered(e.o) /\ "OUT" \in interest[e.o].mask THEN "must" ELSE "may")
            /\ UNCHANGED bad
      [] e.op = "close_peer" ->
            /\ obj' = [obj EXCEPT ![e.o].peer = "closed"]
            /\ Touch(e.o, "must")
            /\ UNCHANGED bad
      [] e.op = "wait" -> WaitStep(e, FALSE) /\ UNCHANGED obj
      [] e.op = "wait_intr" -> WaitStep(e, TRUE) /\ UNCHANGED obj
      [] e.op = "wait_huge" ->
            \* a timeout the API cannot represent: it must be refused, not truncated
            /\ Flag(e, IF e.hang THEN {"NeverReturned"} ELSE IF IsOk(e) THEN {"HugeTimeoutAccepted"} ELSE {})
            /\ UNCHANGED <<obj, interest>>
      [] e.op = "poll_reuse" ->
            \* two ppoll calls with ONE TimeSpec passed by shared reference: each call must honour the
            \* timeout the caller wrote into it, and the caller's value must not change
            /\ Flag(e, (IF \E k \in 1..Len(e.calls) : ~e.calls[k].ok THEN {"PollFailed"} ELSE {})
                       \cup (IF e.calls[1].ok /\ e.calls[1].n = 0 /\ e.calls[1].us < e.timeout * 1000 THEN {"EarlyTimeout"} ELSE {})
                       \cup (IF e.calls[2].ok /\ e.calls[2].n = 0 /\ e.calls[2].us < e.timeout * 1000 THEN {"EarlyTimeoutOnReuse"} ELSE {})
                       \cup (IF e.ts_after_us # e.timeout * 1000 THEN {"TimeoutArgumentModified"} ELSE {}))
            /\ UNCHANGED <<obj, interest>>
      [] e.op = "poll" -> PollStep(e, FALSE)
      [] e.op = "poll_intr" -> PollStep(e, TRUE)

TNext == /\ i <= Len(Rec)
         /\ Step(Rec[i])
         /\ i' = i + 1
Done == i = Len(Rec) + 1 => PrintT(<<"DONE", ToJson([events |-> Len(Rec), bad |-> bad])>>)
TraceObjs == 1..3
TraceKind == [o \in 1..3 |-> "none"]
TraceData(o, g) == 0
=============================================================================
