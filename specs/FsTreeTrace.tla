----------------------------- MODULE FsTreeTrace -----------------------------
(* B2 for C14: validates recorded runs of the real tiny_std::fs operations against FsTree.  *)
(* Trace (ndjson): {"ev":"reset","id":k,"tree":[entry..]} starts a run on a fresh root whose *)
(* content the independent observer (std::fs) dumped as `tree`; every                        *)
(* {"ev":"op","o":{op,p,q,c},"res":{class,v},"tree":[entry..]} is one call of the real       *)
(* operation and the observer's dump after it.  The model state is the tree; a step is       *)
(* accepted iff Accept(tree, o, res, dump) (FsTree part 3); the model state then becomes the *)
(* dump (it must EQUAL it on acceptance whenever the reference outcome is unique).  Rejected  *)
(* steps are collected (the run goes on from the observed tree) and printed at the end.      *)
EXTENDS FsTree, Json, IOUtils, SequencesExt
Rec == ndJsonDeserialize(IOEnv.TRACE)

NodeOf(e) == CASE e.k = "d" -> Dir
               [] e.k = "f" -> File([n |-> e.c.n, b |-> e.c.b, h |-> e.c.h])
               [] e.k = "l" -> Link(e.t)
               [] e.k = "p" -> Fifo
               [] OTHER     -> [k |-> e.k]
TreeOf(l) == [p \in {l[j].p : j \in 1..Len(l)} |-> NodeOf(l[CHOOSE j \in 1..Len(l) : l[j].p = p])]

VARIABLES i, tree, bad, unjudged
vars == <<i, tree, bad, unjudged>>
Init == i = 1 /\ tree = EmptyTree /\ bad = <<>> /\ unjudged = 0
Next ==
    /\ i <= Len(Rec)
    /\ LET e == Rec[i]
           t2 == TreeOf(e.tree) IN
       /\ tree' = t2
       /\ IF e.ev = "reset"
          THEN /\ bad' = IF WellFormed(t2) THEN bad ELSE Append(bad, [i |-> i, ref |-> "malformed"])
               /\ UNCHANGED unjudged
          ELSE /\ bad' = IF Accept(tree, e.o, e.res, t2) THEN bad
                         ELSE Append(bad, [i |-> i, ref |-> Ref(tree, e.o).e])
               /\ unjudged' = unjudged + (IF OpUnjudged(tree, e.o) THEN 1 ELSE 0)
    /\ i' = i + 1
Done == i = Len(Rec) + 1 =>
          PrintT(<<"JUDGED", ToJson([n |-> Len(Rec), bad |-> bad, unjudged |-> unjudged])>>)
=============================================================================
