INIT Init
NEXT Next
INVARIANT Finished
CHECK_DEADLOCK FALSE
