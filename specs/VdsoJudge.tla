------------------------------ MODULE VdsoJudge ------------------------------
(* C07, clause vdso: the REAL vDSO image of a running probe (dumped through /proc/<pid>/mem at *)
(* AT_SYSINFO_EHDR; section headers, .dynstr bytes and .dynsym entries extracted by            *)
(* lib/checks/elfparse.py, independently of the code under test) and the function pointer      *)
(* tiny-std actually stored for clock_gettime (the static VDSO_CLOCK_GET_TIME of the probe,    *)
(* read from its memory; -1 = none) are judged with Vdso.tla:                                  *)
(*   ok       the stored pointer is admissible: none, or vDSO base + the value of a defined    *)
(*            dynamic symbol named __vdso_clock_gettime  (property level)                      *)
(*   conform  the transcribed walk, run on the real image, resolves to the same pointer        *)
(*   aligned  every defined symbol of this image is a multiple of its section's alignment,     *)
(*            i.e. the rounding in vdso.rs cannot change an address on this kernel's vDSO      *)
EXTENDS Vdso, TLC, Json, IOUtils, SequencesExt
Rec == ndJsonDeserialize(IOEnv.TRACE)
Verdict(i) == LET r == Rec[i]
                  img == [sections |-> r.sections, shstrndx |-> r.shstrndx, dynstr |-> r.dynstr, dynsym |-> r.dynsym]
              IN [i |-> i,
                  ok |-> r.resolved \in Admissible(img, r.target),
                  conform |-> Resolve(img, r.target) = r.resolved,
                  aligned |-> SymbolsAligned(img),
                  def |-> SetToSeq(DefAddrs(img, r.target)),
                  walk |-> Resolve(img, r.target)]
ASSUME PrintT(<<"JUDGED", ToJson([n |-> Len(Rec), v |-> [i \in 1..Len(Rec) |-> Verdict(i)]])>>)
VARIABLE x
Init == x = 0
Next == UNCHANGED x
=============================================================================
