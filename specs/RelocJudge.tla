----------------------------- MODULE RelocJudge -----------------------------
(* C07, clause reloc_image: the REAL relocation tables of a static-PIE probe binary (read from *)
(* the ELF file by lib/checks/elfparse.py, independently of the code under test) and the REAL  *)
(* memory words of the running, stopped probe (/proc/<pid>/mem) are judged with the            *)
(* definitional Relocated of RelocDef.tla.                                                     *)
(* A record lists the words looked at (every word that is the target of a REL/RELA entry and   *)
(* every other word of the sections nothing writes after start-up: .data.rel.ro, .got) with    *)
(* their link-time content `before` and their run-time content `after`; entries refer to words *)
(* by index.  Run-time values v inside the image are encoded as BASEK + (v - load base), so    *)
(* that "base + addend" is an exact integer comparison; other values stay as they are.         *)
(* Only words the ELF says must be relocated are demanded to change, all listed others to stay.*)
EXTENDS RelocDef, TLC, Json, IOUtils, SequencesExt
Rec == ndJsonDeserialize(IOEnv.TRACE)
BASEK == 1073741824
Rela(r) == [k \in 1..Len(r.rela) |-> [off |-> r.rela[k][1], info |-> r.rela[k][2], addend |-> r.rela[k][3]]]
Rel(r) == [k \in 1..Len(r.rel) |-> [off |-> r.rel[k][1], info |-> r.rel[k][2]]]
Expected(r) == Relocated(r.before, BASEK, Rel(r), Rela(r))
BadWords(r) == LET e == Expected(r) IN {k \in 1..Len(r.before) : r.after[k] # e[k]}
WellFormed(r) == /\ Len(r.after) = Len(r.before)
                 /\ TargetsDistinct(Rel(r), Rela(r))
                 /\ \A k \in 1..Len(r.rela) : r.rela[k][1] \in 1..Len(r.before)
                 /\ \A k \in 1..Len(r.rel) : r.rel[k][1] \in 1..Len(r.before)
Verdict(i) == LET r == Rec[i]
                  wf == WellFormed(r)
              IN [i |-> i, wf |-> wf, bad |-> IF wf THEN SetToSeq(BadWords(r)) ELSE <<>>,
                  targets |-> Cardinality(RelaTargets(Rela(r))) + Cardinality(RelTargets(Rel(r)))]
ASSUME PrintT(<<"JUDGED", ToJson([n |-> Len(Rec), v |-> [i \in 1..Len(Rec) |-> Verdict(i)]])>>)
VARIABLE x
Init == x = 0
Next == UNCHANGED x
=============================================================================
