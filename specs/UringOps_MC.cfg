CONSTANTS
  N = 4
  Fault = ""
INIT PInit
NEXT PNext
INVARIANTS JudgeAcceptsProtocol
CHECK_DEADLOCK FALSE
