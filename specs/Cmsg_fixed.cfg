CONSTANTS
  MaxFds = 6
  MaxC = 64
  Variant = "fixed"
  Deltas = "none"
INIT Init
NEXT Next
INVARIANTS DeliveredExactly NoOutOfBuffer NeverPanics IterDeliversExactly
CHECK_DEADLOCK FALSE
