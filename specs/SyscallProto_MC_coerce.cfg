CONSTANTS
  RawDom <- Dom
  Idiom = "coerce"
  MaxIssues = 3
SPECIFICATION Spec
INVARIANTS TypeOK ReturnConforms LimitConforms
CHECK_DEADLOCK FALSE
