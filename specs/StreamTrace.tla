----------------------------- MODULE StreamTrace -----------------------------
(* B2 for C16: validates the two per-endpoint logs of real connections (tiny_std::net over   *)
(* Unix / TCP loopback sockets, driver netops) against the Stream specification.             *)
(*                                                                                           *)
(* IOEnv.TRACE is ndjson, one connection per line: {"id", "n_cs", "n_sc", "c":[ev..],         *)
(* "s":[ev..]}; an event is {op, res, req, n, off, match, d, t0, t1, s, e, nonblock,           *)
(* tolistener (connect: the address is the one our listener binds)}: s/e are                 *)
(* sequence numbers drawn from one atomic counter before/after the call (a LOGICAL clock:     *)
(* if X.e < Y.s then X happened before Y; overlapping calls are unordered), t0/t1 monotonic   *)
(* microseconds used only within one event (elapsed time of a timed call).  No ordering       *)
(* between the two threads is ever taken from the wall clock.                                 *)
(*                                                                                           *)
(* A connection is accepted iff SOME interleaving of the two logs that respects the logical   *)
(* order is a behaviour of Stream (projected on byte counts: the payload is position-         *)
(* dependent, every read event says whether the bytes it got are exactly the bytes at its     *)
(* position `off` of the stream - `match`): TLC searches the interleavings.  Each connection  *)
(* is an initial state; <<"ACC", id>> is printed when its logs are consumed completely.       *)
EXTENDS Integers, Sequences, FiniteSets, TLC, Json, IOUtils
Conns == ndJsonDeserialize(IOEnv.TRACE)
Verbose == "VERBOSE" \in DOMAIN IOEnv /\ IOEnv.VERBOSE = "1"

VARIABLES k, ic, is, lst, backlog, st, sent, recv
vars == <<k, ic, is, lst, backlog, st, sent, recv>>
C == Conns[k]
Init == /\ k \in 1..Len(Conns)
        /\ ic = 0 /\ is = 0 /\ lst = FALSE /\ backlog = 0
        /\ st = [e \in {"c", "s"} |-> "unbound"]
        /\ sent = [d \in {1, 2} |-> 0] /\ recv = [d \in {1, 2} |-> 0]

Peer(e) == IF e = "c" THEN "s" ELSE "c"
OutDir(e) == IF e = "c" THEN 1 ELSE 2
InDir(e) == IF e = "c" THEN 2 ELSE 1
\* only a LOWER bound on the elapsed monotonic time of a timed-out call
NotEarly(ev) == ev.t1 - ev.t0 >= ev.d

(* the Stream action an event stands for, as a relation between the model state before and   *)
(* after; FALSE = the specification has no such step here                                    *)
Step(e, ev) ==
    CASE ev.op = "listen" ->
           /\ ev.res = "ok" /\ lst' = TRUE /\ UNCHANGED <<backlog, st, sent, recv>>
      [] ev.op \in {"connect", "try_connect", "connect_to"} ->
           IF ev.res = "ok" THEN /\ lst /\ st["c"] = "unbound"                      \* Stream!ConnectStart / TryConnect
                                 /\ st' = [st EXCEPT !["c"] = "connected"] /\ backlog' = backlog + 1
                                 /\ UNCHANGED <<lst, sent, recv>>
           ELSE IF ev.res = "err" THEN (~lst \/ ~ev.tolistener) /\ UNCHANGED <<lst, backlog, st, sent, recv>>   \* refused: nobody listens there
           ELSE IF ev.res = "none" THEN ev.op = "try_connect" /\ UNCHANGED <<lst, backlog, st, sent, recv>>
           ELSE IF ev.res = "timeout" THEN ev.op = "connect_to" /\ NotEarly(ev) /\ UNCHANGED <<lst, backlog, st, sent, recv>>
           ELSE FALSE
      [] ev.op \in {"accept", "try_accept", "accept_to"} ->
           /\ ev.nonblock                                   \* the listener is O_NONBLOCK: accept4 itself can never wait
           /\ IF ev.res = "ok" THEN /\ lst /\ backlog > 0 /\ st["s"] = "unbound"   \* Stream!AcceptStart/Complete / TryAccept
                                    /\ backlog' = backlog - 1 /\ st' = [st EXCEPT !["s"] = "connected"]
                                    /\ UNCHANGED <<lst, sent, recv>>
              ELSE IF ev.res = "none" THEN ev.op = "try_accept" /\ UNCHANGED <<lst, backlog, st, sent, recv>>
              ELSE IF ev.res = "timeout" THEN ev.op = "accept_to" /\ NotEarly(ev) /\ UNCHANGED <<lst, backlog, st, sent, recv>>   \* Stream!AcceptTimeout
              ELSE FALSE
      [] ev.op = "write" ->
           IF ev.res = "ok" THEN /\ st[e] = "connected" /\ st[Peer(e)] # "closed"      \* Stream!WriteStart/Complete
                                 /\ ev.n >= 1 /\ ev.n <= ev.req /\ ev.off = sent[OutDir(e)]
                                 /\ sent' = [sent EXCEPT ![OutDir(e)] = @ + ev.n] /\ UNCHANGED <<lst, backlog, st, recv>>
           ELSE IF ev.res = "err" THEN st[Peer(e)] = "closed" /\ UNCHANGED <<lst, backlog, st, sent, recv>>   \* EPIPE
           ELSE FALSE
      [] ev.op \in {"read", "read_to"} ->
           IF ev.res = "ok" THEN /\ st[e] = "connected"                                 \* Stream!ReadStart/Complete
                                 /\ ev.n >= 1 /\ ev.n <= ev.req /\ ev.match /\ ev.off = recv[InDir(e)]
                                 /\ recv[InDir(e)] + ev.n <= sent[InDir(e)]            \* a prefix of what was sent
                                 /\ recv' = [recv EXCEPT ![InDir(e)] = @ + ev.n] /\ UNCHANGED <<lst, backlog, st, sent>>
           ELSE IF ev.res = "eof" THEN /\ st[e] = "connected" /\ st[Peer(e)] = "closed"
                                       /\ recv[InDir(e)] = sent[InDir(e)]              \* end of stream only after everything
                                       /\ UNCHANGED <<lst, backlog, st, sent, recv>>
           ELSE IF ev.res = "timeout" THEN ev.op = "read_to" /\ NotEarly(ev) /\ UNCHANGED <<lst, backlog, st, sent, recv>>  \* Stream!ReadTimeout
           ELSE FALSE
      [] ev.op = "flush" ->            \* Write::flush of a stream: nothing is buffered above the socket, always Ok
           ev.res = "ok" /\ st[e] = "connected" /\ UNCHANGED <<lst, backlog, st, sent, recv>>
      [] ev.op = "probe" ->            \* a probe call that found an answer after all: no effect on this connection
           UNCHANGED <<lst, backlog, st, sent, recv>>
      [] ev.op = "close" ->
           /\ st' = [st EXCEPT ![e] = "closed"] /\ UNCHANGED <<lst, backlog, sent, recv>>
      [] OTHER -> FALSE

\* logical order: an event may be taken only if the other side's next event did not END before it STARTED
MayTake(mine, theirs, j) == IF j = Len(theirs) THEN TRUE ELSE ~(theirs[j + 1].e < mine.s)
TakeC == /\ ic < Len(C.c) /\ MayTake(C.c[ic + 1], C.s, is)
         /\ Step("c", C.c[ic + 1]) /\ ic' = ic + 1 /\ UNCHANGED <<k, is>>
TakeS == /\ is < Len(C.s) /\ MayTake(C.s[is + 1], C.c, ic)
         /\ Step("s", C.s[is + 1]) /\ is' = is + 1 /\ UNCHANGED <<k, ic>>
Next == TakeC \/ TakeS

\* both logs consumed: complete transfer in both directions, both ends closed
Complete == /\ ic = Len(C.c) /\ is = Len(C.s)
            /\ sent[1] = C.n_cs /\ recv[1] = C.n_cs /\ sent[2] = C.n_sc /\ recv[2] = C.n_sc
            /\ st["c"] = "closed" /\ st["s"] = "closed"
Report == /\ Complete => PrintT(<<"ACC", ToJson([id |-> C.id])>>)
          /\ Verbose => PrintT(<<"PROG", ToJson([id |-> C.id, ic |-> ic, is |-> is, sent |-> <<sent[1], sent[2]>>, recv |-> <<recv[1], recv[2]>>])>>)
\* the abstraction keeps Stream's invariant: never more received than sent
PrefixInv == recv[1] <= sent[1] /\ recv[2] <= sent[2]
=============================================================================
